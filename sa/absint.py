# coding: utf-8
"""E4 (part 2) -- abstract interpreter over the repo's own syntax trees.

Executes a function of the analysed tree on abstract values (affine integer
terms under an order chain, interval-list sequences, abstract records and
matches, uninterpreted terms, symbolic maps).  Undecided tests fork; each
path ends in an Outcome.  Calls into the repo are inlined through the class
table; calls into libraries go through a small model of their documented
contract (trusted base T1-T3).  Anything outside the model raises
AnalysisError -- never a guess.
"""
from __future__ import annotations

import ast
import re
from typing import Callable, Dict, List, Optional, Sequence, Tuple

from .absdom import Aff, Constraints, NeedFork, Piece, show_pieces
from .loader import AnalysisError, ClassInfo, Const, Ext, FuncInfo, ModRef, Program, decorator_name

MAX_INLINE_DEPTH = 12

# ---------------------------------------------------------------------------
# abstract values


class ASeq(object):
    """str / Seq / list seen as a concatenation of intervals of named words."""

    def __init__(self, kind: str, pieces: Sequence[Piece], upper: bool = False):
        self.kind = kind  # 'str' | 'Seq' | 'list'
        self.pieces = list(pieces)
        self.upper = upper

    def __repr__(self):
        # `upper` is True after .upper(), False by default and after .lower(): a case-normalised text says so
        return "%s<%s>%s" % (self.kind, show_pieces(self.pieces), " upper" if self.upper else "")


class ARec(object):
    """SeqRecord / CircularRecord."""

    def __init__(self, circular: bool, pieces: Sequence[Piece], ident: "Term", deriv=None, ctor: str = ""):
        self.circular = circular
        self.pieces = list(pieces)
        self.ident = ident  # whose id/name/annotations it carries
        self.deriv = deriv or ("input", repr(ident))
        self.added_features: List[object] = []
        self.attrs: Dict[str, object] = {}
        self.ctor = ctor

    def __repr__(self):
        return "%s<%s from %s>" % ("Circ" if self.circular else "Rec", show_pieces(self.pieces), self.deriv)


class Term(object):
    """Uninterpreted term."""

    def __init__(self, op: str, *args):
        self.op = op
        self.args = args

    def key(self):
        return (self.op,) + tuple(a.key() if isinstance(a, Term) else repr(a) for a in self.args)

    def __eq__(self, o):
        return isinstance(o, Term) and self.key() == o.key()

    def __hash__(self):
        return hash(self.key())

    def __repr__(self):
        if not self.args:
            return self.op
        return "%s(%s)" % (self.op, ",".join(map(repr, self.args)))


class AJoin(Term):
    """sep.join(list) of an abstract list: a term that keeps the list."""

    def __init__(self, sep, alist):
        Term.__init__(self, "join", Term(repr(sep)), Term(repr(alist)))
        self.sep, self.alist = sep, alist


class AObj(object):
    def __init__(self, cls: ClassInfo, attrs: Optional[Dict[str, object]] = None, name: str = ""):
        self.cls = cls
        self.attrs = dict(attrs or {})
        self.name = name or cls.name

    def __repr__(self):
        return "<%s %s>" % (self.cls.name, self.name)


class AReMatch(object):
    """re.Match over an abstract text."""

    def __init__(self, text, spans: Dict[object, Tuple[Aff, Aff]], pos=None, endpos=None, generic_group=None):
        self.text = text
        self.spans = spans
        self.pos, self.endpos = pos, endpos
        self.generic_group = generic_group

    def span_of(self, idx):
        if idx in self.spans:
            return self.spans[idx]
        if isinstance(idx, Term) and self.generic_group is not None:
            return self.generic_group
        raise AnalysisError("abstract match has no group %r" % (idx,))

    def __repr__(self):
        return "rematch(%r,%r,%r)" % (self.text, self.pos, self.endpos)


class AExc(object):
    def __init__(self, cls, args, kwargs, where=""):
        self.cls = cls  # ClassInfo or str (builtin name)
        self.args = list(args)
        self.kwargs = dict(kwargs)
        self.where = where

    @property
    def name(self):
        return self.cls.name if isinstance(self.cls, ClassInfo) else str(self.cls)

    def __repr__(self):
        return "%s(%s)" % (self.name, ", ".join(map(repr, self.args)))


class AStruct(object):
    """Library value object (FeatureLocation, SeqFeature, ...)."""

    def __init__(self, kind: str, **fields):
        self.kind = kind
        self.fields = fields

    def __repr__(self):
        return "%s(%s)" % (self.kind, ", ".join("%s=%r" % kv for kv in sorted(self.fields.items())))


class AEnzymeV(object):
    def __init__(self, five_prime=True):
        self.five_prime = five_prime


class AMap(object):
    """Symbolic dict: an unknown base content plus explicit updates."""

    def __init__(self, base: str, adds=(), removes=(), make_value=None):
        self.base = base
        self.adds = list(adds)
        self.removes = list(removes)
        self.make_value = make_value
        self.values_cache = {}
        self.known = {}

    def value_for(self, key):
        """the value stored under ``key`` in the unknown base content"""
        k = repr(key)
        if k not in self.values_cache:
            if self.make_value is not None:
                self.values_cache[k] = self.make_value(self, key)
            else:
                self.values_cache[k] = Term("lookup", Term(self.base), key if isinstance(key, Term) else Term(repr(key)))
        return self.values_cache[k]

    def key(self):
        return (self.base, tuple((repr(k), repr(v)) for k, v in self.adds), tuple(repr(k) for k in self.removes))

    def __repr__(self):
        s = self.base
        for k, v in self.adds:
            s += "+{%r:%r}" % (k, v)
        for k in self.removes:
            s += "-{%r}" % (k,)
        return s


class AListMap(object):
    """list obtained by appending, once per generic iteration, ``elem``."""

    def __init__(self, source: str, elems: List[object]):
        self.source = source
        self.elems = elems

    def __repr__(self):
        return "[%s for each %s]" % (" | ".join(map(repr, self.elems)), self.source)


class AList(object):
    """A Python list of abstract values.  ``generic`` is set when an element
    was appended inside a generic (once-for-all) loop iteration: the items are
    then representatives and the length is symbolic."""

    _count = 0

    def __init__(self, items=(), depth: int = 0, origin: str = ""):
        self.items = list(items)
        self.depth = depth
        self.generic = False
        self.generic_from = 0  # items before this index were appended once, outside the generic iteration
        self.min_len = 0
        self.uid = origin or "anon"

    def __repr__(self):
        src = getattr(self, "source", None)
        tag = ("generic<%s>%s" % (src, "|filtered" if getattr(self, "filtered", False) else "")) if (self.generic and src) else ("generic" if self.generic else "")
        return "%s%r" % (tag, self.items)


class AFeatList(object):
    """record.features"""

    def __init__(self, rec):
        self.rec = rec

    def __repr__(self):
        return "features(%r)" % (self.rec.ident,)


class RecType(object):
    """type(record)"""

    def __init__(self, circular: bool):
        self.circular = circular

    def __repr__(self):
        return "CircularRecord" if self.circular else "SeqRecord"


class AMapView(object):
    """items()/keys()/values() of a symbolic dict"""

    def __init__(self, m, which):
        self.m, self.which = m, which

    def __repr__(self):
        return "%s(%r)" % (self.which, self.m)


class ACtxMgr(object):
    """the result of calling a @contextmanager generator function of the repo"""

    def __init__(self, fi, args, kwargs):
        self.fi, self.args, self.kwargs = fi, args, kwargs


def _is_generator(fn: ast.FunctionDef) -> bool:
    stack = list(fn.body)
    while stack:
        n = stack.pop()
        if isinstance(n, (ast.FunctionDef, ast.Lambda, ast.ClassDef)):
            continue
        if isinstance(n, (ast.Yield, ast.YieldFrom)):
            return True
        stack.extend(ast.iter_child_nodes(n))
    return False


def _gen_collect(I, lst, v):
    if lst.depth < I.loop_depth and not lst.generic:
        lst.generic = True
        lst.generic_from = len(lst.items)
    lst.items.append(v)
    return None


class AScan(object):
    """A lazy scan (generator) over an ascending range, represented by its
    generic element: `next(scan, default)` is the element of the first
    position that yields one."""

    def __init__(self, items):
        self.items = list(items)

    def __repr__(self):
        return "scan%r" % (self.items,)


class ARange(object):
    def __init__(self, lo, hi, desc=False):
        self.lo, self.hi, self.desc = lo, hi, desc


class ACollection(object):
    """An input collection iterated generically (list of modules, features)."""

    def __init__(self, name: str, make_elem: Callable[[], object]):
        self.name = name
        self.make_elem = make_elem

    def __repr__(self):
        return "coll(%s)" % self.name


class LibRef(object):
    def __init__(self, dotted: str):
        self.dotted = dotted

    def __repr__(self):
        return "lib:" + self.dotted


class BoundMethod(object):
    def __init__(self, kind, target, name, extra=None):
        self.kind, self.target, self.name, self.extra = kind, target, name, extra


class SuperProxy(object):
    def __init__(self, after: ClassInfo, obj):
        self.after, self.obj = after, obj


class ABoolTerm(object):
    """A boolean the analyser keeps symbolic (membership tests ...)."""

    def __init__(self, op, *args):
        self.op, self.args = op, args

    def __repr__(self):
        return "%s(%s)" % (self.op, ", ".join(map(repr, self.args)))


# ---------------------------------------------------------------------------
# control flow


# summaries of repo functions the evaluator applied instead of inlining them; the
# property run discharges the matching lemma (sa/cli.py) before it reports
SUMMARIES_USED = set()


def _plain_data(v, depth=0) -> bool:
    if isinstance(v, (str, int, float, bool, type(None))):
        return True
    if depth > 6:
        return False
    if isinstance(v, (tuple, list, frozenset, set)):
        return all(_plain_data(x, depth + 1) for x in v)
    if isinstance(v, dict):
        return all(_plain_data(k, depth + 1) and _plain_data(x, depth + 1) for k, x in v.items())
    return False


def _fold_class_data(p, owner, name):
    """(True, value) when the class attribute is *computed* constant data (a table built by a comprehension, dict(zip()),
    ...): the constant folder evaluates it; displays and everything else stay with the interpreter"""
    raw = owner.attrs.get(name)
    if not isinstance(raw, (ast.DictComp, ast.ListComp, ast.SetComp, ast.Call, ast.GeneratorExp, ast.BinOp)):
        return False, None
    cache = p.__dict__.setdefault("_folded_class_data", {})
    key = (owner.qualname, name)
    if key not in cache:
        try:
            from .fold import Folder

            v = Folder(p).class_const(owner, name)
            cache[key] = (True, v) if _plain_data(v) and isinstance(v, (dict, tuple, list, str, frozenset, set)) else (False, None)
        except Exception:
            cache[key] = (False, None)
    ok, v = cache[key]
    if ok:
        import copy

        return True, copy.deepcopy(v)
    return False, None


class ClassBodyEnv(dict):
    """Names in scope for an expression written in a class body: the data
    attributes bound in that body (evaluated on demand)."""

    def __init__(self, interp, owner):
        dict.__init__(self)
        self._I, self._owner, self._busy = interp, owner, set()

    def _raw(self, k):
        raw = self._owner.attrs.get(k)
        return raw if (isinstance(raw, (ast.AST, Const)) and k not in self._busy) else None

    def __contains__(self, k):
        return dict.__contains__(self, k) or self._raw(k) is not None

    def __missing__(self, k):
        raw = self._raw(k)
        if raw is None:
            raise KeyError(k)
        if isinstance(raw, Const):
            v = raw.value
        else:
            self._busy.add(k)
            try:
                v = Frame(self._I, None, self, module=self._owner.module).expr(raw)
            finally:
                self._busy.discard(k)
        dict.__setitem__(self, k, v)
        return v

    def get(self, k, d=None):
        return self[k] if k in self else d


class ChainEnv(dict):
    """Variables of a nested function: its own names, falling through to the
    defining frame's variables as they are at the time of the read (closures
    share the enclosing variables, they do not copy them)."""

    def __init__(self, parent, local=None):
        dict.__init__(self, local or {})
        self.parent = parent

    def __missing__(self, k):
        return self.parent[k]

    def get(self, k, d=None):
        if dict.__contains__(self, k):
            return dict.__getitem__(self, k)
        return self.parent.get(k, d)

    def __contains__(self, k):
        return dict.__contains__(self, k) or k in self.parent

    def keys(self):
        out = list(dict.keys(self))
        out += [k for k in self.parent.keys() if not dict.__contains__(self, k)]
        return out

    def __iter__(self):
        return iter(self.keys())

    def items(self):
        return [(k, self[k]) for k in self.keys()]

    def values(self):
        return [self[k] for k in self.keys()]

    def local_items(self):
        return list(dict.items(self))


class ALambda(Term):
    """A lambda or a nested def: its body is evaluated when it is called, in the
    variables of the defining frame as they are *then* (late binding); default
    values of its parameters are evaluated when it is defined."""

    def __init__(self, node, frame, defaults):
        Term.__init__(self, "lambda" if isinstance(node, ast.Lambda) else "closure:" + node.name)
        self.node, self.frame, self.defaults = node, frame, defaults


class AExitStack(object):
    """contextlib.ExitStack: callbacks registered on it run, last first, when the with block is left."""

    def __init__(self):
        self.callbacks = []

    def __repr__(self):
        return "<ExitStack %d callback(s)>" % len(self.callbacks)


class ACallable(object):
    """functools.partial / operator.methodcaller / attrgetter / itemgetter / operator.<op>: applied by call_value"""

    def __init__(self, kind, *data, **kw):
        self.kind, self.data, self.kw = kind, data, kw

    def __repr__(self):
        return "<%s %s>" % (self.kind, ", ".join(map(repr, self.data)))


class ARepeat(object):
    """itertools.repeat(x): x, as often as the other iterables of a map/zip need it"""

    def __init__(self, value):
        self.value = value


class AIter(object):
    """A one-shot iterator (itertools.chain, iter(), map, zip ... of something):
    whatever walks it first exhausts it; a second walk sees nothing."""

    def __init__(self, source, what: str):
        self.source, self.what, self.consumed = source, what, False

    def __repr__(self):
        return "<one-shot %s over %r%s>" % (self.what, self.source, ", exhausted" if self.consumed else "")


class ANTType(object):
    """A namedtuple class (collections.namedtuple / typing.NamedTuple)."""

    def __init__(self, name, fields):
        self.name, self.fields = name, list(fields)

    def __repr__(self):
        return "<namedtuple %s%r>" % (self.name, tuple(self.fields))


class ANT(tuple):
    """An instance of a namedtuple class: a tuple whose items also have names."""

    _nt_fields = ()
    _nt_class = None  # the repo class deriving from the namedtuple, when there is one (methods, properties)

    @classmethod
    def make(cls, fields, values, klass=None):
        o = cls(values)
        o._nt_fields = tuple(fields)
        o._nt_class = klass
        return o


_MISSING = object()


class _SyntheticFunc(object):
    """the function a generator expression stands for"""

    def __init__(self, node):
        self.node, self.qualname, self.name, self.decorators, self.owner = node, "<genexpr>", "<genexpr>", [], None


class AFragList(object):
    """A list of record fragments known only through the concatenation of its
    items (all it may be used for is an additive fold: sum / reduce(add))."""

    def __init__(self, rec):
        self.rec = rec

    def __repr__(self):
        return "<fragments of %r>" % (self.rec,)


class AGenCall(object):
    """A call of a repo generator function used as the iterable of a for loop:
    its body is run interleaved with the loop body (lazy iteration)."""

    def __init__(self, fi, args, kwargs, closure_frame=None):
        self.fi, self.args, self.kwargs, self.closure_frame = fi, args, kwargs, closure_frame

    def __repr__(self):
        return "<generator %s>" % (getattr(self.fi, "qualname", None) or getattr(getattr(self.fi, "node", None), "name", "?"))


class ConsumerSignal(Exception):
    """What the body of a for loop raised while the generator it iterates is
    suspended at a yield: it does not pass through the generator's handlers
    (the generator is closed: its finally blocks run)."""

    def __init__(self, sig, owner=None):
        self.sig = sig
        self.owner = owner  # the loop whose body raised it: a loop nested in the generator lets it pass


class NoSuchAttr(AnalysisError):
    """attribute neither on the abstract object nor in its class table: an analysis error when read plainly (the
    model of the object may be partial), the default when read through getattr(obj, name, default) / hasattr"""


class ReturnSig(Exception):
    def __init__(self, value):
        self.value = value


class RaiseSig(Exception):
    def __init__(self, exc: AExc):
        self.exc = exc


class LoopContinue(Exception):
    pass


class LoopBreak(Exception):
    pass


class StepDone(Exception):
    """One generic iteration of the designated loop finished."""

    def __init__(self, env):
        self.env = env


class Outcome(object):
    def __init__(self, kind: str, value, path: "Path", env=None):
        self.kind = kind  # 'return' | 'raise' | 'step'
        self.value = value
        self.path = path
        self.env = env

    def __repr__(self):
        return "%s %r %s" % (self.kind, self.value, self.path.choices)


class Path(object):
    def __init__(self, cons: Constraints, oracle: List[object]):
        self.cons = cons.clone()
        self.oracle = list(oracle)
        self.pos = 0
        self.choices: List[Tuple[str, object]] = []
        self.arith_forks = 0
        self.effects: List[Tuple] = []
        self.termeq: Dict[tuple, bool] = {}
        self.in_spec = False  # set while the specification is being evaluated

    def choose(self, tag: str, options: Sequence[object] = (True, False)):
        if self.pos < len(self.oracle):
            v = self.oracle[self.pos]
            self.pos += 1
        else:
            raise NeedFork((tag, list(options)))
        self.choices.append((("spec " + tag) if self.in_spec else tag, v))
        return v


def explore(run: Callable[[Path], Outcome], cons: Constraints, limit: int = 4000) -> List[Outcome]:
    results = []
    stack: List[List[object]] = [[]]
    n = 0
    while stack:
        oracle = stack.pop()
        n += 1
        if n > limit:
            raise AnalysisError("path explosion (> %d paths)" % limit)
        path = Path(cons, oracle)
        try:
            out = run(path)
        except NeedFork as nf:
            tag, options = nf.what
            for o in reversed(options):
                stack.append(oracle + [o])
            continue
        if path.arith_forks and path.cons.satisfiable_small() is None:
            continue  # infeasible abstract state created by a fork
        results.append(out)
    return results


# ---------------------------------------------------------------------------


class Interp(object):
    def __init__(self, program: Program, path: Path, hooks: Optional[Dict[str, Callable]] = None):
        self.p = program
        self.path = path
        self.depth = 0
        self.hooks = hooks or {}
        self.step_loop: Optional[ast.AST] = None  # loop evaluated as one inductive step
        self.call_stack: List[str] = []
        self.frames: List["Frame"] = []  # active repo frames, outermost first
        self.fresh = 0
        self.loop_depth = 0

    # -- decisions ----------------------------------------------------------

    def ge0(self, e: Aff) -> bool:
        r = self.path.cons.decide_ge0(e)
        if r is None:
            r = self.path.choose("arith %r>=0" % e)
            self.path.cons.add(e if r else (-e - 1))
            self.path.arith_forks += 1
        return r

    def cmp(self, op, l, r, node=None) -> object:
        if isinstance(l, (Aff, int)) and isinstance(r, (Aff, int)) and not isinstance(l, bool) and not isinstance(r, bool):
            l, r = Aff.of(l), Aff.of(r)
            if isinstance(op, ast.GtE):
                return self.ge0(l - r)
            if isinstance(op, ast.Gt):
                return self.ge0(l - r - 1)
            if isinstance(op, ast.LtE):
                return self.ge0(r - l)
            if isinstance(op, ast.Lt):
                return self.ge0(r - l - 1)
            if isinstance(op, ast.Eq):
                return self.ge0(l - r) and self.ge0(r - l)
            if isinstance(op, ast.NotEq):
                return not (self.ge0(l - r) and self.ge0(r - l))
        if isinstance(op, (ast.Lt, ast.LtE, ast.Gt, ast.GtE)) and (isinstance(l, Term) or isinstance(r, Term)):
            return self.path.choose("order %s %r %r" % (type(op).__name__, l, r))
        if isinstance(op, (ast.Is, ast.IsNot)):
            same = self.identical(l, r)
            return same if isinstance(op, ast.Is) else not same
        if (is_enum_member(l) or is_enum_member(r)) and not (isinstance(op, (ast.Is, ast.IsNot, ast.In, ast.NotIn))):
            mem, other = (l, r) if is_enum_member(l) else (r, l)
            if not isinstance(self.p.class_attr_def(mem.cls, "__eq__")[1], FuncInfo):
                info_ = self.p.enum_info(mem.cls)
                if isinstance(op, (ast.Eq, ast.NotEq)):
                    if is_enum_member(other):
                        same = mem is other
                    elif info_["mixin"] is not None and isinstance(other, (str, int)) and not isinstance(other, bool):
                        same = mem.attrs["value"] == other  # a member that is a str / an int equals that str / int
                    elif info_["mixin"] is not None and isinstance(other, (Term, Aff)):
                        same = self.equal(mem.attrs["value"], other)
                    else:
                        same = False
                    return same if isinstance(op, ast.Eq) else not same
                if info_["mixin"] == "int":
                    lv = l.attrs["value"] if is_enum_member(l) else l
                    rv = r.attrs["value"] if is_enum_member(r) else r
                    return self.cmp(op, lv, rv, node)
        if isinstance(op, (ast.Eq, ast.NotEq)) and isinstance(l, AObj) and isinstance(l.cls, ClassInfo):
            # an object of the code base whose class spells out equality: == runs its __eq__, != its __ne__ (Python 3:
            # the negation of __eq__ when there is none); NotImplemented falls back to identity
            name = "__eq__" if isinstance(op, ast.Eq) else "__ne__"
            owner, raw = self.p.class_attr_def(l.cls, name)
            negate = False
            if not isinstance(raw, FuncInfo) and name == "__ne__":
                owner, raw = self.p.class_attr_def(l.cls, "__eq__")
                negate = True
            if isinstance(raw, FuncInfo):
                res = self.call_function(raw, [l, r], {}, node)
                if res is NotImplemented or (isinstance(res, AStruct) and res.kind == "NotImplemented"):
                    same = l is r
                    return same if isinstance(op, ast.Eq) else not same
                res = self.truth(res, node)
                return (not res) if negate else res
        if isinstance(op, (ast.Eq, ast.NotEq)):
            eq = self.equal(l, r)
            return eq if isinstance(op, ast.Eq) else not eq
        if isinstance(op, (ast.In, ast.NotIn)):
            res = self.contains(r, l)
            if isinstance(res, bool):
                return res if isinstance(op, ast.In) else not res
            return res if isinstance(op, ast.In) else ABoolTerm("not", res)
        self.unsupported(node, "comparison of %r and %r" % (l, r))

    def identical(self, l, r) -> bool:
        if l is None or r is None:
            if l is None and r is None:
                return True
            other = r if l is None else l
            if isinstance(other, Term) and other.op == "maybe-none":
                return self.path.choose("is-none %r" % other)
            return False
        if isinstance(l, AStruct) and l.kind == "NotImplemented":
            l = NotImplemented
        if isinstance(r, AStruct) and r.kind == "NotImplemented":
            r = NotImplemented
        if l is NotImplemented or r is NotImplemented:
            return l is r
        if isinstance(l, Term) and isinstance(r, Term):
            if l == r:
                return True
            k = ("is", repr(l), repr(r))
            if k not in self.path.termeq:
                self.path.termeq[k] = self.path.choose("identical %r %r" % (l, r))
            return self.path.termeq[k]
        return l is r

    def equal(self, l, r) -> bool:
        if isinstance(l, (str, int, bool, type(None))) and isinstance(r, (str, int, bool, type(None))):
            return l == r
        if isinstance(l, Term) and isinstance(r, Term):
            if l == r:
                return True
            k = tuple(sorted([repr(l), repr(r)]))
            if k not in self.path.termeq:
                self.path.effects.append(("compare", l, r))
                self.path.termeq[k] = self.path.choose("equal %r %r" % (l, r))
            return self.path.termeq[k]
        if isinstance(l, Term) or isinstance(r, Term):
            t, o = (l, r) if isinstance(l, Term) else (r, l)
            if isinstance(o, (str, int, type(None))):
                k = (repr(t), repr(o))
                if k not in self.path.termeq:
                    self.path.effects.append(("compare", t, o))
                    self.path.termeq[k] = self.path.choose("equal %r %r" % (t, o))
                return self.path.termeq[k]
        raise AnalysisError("cannot compare %r == %r" % (l, r))

    def key_of(self, k, node=None):
        """what a dict sees of a key: an object of a class of the code base that defines __eq__ and __hash__ on one of its
        attributes each (`return self.a == other.a`, `return hash(self.b)`) stands for the finer of the two attribute
        values -- the same one when the two methods agree, as they must"""
        if not (isinstance(k, AObj) and isinstance(k.cls, ClassInfo)):
            return k
        o1, eq = self.p.class_attr_def(k.cls, "__eq__")
        o2, hs = self.p.class_attr_def(k.cls, "__hash__")
        if not isinstance(eq, FuncInfo) and not isinstance(hs, FuncInfo):
            return k  # identity
        if not (isinstance(eq, FuncInfo) and isinstance(hs, FuncInfo)):
            raise AnalysisError("%s defines only one of __eq__ / __hash__; its use as a dictionary key is not modelled" % k.cls.qualname)

        def view_of(fn: FuncInfo, which: str):
            """the expression E(self) such that __eq__ answers E(self) == E(other) / __hash__ answers hash(E(self)): an
            attribute, or a chain of attributes and argument-less method calls (`self.folded()`, `self.seq.upper()`)"""
            ps = [a.arg for a in fn.node.args.args]
            found = {}

            def chain_root(e):
                while True:
                    if isinstance(e, ast.Attribute):
                        e = e.value
                    elif isinstance(e, ast.Call) and not e.args and not e.keywords and isinstance(e.func, ast.Attribute):
                        e = e.func.value
                    else:
                        break
                return e.id if isinstance(e, ast.Name) else None

            def renamed(e, frm, to):
                import copy as _copy

                e2 = _copy.deepcopy(e)
                for n_ in ast.walk(e2):
                    if isinstance(n_, ast.Name) and n_.id == frm:
                        n_.id = to
                return ast.dump(e2)

            for n in ast.walk(fn.node):
                if not isinstance(n, ast.Return) or n.value is None:
                    continue
                v = n.value
                if which == "eq" and isinstance(v, ast.Compare) and len(v.ops) == 1 and isinstance(v.ops[0], ast.Eq) and len(ps) == 2:
                    l, r_ = v.left, v.comparators[0]
                    if chain_root(l) == ps[1] and chain_root(r_) == ps[0]:
                        l, r_ = r_, l
                    if chain_root(l) == ps[0] and chain_root(r_) == ps[1] and not isinstance(l, ast.Name) and renamed(r_, ps[1], ps[0]) == ast.dump(l):
                        found[ast.dump(l)] = l
                        continue
                    return None
                elif which == "eq" and (isinstance(v, ast.Name) and v.id == "NotImplemented" or isinstance(v, ast.Constant) and v.value is False):
                    continue
                elif which == "hash" and isinstance(v, ast.Call) and isinstance(v.func, ast.Name) and v.func.id == "hash" and len(v.args) == 1 \
                        and chain_root(v.args[0]) == ps[0] and not isinstance(v.args[0], ast.Name):
                    found[ast.dump(v.args[0])] = v.args[0]
                else:
                    return None
            if len(found) != 1:
                return None
            return ps[0], next(iter(found.values()))

        a, b = view_of(eq, "eq"), view_of(hs, "hash")
        if a is None or b is None:
            raise AnalysisError("%s: __eq__ / __hash__ are not of the form `E(self) == E(other)` / `hash(E'(self))`; its use as a dictionary key is not modelled" % k.cls.qualname)

        def value_of(fn: FuncInfo, view):
            me, e = view
            n0 = len(self.path.effects)
            try:
                return Frame(self, fn, {me: k}, module=fn.module).expr(e)
            finally:
                # reading one's own attributes to be compared or hashed is not an effect of the computation
                self.path.effects[n0:] = [x for x in self.path.effects[n0:] if x[0] not in ("getattr", "read")]

        try:
            q, x = value_of(eq, a), value_of(hs, b)
        except AnalysisError:
            raise AnalysisError("%s: what __eq__ compares / __hash__ hashes cannot be evaluated; its use as a dictionary key is not modelled" % k.cls.qualname)
        if repr(q) == repr(x):
            return q

        def inside(small, big):
            return isinstance(big, Term) and (repr(small) == repr(big) or any(inside(small, y) for y in big.args))

        if inside(q, x):
            return q  # the hash is computed from what equality compares: equality decides
        if inside(x, q):
            return x  # equality compares something computed from what is hashed: the hash already separates
        raise AnalysisError("%s: __eq__ compares %s and __hash__ hashes %s, which are not derived from one another" % (k.cls.qualname, ast.unparse(a[1]), ast.unparse(b[1])))

    def truth(self, v, node=None) -> bool:
        if isinstance(v, bool):
            return v
        if v is None:
            return False
        if isinstance(v, (int, str, list, tuple, dict)):
            return bool(v)
        if isinstance(v, AList):
            if v.generic and v.min_len >= 1:
                return True
            if v.generic:
                res = self.path.choose("nonempty %r" % v)
                # ... which is a fact about its length, should the length be asked for as well
                if v.uid != "anon":  # (lists without a name of their own share one length symbol: no fact is recorded for them)
                    t = Aff.sym("len:list@%s" % v.uid)
                    self.path.cons.add(t - 1 if res else -t)
                return res
            return bool(v.items)
        if isinstance(v, Aff):
            return not (self.ge0(v) and self.ge0(-v))
        if isinstance(v, AMap):
            return self.path.choose("nonempty %r" % v)
        if isinstance(v, AMapView) and isinstance(v.m, AMap):
            # a view is empty when the table is; so is a list made of it, as long as the table has not changed since
            stamp = getattr(v, "stamp", None)
            if stamp is None or stamp == (len(v.m.adds), len(v.m.removes)):
                return self.truth(v.m, node)
        if isinstance(v, Term) and v.op == "maybe-none":
            return not self.identical(v, None)
        if isinstance(v, ABoolTerm):
            res = self.path.choose("bool %r" % v)
            self.path.effects.append(("bool", v, res))
            # what a membership test found out holds for a later .index() of the same item in the same list
            inner, pos = v, True
            while inner.op == "not" and len(inner.args) == 1 and isinstance(inner.args[0], ABoolTerm):
                inner, pos = inner.args[0], not pos
            if inner.op == "in" and len(inner.args) == 2 and isinstance(inner.args[1], Term):
                self.path.termeq[("member", repr(inner.args[1]), repr(inner.args[0]))] = (res == pos)
            return res
        if is_enum_member(v) and not any(isinstance(self.p.class_attr_def(v.cls, sp)[1], FuncInfo) for sp in ("__bool__", "__len__")):
            info_ = self.p.enum_info(v.cls)
            return bool(v.attrs["value"]) if (info_["mixin"] or info_["flag"]) else True
        if isinstance(v, AObj) and isinstance(v.cls, ClassInfo):
            # an object of the code base is true unless its class says otherwise (__bool__, else __len__)
            for special in ("__bool__", "__nonzero__", "__len__"):
                owner, raw = self.p.class_attr_def(v.cls, special)
                if isinstance(raw, FuncInfo):
                    return self.truth(self.call_function(raw, [v], {}, node), node)
        if isinstance(v, (AObj, ARec, AStruct, AReMatch)):
            return True
        if isinstance(v, (BoundMethod, FuncInfo, ClassInfo, ACallable, LibRef)):
            return True  # functions, methods and classes are true
        if isinstance(v, Term):
            return self.path.choose("truth %r" % v)
        self.unsupported(node, "truth value of %r" % (v,))

    # -- sequences ----------------------------------------------------------

    def seq_len(self, pieces) -> Aff:
        t = Aff.const(0)
        for p in pieces:
            t = t + p.length()
        return t

    def amax(self, a: Aff, b: Aff) -> Aff:
        return a if self.ge0(a - b) else b

    def amin(self, a: Aff, b: Aff) -> Aff:
        return b if self.ge0(a - b) else a

    def norm_bound(self, v, L: Aff, default: Aff) -> Aff:
        if v is None:
            return default
        v = Aff.of(v)
        if self.ge0(v):
            return v if self.ge0(L - v) else L
        v2 = v + L
        return v2 if self.ge0(v2) else Aff.const(0)

    def slice_pieces(self, pieces, lo, hi) -> List[Piece]:
        L = self.seq_len(pieces)
        x = self.norm_bound(lo, L, Aff.const(0))
        y = self.norm_bound(hi, L, L)
        if not self.ge0(y - x - 1):
            return []
        out = []
        off = Aff.const(0)
        for p in pieces:
            end = off + p.length()
            a = self.amax(x, off)
            b = self.amin(y, end)
            if self.ge0(b - a - 1):
                out.append(Piece(p.base, p.lo + (a - off), p.lo + (b - off)))
            off = end
        return out

    def canon(self, pieces) -> List[Piece]:
        out: List[Piece] = []
        for p in pieces:
            if not self.ge0(p.hi - p.lo - 1):
                continue
            if out and out[-1].base == p.base and self.aff_eq(out[-1].hi, p.lo):
                out[-1] = Piece(p.base, out[-1].lo, p.hi)
            else:
                out.append(Piece(p.base, p.lo, p.hi))
        return out

    def aff_eq(self, x: Aff, y: Aff) -> bool:
        """equality entailed by the facts (never forks)"""
        d = Aff.of(x) - Aff.of(y)
        if d.is_const:
            return d.c == 0
        c = self.path.cons
        return c.decide_ge0(d) is True and c.decide_ge0(-d) is True

    def same_pieces(self, a, b) -> bool:
        a, b = self.canon(a), self.canon(b)
        if len(a) != len(b):
            return False
        for p, q in zip(a, b):
            if p.base != q.base or not self.aff_eq(p.lo, q.lo) or not self.aff_eq(p.hi, q.hi):
                return False
        return True

    def circular_interval(self, base: str, n: Aff, a: Aff, b: Aff) -> List[Piece]:
        """specification: the circular interval [a, b) of word ``base`` of
        length n (0 <= b - a <= n)."""
        a0 = self.mod(a, n)
        L = b - a
        end = a0 + L
        if self.ge0(n - end):
            return self.canon([Piece(base, a0, end)])
        return self.canon([Piece(base, a0, n), Piece(base, Aff.const(0), end - n)])

    def mod(self, a: Aff, n: Aff) -> Aff:
        """a % n for n >= 1 (Python semantics: result in [0, n))."""
        if isinstance(a, int):
            a = Aff.const(a)
        # an arbitrary integer: a fresh residue symbol, keyed by the term
        for q in (0, 1, -1, 2, -2, 3):
            lo = a - n.scale(q)
            lb, ub = self.path.cons.bounds(lo)
            lb2, ub2 = self.path.cons.bounds(lo - n)
            if lb is not None and lb >= 0 and ub2 is not None and ub2 < 0:
                return lo
        if any(s.startswith("any:") for s in a.symbols()):
            if n.co == {"n": 1} and n.c == 0 and "n" in a.co:
                a = a - Aff({"n": a.co["n"]})  # congruent modulo n
            anyc = [v for k_, v in sorted(a.co.items()) if k_.startswith("any:")]
            if anyc and anyc[0] < 0:
                # canonical sign: (-e) mod n = 0 if e mod n = 0 else n - (e mod n)
                r0 = self.mod(-a, n)
                if self.ge0(-r0):
                    return Aff.const(0)
                return n - r0
            name = "mod(%r)" % a
            r = Aff.sym(name)
            self.path.cons.add(r)
            self.path.cons.add(n - r - 1)
            return r
        for q in (0, 1, -1, 2, -2, 3):
            lo = a - n.scale(q)
            if self.ge0(lo) and self.ge0(n - lo - 1):
                return lo
        raise AnalysisError("cannot reduce %r modulo %r" % (a, n))

    def floordiv(self, a: Aff, n: Aff):
        if n.is_const and n.c > 0 and not a.is_const:
            # division by a constant: a fresh quotient symbol h with c*h <= a < c*h + c
            h = Aff.sym("floordiv(%r,%d)" % (a, n.c))
            self.path.cons.add(a - h.scale(n.c))
            self.path.cons.add(h.scale(n.c) + (n.c - 1) - a)
            return h
        for q in (0, 1, -1, 2, -2, 3):
            lo = a - n.scale(q)
            lb, ub = self.path.cons.bounds(lo)
            lb2, ub2 = self.path.cons.bounds(lo - n)
            if lb is not None and lb >= 0 and ub2 is not None and ub2 < 0:
                return q
        for q in (0, 1, 2, -1, -2, 3):
            lo = a - n.scale(q)
            if self.ge0(lo) and self.ge0(n - lo - 1):
                return q
        raise AnalysisError("cannot divide %r by %r" % (a, n))

    def table_has(self, table: dict, key) -> bool:
        """membership of a symbolic key in a table of constant keys: one decision per (table, key) and path"""
        k = ("table-has", repr(_table_term(table)), repr(key))
        if k not in self.path.termeq:
            self.path.termeq[k] = self.path.choose("table-has %r %r" % (_table_term(table), key))
        return self.path.termeq[k]

    def contains(self, container, item):
        if isinstance(container, AStruct) and container.kind == "class-namespace" and isinstance(item, str):
            ci_ = container.fields["cls"]
            return ("class-store", ci_.qualname, item) in self.path.termeq or item in ci_.attrs
        if isinstance(container, (list, tuple, str, dict, frozenset)) and isinstance(item, (str, int)):
            return item in container
        if isinstance(container, AList) and not container.generic and isinstance(item, (str, int)):
            return item in container.items
        if isinstance(container, AList) and not container.generic:
            if not container.items:
                self.path.effects.append(("contains", container, item, False))
                return False
            for x in container.items:
                if x is item or (isinstance(x, Term) and isinstance(item, Term) and x == item):
                    return True
            return ABoolTerm("in", item, container)
        if isinstance(container, ASeq):
            return ABoolTerm("in", item, ASeq(container.kind, self.canon(container.pieces), container.upper))
        if isinstance(container, AMap):
            item = self.key_of(item)
            for k, _ in container.adds:
                if isinstance(k, Term) and k == item:
                    return True
            for k in container.removes:
                if isinstance(k, Term) and k == item:
                    return False
            kk = repr(item)
            if kk not in container.known:
                container.known[kk] = self.path.choose("haskey %s %r" % (container.base, item))
                self.path.effects.append(("map-haskey", container.base, item))
            return container.known[kk]
        if isinstance(container, dict):
            for k in container:
                if k is item or (isinstance(k, Term) and k == item):
                    return True
            if isinstance(item, Term) and _const_keys(container):
                return self.table_has(container, item)
            return False
        if isinstance(container, (AListMap, ACollection, Term)):
            return ABoolTerm("in", item, container)
        if isinstance(container, list):
            for x in container:
                if x is item or (isinstance(x, Term) and x == item):
                    return True
            return ABoolTerm("in", item, container)
        if isinstance(container, ARec):
            # a literal test on the record's text (case-sensitive, one strand): a fact about the record like any other
            self.path.effects.append(("text-test", "in", item, container))
            return ABoolTerm("in", item, container)
        raise AnalysisError("cannot model %r in %r" % (item, container))

    # -- errors -------------------------------------------------------------

    def unsupported(self, node, what: str):
        loc = ""
        if node is not None and self.cur_module is not None:
            loc = "%s:%s: " % (self.cur_module.relpath, getattr(node, "lineno", "?"))
        seg = ""
        if node is not None and self.cur_module is not None:
            seg = (self.cur_module.segment(node) or "")[:90]
        raise AnalysisError("%sunsupported in abstract interpretation: %s %s" % (loc, what, seg))

    cur_module = None

    # -- calls into the repo ------------------------------------------------

    _decorator_cache: Dict[str, object] = {}

    def check_decorators(self, fi: FuncInfo):
        """Inlining the body of a decorated function is sound only when every
        decorator is a pass-through (see sa/decorators.py)."""
        from .decorators import StaticViolation, classify

        key = (id(self.p), fi.qualname)
        res = self._decorator_cache.get(key)
        if res is None:
            res = self._decorator_cache[key] = classify(self.p, fi)
        for kind, text, detail in res:
            if kind == "memo":
                raise StaticViolation("memo-decorator", fi.qualname, "@%s: %s" % (text, detail), fi.where())
            if kind == "raises":
                raise RaiseSig(AExc("TypeError", ["raised by the wrapper @%s" % text], {}))
            if kind == "opaque":
                raise AnalysisError("%s: decorator @%s of %s: %s" % (fi.where(), text, fi.qualname, detail))

    def dispatch_single(self, fi: FuncInfo, arg, node) -> FuncInfo:
        """the implementation functools.singledispatch picks for `arg`: the registered type closest to the argument's
        class (repo classes before library classes, subclasses before their bases), else the dispatcher's own body"""
        regs = []
        # implementations: functions -- and classes, whose constructor then is the implementation -- decorated with
        # @<dispatcher>.register(T)
        for g in list(fi.module.functions.values()) + list(fi.module.classes.values()):
            for d in g.node.decorator_list:
                if isinstance(d, ast.Call) and isinstance(d.func, ast.Attribute) and d.func.attr == "register" \
                        and isinstance(d.func.value, ast.Name) and d.func.value.id == fi.name and d.args:
                    t = Frame(self, None, {}, module=fi.module).expr(d.args[0])
                    regs.append((t, g))
        if not regs:
            raise AnalysisError("%s: singledispatch function %s has no registered implementation the analysis can see" % (fi.where(), fi.qualname))

        def rank(t):
            # more specific first: repo classes (deeper MRO first), then library classes; object last
            if isinstance(t, ClassInfo):
                return (0, -len(self.p.mro(t)))
            if isinstance(t, LibRef) and t.dotted in ("builtins.object",):
                return (9, 0)
            return (1, 0)

        fr = Frame(self, None, {}, module=fi.module)
        for t, g in sorted(regs, key=lambda tg: rank(tg[0])):
            if lib_isinstance(fr, arg, t, node):
                return g
        return fi

    def call_function(self, fi: FuncInfo, args: List[object], kwargs: Dict[str, object], node=None, on_yield=None):
        hook = self.hooks.get(fi.qualname)
        if hook is not None:
            r = hook(self, fi, args, kwargs)
            if r is not NotImplemented:
                return r
        if fi.node.decorator_list and self.hooks.get("apply_decorators") and not getattr(fi, "undecorated_twin", False):
            # (a kernel that judges what a wrapper of the code base does -- a memo around the pattern getter -- has the
            # wrapper built and run instead of classified by its shape: decorator(func)(*args))
            from .decorators import LIB_TRANSPARENT, DESCRIPTOR_NAMES, LIB_MEMO

            own = []
            foreign = []
            for d in fi.node.decorator_list:
                try:
                    b = self.p.resolve_expr(fi.module, d.func if isinstance(d, ast.Call) else d)
                except Exception:
                    b = None
                if isinstance(b, Ext):
                    # a library decorator is classified as everywhere else (check_decorators below: transparent, descriptor,
                    # a library memo -- whose body is then evaluated as if called afresh -- or unsupported)
                    if not (b.dotted in LIB_TRANSPARENT or b.dotted in LIB_MEMO or b.dotted.split(".")[-1] in DESCRIPTOR_NAMES):
                        foreign.append(b.dotted)
                    continue
                if isinstance(b, ClassInfo):
                    own = None  # a descriptor class: handled where attributes are read
                    break
                own.append(d)
            if own and foreign:
                raise AnalysisError("%s: wrapped by decorators of the code base and by %s, which has no model" % (fi.where(), ", ".join(foreign)))
            if own:
                inner = FuncInfo(fi.module, fi.node, fi.owner)
                inner.decorators = [x for x in fi.decorators if x in ("classmethod", "staticmethod")]
                inner.undecorated_twin = True
                callee = inner
                scratch = Frame(self, None, {}, module=fi.module)
                for d in reversed(own):
                    callee = scratch.call_value(scratch.expr(d), [callee], {}, d)
                return scratch.call_value(callee, list(args), dict(kwargs), node)
        if fi.node.decorator_list and not getattr(fi, "undecorated_twin", False):
            self.check_decorators(fi)
            if fi.owner is None and args and any(ast.unparse(d.func if isinstance(d, ast.Call) else d).endswith("singledispatch") for d in fi.node.decorator_list):
                impl = self.dispatch_single(fi, args[0], node)
                if isinstance(impl, ClassInfo):
                    return self.frames[-1].instantiate(impl, args, kwargs, node) if self.frames else Frame(self, None, {}, module=fi.module).instantiate(impl, args, kwargs, node)
                if impl is not fi:
                    return self.call_function(impl, args, kwargs, node, on_yield)
        is_gen = _is_generator(fi.node)
        if is_gen and on_yield is None and "contextmanager" in fi.decorators:
            return ACtxMgr(fi, list(args), dict(kwargs))
        if is_gen and on_yield is None and node is not None and node is getattr(self, "lazy_gen_node", None):
            self.lazy_gen_node = None
            return AGenCall(fi, list(args), dict(kwargs))
        if is_gen and on_yield is None and fi.qualname in self.hooks.get("lazy_gens", ()):
            # the generator holds the loop under inductive evaluation: it runs interleaved with whoever consumes it
            return AGenCall(fi, list(args), dict(kwargs))
        if self.depth >= MAX_INLINE_DEPTH:
            raise AnalysisError("inlining depth %d exceeded at %s" % (MAX_INLINE_DEPTH, fi.qualname))
        fn = fi.node
        env: Dict[str, object] = {}
        a = fn.args
        params = [x.arg for x in a.posonlyargs + a.args]
        defaults = [None] * (len(params) - len(a.defaults)) + list(a.defaults)
        pos = list(args)
        if len(pos) > len(params) and not a.vararg:
            raise AnalysisError("too many arguments calling %s" % fi.qualname)
        for i, pname in enumerate(params):
            if i < len(pos):
                env[pname] = pos[i]
            elif pname in kwargs:
                env[pname] = kwargs.pop(pname)
            elif defaults[i] is not None:
                env[pname] = ("default", defaults[i])
            else:
                raise AnalysisError("missing argument %s calling %s" % (pname, fi.qualname))
        if a.vararg:
            env[a.vararg.arg] = tuple(pos[len(params):])
        for kw, d in zip(a.kwonlyargs, a.kw_defaults):
            if kw.arg in kwargs:
                env[kw.arg] = kwargs.pop(kw.arg)
            elif d is not None:
                env[kw.arg] = ("default", d)
            else:
                raise AnalysisError("missing keyword %s calling %s" % (kw.arg, fi.qualname))
        if a.kwarg:
            env[a.kwarg.arg] = dict(kwargs)
            kwargs = {}
        if kwargs:
            raise AnalysisError("unexpected keyword(s) %s calling %s" % (sorted(kwargs), fi.qualname))
        frame = Frame(self, fi, env)
        yielded = AList([], self.loop_depth, origin="yield:%s" % fi.name)
        frame.on_yield = on_yield if on_yield is not None else (lambda v, _y=yielded: _gen_collect(self, _y, v))
        for k, v in list(env.items()):
            if isinstance(v, tuple) and len(v) == 2 and v[0] == "default":
                if fi.owner is not None and getattr(fi.owner, "module", None) is not None and not isinstance(v[1], ast.Constant):
                    # the default of a method's parameter was evaluated in the class body: names of that body are in scope
                    env[k] = Frame(self, None, ClassBodyEnv(self, fi.owner), module=fi.owner.module).expr(v[1])
                else:
                    env[k] = frame.expr(v[1])
        self.depth += 1
        self.call_stack.append(fi.qualname)
        self.frames.append(frame)
        saved = self.cur_module
        self.cur_module = fi.module
        try:
            try:
                frame.block(fn.body)
            except ReturnSig as r:
                return yielded if (is_gen and on_yield is None) else r.value
            return yielded if (is_gen and on_yield is None) else None
        finally:
            self.cur_module = saved
            self.depth -= 1
            self.frames.pop()
            self.call_stack.pop()

    def get_attr_of_obj(self, obj: AObj, name: str, node=None, after: Optional[ClassInfo] = None):
        self.path.effects.append(("getattr", obj.name, name))
        if after is None and name in obj.attrs:
            return obj.attrs[name]
        owner, raw = self.p.class_attr_def(obj.cls, name, after=after)
        if owner is None:
            if name == "__class__":
                return obj.cls
            if obj.attrs.get("__open__"):
                # state another method would have established: unknown here
                return Term("unknown-attr:%s" % name, Term(obj.name))
            raise NoSuchAttr("%s has no attribute %s" % (obj, name))
        if isinstance(raw, FuncInfo):
            if raw.kind == "property":
                key = "%s@%s" % (name, owner.qualname)
                if key in obj.attrs:
                    return obj.attrs[key]
                v = self.call_function(raw, [obj], {}, node)
                if "cached_property" in raw.decorators:
                    obj.attrs[key] = v
                return v
            if raw.kind == "classproperty":
                # (the kernels describe "an instance of some concrete subclass" by an object that carries the subclass's
                # class-level settings -- its cutter -- as attributes: that object stands for its class here)
                return self.call_function(raw, [obj if "cutter" in obj.attrs else obj.cls], {}, node)
            if raw.kind == "classmethod":
                return BoundMethod("repo", raw, name, extra=[obj.cls])
            if raw.kind == "staticmethod":
                return BoundMethod("repo", raw, name, extra=[])
            return BoundMethod("repo", raw, name, extra=[obj])
        if isinstance(raw, Const):
            return raw.value
        if isinstance(raw, ast.AST):
            if isinstance(raw, ast.Call) and isinstance(raw.func, ast.Name) and raw.func.id in ("staticmethod", "classmethod") \
                    and len(raw.args) == 1 and not raw.keywords and isinstance(raw.args[0], (ast.Name, ast.Attribute)):
                # `helper = staticmethod(module_function)` in a class body
                try:
                    wrapped = self.p.resolve_expr(owner.module, raw.args[0])
                except Exception:
                    wrapped = None
                if isinstance(wrapped, FuncInfo):
                    return BoundMethod("repo", wrapped, name, extra=[] if raw.func.id == "staticmethod" else [obj.cls])
            if isinstance(raw, (ast.Attribute, ast.Name)):
                # `hook = Base._method` / `hook = module_function` in a class body: a function is a descriptor wherever it
                # was defined -- looked up on an instance it is bound to that instance
                try:
                    alias = self.p.resolve_expr(owner.module, raw)
                except Exception:
                    alias = None
                if isinstance(alias, FuncInfo) and alias.kind in ("method", "function"):
                    return BoundMethod("repo", alias, name, extra=[obj])
                if isinstance(alias, FuncInfo) and alias.kind == "property":
                    return self.call_function(alias, [obj], {}, node)
            ok, v = _fold_class_data(self.p, owner, name)
            if ok:
                return v
            fr = Frame(self, None, ClassBodyEnv(self, owner), module=owner.module)
            return fr.expr(raw)
        raise AnalysisError("cannot evaluate %s.%s" % (obj, name))

    def merged_env(self) -> Dict[str, object]:
        """the variables of every active frame: the innermost frame's names as they are, outer frames' names prefixed
        with one ^ per level (a loop-carried state may be split between a generator and the loop that consumes it)"""
        out: Dict[str, object] = {}
        n = len(self.frames)
        for i, f in enumerate(self.frames):
            pre = "^" * (n - 1 - i)
            items = f.env.local_items() if isinstance(f.env, ChainEnv) else f.env.items()
            for k, v in items:
                out[pre + k] = v
        return out

    def entry_snapshot(self) -> Dict[str, object]:
        """merged_env() at the entry of the loop under inductive evaluation: objects of the code base are copied one level
        deep, so that the havoc that follows (which rewrites the state such objects carry) does not rewrite the record of
        what the state was when the loop was first reached"""
        out, copies = {}, {}
        for k, v in self.merged_env().items():
            if isinstance(v, AObj):
                if id(v) not in copies:
                    copies[id(v)] = AObj(v.cls, dict(v.attrs), name=v.name)
                    copies[id(v)].snapshot_of = v
                v = copies[id(v)]
            out[k] = v
        return out

    def new_term(self, prefix: str) -> Term:
        self.fresh += 1
        return Term("%s#%d" % (prefix, self.fresh))


# ---------------------------------------------------------------------------


class Frame(object):
    def __init__(self, interp: Interp, fi: Optional[FuncInfo], env: Dict[str, object], module=None):
        self.I = interp
        self.fi = fi
        self.env = env
        self.m = module or (fi.module if fi else None)

    def unsupported(self, node, what):
        saved = self.I.cur_module
        self.I.cur_module = self.m
        try:
            self.I.unsupported(node, what)
        finally:
            self.I.cur_module = saved

    # -- statements ---------------------------------------------------------

    def block(self, body: List[ast.stmt]):
        for st in body:
            self.stmt(st)

    def stmt(self, st: ast.stmt):
        I = self.I
        if isinstance(st, ast.Expr):
            if isinstance(st.value, ast.Constant):
                return
            self.expr(st.value)
            return
        if isinstance(st, ast.Return):
            raise ReturnSig(self.expr(st.value) if st.value is not None else None)
        if isinstance(st, ast.Assign):
            v = self.expr(st.value)
            for t in st.targets:
                self.assign(t, v)
            return
        if isinstance(st, ast.AnnAssign):
            if st.value is not None:
                self.assign(st.target, self.expr(st.value))
            return
        if isinstance(st, ast.AugAssign):
            cur = self.expr(_load(st.target))
            v = self.binop(st.op, cur, self.expr(st.value), st)
            self.assign(st.target, v)
            return
        if isinstance(st, ast.If):
            t = I.truth(self.expr(st.test), st.test)
            self.block(st.body if t else st.orelse)
            return
        if isinstance(st, ast.Raise):
            if st.exc is None:
                cur = self.env.get("__current_exception__")
                if cur is None:
                    self.unsupported(st, "bare raise outside handler")
                raise RaiseSig(cur)
            v = self.expr(st.exc)
            raise RaiseSig(self.as_exc(v, st))
        if isinstance(st, ast.Pass):
            return
        if isinstance(st, ast.For):
            return self.for_loop(st)
        if isinstance(st, ast.While):
            return self.while_loop(st)
        if isinstance(st, ast.Try):
            return self.try_stmt(st)
        if isinstance(st, ast.Match):
            return self.match_stmt(st)
        if isinstance(st, ast.FunctionDef):
            if st.decorator_list and not all(decorator_name(d) in ("wraps",) for d in st.decorator_list):
                self.unsupported(st, "decorated nested function")
            a = st.args
            params = [x.arg for x in a.posonlyargs + a.args]
            dvals = [self.expr(d) for d in a.defaults]
            defaults = dict(zip(params[len(params) - len(dvals):], dvals))
            for x, d in zip(a.kwonlyargs, a.kw_defaults):
                if d is not None:
                    defaults[x.arg] = self.expr(d)
            self.env[st.name] = ALambda(st, self, defaults)
            return
        if isinstance(st, ast.Continue):
            raise LoopContinue()
        if isinstance(st, ast.Break):
            raise LoopBreak()
        if isinstance(st, ast.Assert):
            return
        if isinstance(st, ast.Delete):
            for t in st.targets:
                if isinstance(t, ast.Subscript) and not isinstance(t.slice, ast.Slice):
                    obj = self.expr(t.value)
                    key = self.expr(t.slice)
                    if isinstance(obj, AMap):
                        key = I.key_of(key)
                        map_getitem(self, obj, key)  # KeyError when absent
                        obj.removes.append(key)
                        obj.adds = [(k, v) for k, v in obj.adds if not (isinstance(k, Term) and k == key)]
                        I.path.effects.append(("map-pop", obj.base, key))
                        continue
                    if isinstance(obj, dict) and _hashable(key) in obj:
                        del obj[_hashable(key)]
                        continue
                elif isinstance(t, ast.Name) and t.id in self.env:
                    del self.env[t.id]
                    continue
                self.unsupported(st, "del target")
            return
        if isinstance(st, ast.With):
            return self.with_stmt(st, 0)
        self.unsupported(st, "statement")

    def match_stmt(self, st: ast.Match):
        """match/case: the first case whose pattern matches the subject (and whose guard holds) runs"""
        I = self.I
        subject = self.expr(st.subject)
        for case in st.cases:
            binds: Dict[str, object] = {}
            if self.pattern_matches(case.pattern, subject, binds, st):
                saved = dict(self.env)
                self.env.update(binds)
                if case.guard is not None and not I.truth(self.expr(case.guard), case.guard):
                    self.env = saved
                    continue
                return self.block(case.body)
        return None

    def pattern_matches(self, pat, v, binds, node) -> bool:
        I = self.I
        if isinstance(pat, ast.MatchAs):
            if pat.pattern is not None and not self.pattern_matches(pat.pattern, v, binds, node):
                return False
            if pat.name is not None:
                binds[pat.name] = v
            return True
        if isinstance(pat, ast.MatchOr):
            for alt in pat.patterns:
                b2 = {}
                if self.pattern_matches(alt, v, b2, node):
                    binds.update(b2)
                    return True
            return False
        if isinstance(pat, ast.MatchSingleton):
            return I.identical(v, pat.value) if hasattr(I, "identical") else (v is pat.value)
        if isinstance(pat, ast.MatchValue):
            want = self.expr(pat.value)
            r = I.cmp(ast.Eq(), v, want, node)
            return I.truth(r, node)
        if isinstance(pat, ast.MatchClass):
            cls = self.expr(pat.cls)
            if not lib_isinstance(self, v, cls, node):
                return False
            if pat.patterns:
                self.unsupported(node, "positional sub-patterns of a class pattern")
            for name, sub in zip(pat.kwd_attrs, pat.kwd_patterns):
                if not self.pattern_matches(sub, self.getattr(v, name, node), binds, node):
                    return False
            return True
        if isinstance(pat, ast.MatchSequence):
            seq = v
            if isinstance(seq, AList) and not seq.generic:
                seq = list(seq.items)
            if isinstance(seq, AList) and seq.generic:
                # a list of symbolic length: only the shapes "exactly k items" (k fixed sub-patterns) and "anything" are decided
                stars = [p_ for p_ in pat.patterns if isinstance(p_, ast.MatchStar)]
                if not stars:
                    k = len(pat.patterns)
                    n = Aff.sym("len:list@%s" % seq.uid)
                    I.path.cons.add(n - seq.min_len)
                    if not (I.ge0(n - k) and I.ge0(Aff.const(k) - n)):
                        return False
                    if k == 0:
                        return True
                    reps = seq.items[seq.generic_from:] or seq.items
                    if k == 1 and len(reps) == 1:
                        return self.pattern_matches(pat.patterns[0], reps[0], binds, node)
                self.unsupported(node, "sequence pattern over a list of symbolic length")
            if isinstance(seq, (str, dict)) or not isinstance(seq, (list, tuple)):
                if isinstance(seq, (Term, ARec, ASeq, AObj, AStruct, Aff, int, type(None), bool)):
                    return False
                self.unsupported(node, "sequence pattern over %r" % (seq,))
            pats = list(pat.patterns)
            star = [i for i, p_ in enumerate(pats) if isinstance(p_, ast.MatchStar)]
            if not star:
                if len(seq) != len(pats):
                    return False
                return all(self.pattern_matches(p_, x, binds, node) for p_, x in zip(pats, seq))
            i = star[0]
            if len(seq) < len(pats) - 1:
                return False
            head, tail = pats[:i], pats[i + 1:]
            if not all(self.pattern_matches(p_, x, binds, node) for p_, x in zip(head, seq[:len(head)])):
                return False
            if tail and not all(self.pattern_matches(p_, x, binds, node) for p_, x in zip(tail, seq[len(seq) - len(tail):])):
                return False
            if pats[i].name is not None:
                binds[pats[i].name] = AList(list(seq[len(head):len(seq) - len(tail)]), I.loop_depth)
            return True
        if isinstance(pat, ast.MatchMapping):
            if not isinstance(v, dict):
                return False
            for kexp, sub in zip(pat.keys, pat.patterns):
                key = _hashable(self.expr(kexp))
                if key not in v or not self.pattern_matches(sub, v[key], binds, node):
                    return False
            if pat.rest is not None:
                binds[pat.rest] = {k_: x for k_, x in v.items() if k_ not in [_hashable(self.expr(ke)) for ke in pat.keys]}
            return True
        self.unsupported(node, "pattern %s" % type(pat).__name__)

    def with_stmt(self, st: ast.With, k: int):
        """`with a as x, b as y: body` -- library context managers are opaque
        values bound to their target; a repo function decorated with
        contextlib.contextmanager is run around the body (its code up to the
        yield, the body, then the rest, exceptions of the body arriving at the
        yield)."""
        I = self.I
        if k == len(st.items):
            return self.block(st.body)
        item = st.items[k]
        ctx = self.expr(item.context_expr)
        if isinstance(ctx, ACtxMgr):
            pending = []

            def on_yield(value):
                if item.optional_vars is not None:
                    self.assign(item.optional_vars, value)
                try:
                    self.with_stmt(st, k + 1)
                except (ReturnSig, LoopContinue, LoopBreak, StepDone) as sig:
                    pending.append(sig)  # leaves the with block: the manager's exit code still runs
                return None

            I.call_function(ctx.fi, ctx.args, ctx.kwargs, st, on_yield=on_yield)
            if pending:
                raise pending[0]
            return
        if isinstance(ctx, AStruct) and ctx.kind == "suppress":
            try:
                return self.with_stmt(st, k + 1)
            except RaiseSig as rs:
                if any(self.exc_isinstance(rs.exc, t) for t in ctx.fields["classes"]):
                    return None
                raise
        if isinstance(ctx, AExitStack):
            if item.optional_vars is not None:
                self.assign(item.optional_vars, ctx)
            try:
                return self.with_stmt(st, k + 1)
            finally:
                self.run_exit_callbacks(ctx, st)
        if isinstance(ctx, AObj):
            # an instance of a repo class used as a context manager: __enter__ / body / __exit__ on every way out
            enter = I.p.class_attr_def(ctx.cls, "__enter__")[1]
            leave = I.p.class_attr_def(ctx.cls, "__exit__")[1]
            if not (isinstance(enter, FuncInfo) and isinstance(leave, FuncInfo)):
                self.unsupported(st, "with on an object whose class defines no __enter__/__exit__")
            v = I.call_function(enter, [ctx], {}, st)
            if item.optional_vars is not None:
                self.assign(item.optional_vars, v)
            try:
                self.with_stmt(st, k + 1)
            except RaiseSig as rs:
                r = I.call_function(leave, [ctx, Term("type", _t(rs.exc)), rs.exc, Term("traceback")], {}, st)
                if r is not None and r is not False and I.truth(r, st):
                    return None  # the manager swallows the exception
                raise
            except (ReturnSig, LoopContinue, LoopBreak, StepDone):
                I.call_function(leave, [ctx, None, None, None], {}, st)
                raise
            I.call_function(leave, [ctx, None, None, None], {}, st)
            return None
        if item.optional_vars is not None:
            self.assign(item.optional_vars, ctx if ctx is not None else Term("context", Term("L%d" % st.lineno)))
        return self.with_stmt(st, k + 1)

    def run_exit_callbacks(self, stack: "AExitStack", node):
        I = self.I
        I.path.effects.append(("exit-stack", len(stack.callbacks)))
        while stack.callbacks:
            fn, args, kwargs, depth = stack.callbacks.pop()
            self.call_value(fn, args, kwargs, node)
        return None

    def e_Yield(self, e):
        v = self.expr(e.value) if e.value is not None else None
        cb = getattr(self, "on_yield", None)
        if cb is None:
            self.unsupported(e, "yield outside a generator frame")
        return cb(v)

    def e_YieldFrom(self, e):
        v = self.expr(e.value)
        cb = getattr(self, "on_yield", None)
        if cb is None:
            self.unsupported(e, "yield from outside a generator frame")
        if isinstance(v, AList):
            for x in v.items:
                r = cb(x)
            if v.generic:
                # mark what was collected as generic
                self.I.path.effects.append(("yield-generic", v))
            return None
        if isinstance(v, (list, tuple)):
            for x in v:
                cb(x)
            return None
        if isinstance(v, Term):
            return cb(Term("each", v))
        self.unsupported(e, "yield from %r" % (v,))

    def as_exc(self, v, node) -> AExc:
        if isinstance(v, AExc):
            return v
        if isinstance(v, ClassInfo):
            return AExc(v, [], {})
        if isinstance(v, LibRef):
            return AExc(v.dotted.split(".")[-1], [], {})
        self.unsupported(node, "raise of %r" % (v,))

    def assign(self, target, v):
        if isinstance(target, ast.Name):
            self.env[target.id] = v
            return
        if isinstance(target, (ast.Tuple, ast.List)):
            if isinstance(v, (tuple, list)) and len(v) == len(target.elts):
                for t, x in zip(target.elts, v):
                    self.assign(t, x)
                return
            if isinstance(v, AList) and not v.generic and len(v.items) == len(target.elts) and not any(isinstance(t, ast.Starred) for t in target.elts):
                for t, x in zip(target.elts, v.items):
                    self.assign(t, x)
                return
            if isinstance(v, Term) and not any(isinstance(t, ast.Starred) for t in target.elts):
                # an opaque pair/tuple: its components are opaque too
                for i, t in enumerate(target.elts):
                    self.assign(t, Term("item%d" % i, v))
                return
            if isinstance(v, AList) and v.generic and v.generic_from == 0 and len(v.items) == 1 and v.uid != "anon" \
                    and not any(isinstance(t, ast.Starred) for t in target.elts):
                # (a, b) = xs for a collection of unknown size whose every element is described by one representative: the
                # sizes must agree (ValueError otherwise), and then each name is some element
                k = len(target.elts)
                n_ = Aff.sym("len:list@%s" % v.uid)
                self.I.path.cons.add(n_)
                if self.I.ge0(n_ - k) and self.I.ge0(Aff.const(k) - n_):
                    for t in target.elts:
                        self.assign(t, v.items[0])
                    return
                raise RaiseSig(AExc("ValueError", ["not enough / too many values to unpack (expected %d)" % k], {}))
            self.unsupported(target, "unpacking of %r" % (v,))
        if isinstance(target, ast.Attribute):
            obj = self.expr(target.value)
            if isinstance(obj, AObj):
                raw_ = self.I.p.class_attr_def(obj.cls, target.attr)[1] if isinstance(obj.cls, ClassInfo) else None
                if isinstance(raw_, FuncInfo) and raw_.kind == "property" and ("property" in raw_.decorators):
                    setter = getattr(raw_, "setter", None)
                    if setter is None:
                        raise RaiseSig(AExc("AttributeError", ["property '%s' of '%s' object has no setter" % (target.attr, obj.cls.name)], {}))
                    self.I.call_function(setter, [obj, v], {}, target)  # obj.x = v runs the property's setter
                    return
                obj.attrs[target.attr] = v
                self.I.path.effects.append(("setattr", obj, target.attr, v))
                return
            if isinstance(obj, ARec):
                obj.attrs[target.attr] = v
                self.I.path.effects.append(("setattr", obj, target.attr, v))
                return
            if isinstance(obj, ALambda):
                obj.__dict__.setdefault("fn_attrs", {})[target.attr] = v  # an attribute hung on a function object
                return
            if isinstance(obj, (Term, AStruct)):
                self.I.path.effects.append(("setattr", obj, target.attr, v))
                if isinstance(obj, AStruct):
                    obj.fields[target.attr] = v
                return
            if isinstance(obj, ClassInfo):
                # class-level state (judged by the persistent-state rule of C06): later reads on this path see it, on the
                # class itself and -- through the MRO -- on its subclasses
                self.I.path.effects.append(("class-store", obj.qualname, target.attr, v))
                self.I.path.termeq[("class-store", obj.qualname, target.attr)] = v
                return
            self.unsupported(target, "attribute store on %r" % (obj,))
        if isinstance(target, ast.Subscript):
            obj = self.expr(target.value)
            key = self.expr(target.slice) if not isinstance(target.slice, ast.Slice) else None
            if isinstance(obj, (dict, AMap)) and key is not None:
                key = self.I.key_of(key)
            if isinstance(obj, dict) and key is not None:
                obj[_hashable(key)] = v
                self.I.path.effects.append(("setitem", obj, key, v))
                return
            if isinstance(obj, Term):
                self.I.path.effects.append(("setitem", obj, key, v))
                return
            if isinstance(obj, AMap):
                self.I.path.effects.append(("map-store", obj.base, key, v, obj.known.get(repr(key))))
                obj.adds.append((key, v))
                return
            self.unsupported(target, "subscript store on %r" % (obj,))
        self.unsupported(target, "assignment target")

    def for_loop(self, st: ast.For):
        I = self.I
        if isinstance(st.iter, ast.Call):
            I.lazy_gen_node = st.iter
        try:
            it = self.expr(st.iter)
        finally:
            I.lazy_gen_node = None
        if isinstance(it, ClassInfo) and I.p.enum_info(it) is not None:
            seen_, items_ = set(), []
            for nm_, mem_ in enum_members(I.p, it):  # aliases are skipped
                if id(mem_) not in seen_:
                    seen_.add(id(mem_))
                    items_.append(mem_)
            it = AList(items_, I.loop_depth)
        hook = I.hooks.get("iterate")
        if hook is not None and isinstance(it, AStruct):
            r_ = hook(self, it, st.iter)  # a library object a kernel knows how to walk (an open archive, a listing)
            if r_ is not NotImplemented:
                it = r_
        if st is I.step_loop and isinstance(it, ARange) and not it.desc:
            # the loop under inductive evaluation is bounded by a number of rounds: an arbitrary round j (0 <= j, with
            # whatever the kernel knows about j) either exists (j < bound) and runs like the body of a while loop, or the
            # rounds are used up
            I.path.effects.append(("loop-entry", I.entry_snapshot()))
            hav = I.hooks.get("havoc")
            if hav is None:
                self.unsupported(st, "no havoc hook for the loop")
            hav(self)
            j = Aff.sym("rounds@L%d" % st.lineno)
            I.path.cons.add(j)
            inv = I.hooks.get("for_invariant")
            if inv is not None:
                inv(self, st, it, j)
            more = I.ge0(it.hi - it.lo - j - 1)
            I.path.choices.append(("loop-cond", more))
            if more:
                self.assign(st.target, it.lo + j)
                try:
                    self.block(st.body)
                except LoopContinue:
                    pass
                except LoopBreak:
                    I.path.choices.append(("loop-break", True))
                    return
                raise StepDone(I.merged_env())
            I.path.choices.append(("loop-exhausted", True))
            self.block(st.orelse)
            return
        if isinstance(it, Term) and it.op == "items" and it.args and isinstance(it.args[0], AMapGen) and not st.orelse:
            # every entry of a uniform table (the per-letter tracks) visited once; a dict that was empty before the loop
            # and receives exactly `d[key] = image(value)` in the body is the uniform table of the images afterwards
            src = it.args[0]
            k, v = Term("key:" + src.name), src.value
            fresh = [(nm, d) for nm, d in self.env.items() if isinstance(d, dict) and not d]
            I.path.effects.append(("loop", "items-of:" + src.name, k))
            self.assign(st.target, (k, v))
            I.loop_depth += 1
            try:
                self.block(st.body)
            except LoopContinue:
                pass
            except LoopBreak:
                self.unsupported(st, "break in a loop over the entries of a uniform table")
            finally:
                I.loop_depth -= 1
            for nm, d in fresh:
                if not d:
                    continue
                if list(d.keys()) != [k]:
                    self.unsupported(st, "a table filled under other keys than those of the table walked")
                self.env[nm] = AMapGen(src.name, d[k])
            return
        if isinstance(it, AFragList) and getattr(it, "opaque", False):
            self.unsupported(st, "iteration over a list of objects whose content is not tracked")
        if isinstance(it, AFragList):
            # the fragments are known through their concatenation: a loop that only adds each one to an accumulator
            # (`acc += fragment`) adds that concatenation
            body = [b for b in st.body if not (isinstance(b, ast.Expr) and isinstance(b.value, ast.Constant))]
            if len(body) == 1 and isinstance(body[0], ast.AugAssign) and isinstance(body[0].op, ast.Add) and isinstance(st.target, ast.Name) \
                    and isinstance(body[0].value, ast.Name) and body[0].value.id == st.target.id and not st.orelse:
                self.assign(st.target, it.rec)
                self.block(st.body)
                return
            self.unsupported(st, "the list of fragments is walked for something other than an additive fold")
        if isinstance(it, AGenCall):
            broke = []
            me = object()

            def on_yield(value):
                self.assign(st.target, value)
                try:
                    self.block(st.body)
                except LoopContinue:
                    pass
                except LoopBreak:
                    broke.append(True)
                    I.path.effects.append(("break", "generator:%s" % getattr(it.fi, "name", "?")))
                    raise ConsumerSignal(None, me)
                except (RaiseSig, ReturnSig) as sig:
                    if isinstance(sig, ReturnSig):
                        # the consumer leaves while the generator still has elements to give: they are not visited
                        I.path.effects.append(("return-in-loop", "generator:%s" % getattr(it.fi, "name", "?")))
                    raise ConsumerSignal(sig, me)
                return None

            try:
                self.drive_generator(it, on_yield, st)
            except ConsumerSignal as cs:
                if cs.owner is not me:
                    raise  # raised by the body of an outer loop that consumes the generator this loop runs in
                if cs.sig is not None:
                    raise cs.sig
                return
            self.block(st.orelse)
            return
        if isinstance(it, AIter):
            if it.consumed:
                I.path.effects.append(("exhausted-iterator", it.what, getattr(it.source, "name", repr(it.source))))
                self.block(st.orelse)
                return
            it.consumed = True
            it = it.source
        if isinstance(it, AFeatList):
            coll = it.rec.attrs.get("feature_coll")
            if coll is None:
                self.unsupported(st.iter, "iteration over the features of %r" % (it.rec,))
            it = coll
        if isinstance(it, AList) and getattr(it, "_one_shot", None):
            if getattr(it, "_consumed", False):
                I.path.effects.append(("exhausted-iterator", it._one_shot, getattr(it, "source", None) or repr(it)[:60]))
                self.block(st.orelse)
                return
            it._consumed = True
        if isinstance(it, AList) and it.generic:
            # a view of an input collection (or what a generator yielded once per element of one) walked element by
            # element: a dict the body fills holds, after an unknown number of earlier rounds, unknown entries
            used = {n.id for b in st.body for n in ast.walk(b) if isinstance(n, ast.Name)}
            for nm, v in list(self.env.items()):
                if isinstance(v, dict) and not v and nm in used:
                    self.env[nm] = AMap("map:" + nm, make_value=I.hooks.get("map_value"))
                    self._rebind_methods(v, self.env[nm])
            if getattr(it, "source", None):
                I.path.effects.append(("loop", it.source, it.items[0] if it.items else None))
            else:
                I.path.effects.append(("loop", "generic-list", it))
            I.loop_depth += 1
            try:
                for x in list(it.items):
                    self.assign(st.target, x)
                    try:
                        self.block(st.body)
                    except LoopContinue:
                        pass
                    except LoopBreak:
                        self.unsupported(st, "break in a generic loop")
                    except ReturnSig:
                        # left from inside the walk: the elements after this one are not visited
                        I.path.effects.append(("return-in-loop", getattr(it, "source", None) or "generic-list"))
                        raise
            finally:
                I.loop_depth -= 1
            if st.orelse:
                self.block(st.orelse)
            return
        if isinstance(it, AList):
            items = list(it.items)
        elif isinstance(it, AScan):
            # the hits of a scan (one representative per way of hitting): the body runs for each
            items = list(it.items)
        elif isinstance(it, (list, tuple, str)):
            items = list(it)
        elif isinstance(it, dict):
            items = list(it.keys())
        elif isinstance(it, ARange):
            # one generic iteration
            I.path.effects.append(("loop", "range-desc" if it.desc else "range", it.lo, it.hi))
            if not I.ge0(Aff.of(it.hi) - Aff.of(it.lo) - 1):
                self.block(st.orelse)
                return
            i = Aff.sym("i")
            I.path.cons.add(i - Aff.of(it.lo))
            I.path.cons.add(Aff.of(it.hi) - i - 1)
            items = [i]
            if st.orelse:
                self.unsupported(st, "for/else over a range")
            self.assign(st.target, i)
            I.loop_depth += 1
            try:
                self.block(st.body)
            except LoopContinue:
                pass
            except LoopBreak:
                self.unsupported(st, "break in a generic loop")
            finally:
                I.loop_depth -= 1
            return
        elif isinstance(it, ACollection):
            used = {n.id for b in st.body for n in ast.walk(b) if isinstance(n, ast.Name)}
            # (a bound method of such a dict taken before the loop -- claim = modmap.setdefault -- counts as a use)
            for nm, v in list(self.env.items()):
                if isinstance(v, BoundMethod) and v.kind == "dict" and isinstance(v.target, dict) and not v.target and nm in used:
                    for nm2, v2 in self.env.items():
                        if v2 is v.target:
                            used.add(nm2)
            for nm, v in list(self.env.items()):
                if isinstance(v, dict) and not v and nm in used:
                    # a dict filled by the loop: after an unknown number of earlier iterations its content is unknown
                    self.env[nm] = AMap("map:" + nm, make_value=I.hooks.get("map_value"))
                    self._rebind_methods(v, self.env[nm])
                elif isinstance(v, AObj) and nm in used and isinstance(v.cls, ClassInfo):
                    # ... or the dict a small object of the code base keeps for the loop (index.add(module))
                    for an, av in list(v.attrs.items()):
                        if isinstance(av, dict) and not av:
                            v.attrs[an] = AMap("map:%s.%s" % (nm, an), make_value=I.hooks.get("map_value"))
            elem = it.make_elem()
            I.path.effects.append(("loop", it.name, elem))
            self.assign(st.target, elem)
            counters = {nm: v for nm, v in self.env.items() if isinstance(v, (int, Aff)) and not isinstance(v, bool)}
            I.loop_depth += 1
            try:
                self.block(st.body)
            except LoopContinue:
                pass
            except LoopBreak:
                I.path.effects.append(("break", it.name))
                I.loop_depth -= 1
                return
            except ReturnSig:
                # the function is left from inside the walk over the collection: the elements after this one are not visited
                I.path.effects.append(("return-in-loop", it.name))
                I.loop_depth -= 1
                raise
            except BaseException:
                I.loop_depth -= 1
                raise
            I.loop_depth -= 1
            self._scale_counters(st, counters, it.name)
            if st is I.step_loop:
                raise StepDone(dict(self.env))
            # the loop ran to its end: what the target names now is the last element, which the representative of
            # "each element" must not be confused with (closures created in the body read the variable late)
            for x in ast.walk(st.target):
                if isinstance(x, ast.Name):
                    self.env[x.id] = Term("last-element", Term(it.name))
            return
        elif isinstance(it, AMap):
            key = I.new_term("key")
            it.adds.append((key, it.value_for(key)))
            I.path.effects.append(("loop", "keys:" + it.base, key))
            self.assign(st.target, key)
            try:
                self.block(st.body)
            except LoopContinue:
                pass
            except ReturnSig:
                I.path.effects.append(("return-in-loop", "keys:" + it.base))
                raise
            if st is I.step_loop:
                raise StepDone(dict(self.env))
            return
        elif isinstance(it, AMapView):
            key = I.new_term("key")
            val = it.m.value_for(key)
            it.m.adds.append((key, val))
            elem = {"items": (key, val), "keys": key, "values": val}[it.which]
            I.path.effects.append(("loop", "%s:%s" % (it.which, it.m.base), key))
            self.assign(st.target, elem)
            I.loop_depth += 1
            try:
                self.block(st.body)
            except LoopContinue:
                pass
            except ReturnSig:
                I.path.effects.append(("return-in-loop", "%s:%s" % (it.which, it.m.base)))
                raise
            finally:
                I.loop_depth -= 1
            return
        elif isinstance(it, Term):
            elem = Term("elem-of", it)
            I.path.effects.append(("loop", "term:" + repr(it)[:80], elem))
            self.assign(st.target, elem)
            I.loop_depth += 1
            try:
                self.block(st.body)
            except LoopContinue:
                pass
            except LoopBreak:
                I.path.effects.append(("break", repr(it)[:80]))
            finally:
                I.loop_depth -= 1
            return
        else:
            self.unsupported(st.iter, "iteration over %r" % (it,))
        for x in items:
            self.assign(st.target, x)
            try:
                self.block(st.body)
            except LoopContinue:
                continue
            except LoopBreak:
                return
        self.block(st.orelse)

    def _scale_counters(self, st: ast.For, before: Dict[str, object], coll: str):
        """count = 0; for _ in xs: count += 1 -- the one generic round stands for every element: a number the body moved
        by a constant moved by that constant once per element (per element passing the test, when the increment sits
        under a condition)"""
        I = self.I
        for nm, old in before.items():
            new = self.env.get(nm)
            if not isinstance(new, (int, Aff)) or isinstance(new, bool):
                continue
            d = Aff.of(new) - Aff.of(old)
            if not d.is_const or d.c == 0:
                continue
            top = [s for s in st.body if isinstance(s, ast.AugAssign) and isinstance(s.target, ast.Name) and s.target.id == nm]
            anywhere = [s for s in ast.walk(st) if isinstance(s, (ast.AugAssign, ast.Assign)) and any(
                isinstance(x, ast.Name) and x.id == nm for t in (s.targets if isinstance(s, ast.Assign) else [s.target]) for x in ast.walk(t))]
            sym = Aff.sym(("count(%s)" if len(top) == len(anywhere) else "count-filtered(%s)") % coll)
            I.path.cons.add(sym)
            self.env[nm] = Aff.of(old) + sym.scale(d.c)

    def _rebind_methods(self, old, new):
        """bound methods of a dict taken before it became a symbolic map follow it"""
        for nm, v in list(self.env.items()):
            if isinstance(v, BoundMethod) and v.kind == "dict" and v.target is old:
                self.env[nm] = BoundMethod("map", new, v.name)

    def drive_generator(self, it: "AGenCall", on_yield, node):
        """run the body of a lazy generator, handing every value it yields to ``on_yield`` (the consumer's step) at the
        point of the yield"""
        I = self.I
        if it.closure_frame is not None:
            it.closure_frame.on_yield = on_yield
            I.frames.append(it.closure_frame)
            try:
                it.closure_frame.block(it.fi.node.body)
            except ReturnSig:
                pass
            finally:
                I.frames.pop()
        else:
            I.call_function(it.fi, it.args, it.kwargs, node, on_yield=on_yield)

    def fold_generator(self, it: "AGenCall", step, init, node):
        """sum(gen, init) / functools.reduce(f, gen, init): the accumulator is a variable of this frame (named <acc>) so
        that an inductive evaluation of the generator's loop sees it as loop-carried state"""
        saved = self.env.get("<acc>", _MISSING)
        self.env["<acc>"] = init

        me = object()

        def on_yield(value):
            try:
                self.env["<acc>"] = step(self.env["<acc>"], value)
            except (RaiseSig, ReturnSig) as sig:
                raise ConsumerSignal(sig, me)
            return None

        try:
            try:
                self.drive_generator(it, on_yield, node)
            except ConsumerSignal as cs:
                if cs.owner is not me:
                    raise
                if cs.sig is not None:
                    raise cs.sig
            return self.env["<acc>"]
        finally:
            if saved is _MISSING:
                self.env.pop("<acc>", None)
            else:
                self.env["<acc>"] = saved

    def while_loop(self, st: ast.While):
        I = self.I
        if st is not I.step_loop:
            self.unsupported(st, "while loop (not designated for inductive evaluation)")
        # record the state at loop entry, then havoc the loop-carried variables
        I.path.effects.append(("loop-entry", I.entry_snapshot()))
        hav = I.hooks.get("havoc")
        if hav is None:
            self.unsupported(st, "no havoc hook for the loop")
        hav(self)
        cond = I.truth(self.expr(st.test), st.test)
        I.path.choices.append(("loop-cond", cond))
        if cond:
            try:
                self.block(st.body)
            except LoopContinue:
                pass
            except LoopBreak:
                # the loop is left from inside its body: the walk has ended
                I.path.choices.append(("loop-break", True))
                return
            raise StepDone(I.merged_env())
        self.block(st.orelse)

    def try_stmt(self, st: ast.Try):
        I = self.I
        try:
            try:
                self.block(st.body)
            except RaiseSig as rs:
                handler = self.find_handler(st, rs.exc)
                if handler is None:
                    raise
                if handler.name:
                    self.env[handler.name] = rs.exc
                saved = self.env.get("__current_exception__")
                self.env["__current_exception__"] = rs.exc
                try:
                    self.block(handler.body)
                finally:
                    self.env["__current_exception__"] = saved
            else:
                self.block(st.orelse)
        finally:
            if st.finalbody:
                I.path.effects.append(("finally", st.lineno))
                self.block(st.finalbody)

    def find_handler(self, st: ast.Try, exc: AExc):
        for h in st.handlers:
            if h.type is None:
                return h
            types = h.type.elts if isinstance(h.type, ast.Tuple) else [h.type]
            for t in types:
                tv = self.expr(t)
                if self.exc_isinstance(exc, tv):
                    return h
        return None

    def exc_isinstance(self, exc: AExc, tv) -> bool:
        if isinstance(tv, ClassInfo):
            return isinstance(exc.cls, ClassInfo) and self.I.p.is_subclass(exc.cls, tv)
        if isinstance(tv, LibRef):
            name = tv.dotted.split(".")[-1]
            import builtins

            target = getattr(builtins, name, None)
            if isinstance(exc.cls, ClassInfo):
                for c in self.I.p.mro(exc.cls):
                    if isinstance(c, Ext):
                        b = getattr(builtins, c.dotted.split(".")[-1], None)
                        if isinstance(b, type) and isinstance(target, type) and issubclass(b, target):
                            return True
                return False
            b = getattr(builtins, str(exc.cls), None)
            if not isinstance(b, type):
                b = _lib_class(str(exc.cls))  # an exception of a library the code base uses (fs.errors.FileExpected)
            if not isinstance(target, type):
                target = _lib_class(tv.dotted)
            if not isinstance(b, type):
                # an exception class the model does not know: it is some Exception
                return target in (Exception, BaseException)
            return isinstance(target, type) and issubclass(b, target)
        return False

    # -- expressions --------------------------------------------------------

    def expr(self, e: ast.expr):
        meth = getattr(self, "e_" + type(e).__name__, None)
        if meth is None:
            self.unsupported(e, "expression")
        return meth(e)

    def e_Constant(self, e):
        return e.value

    def _elts(self, elts):
        out = []
        for x in elts:
            if isinstance(x, ast.Starred):
                v = self.expr(x.value)
                if isinstance(v, AList) and not v.generic:
                    out.extend(v.items)
                elif isinstance(v, (list, tuple)):
                    out.extend(v)
                else:
                    self.unsupported(x, "unpacking of %r into a sequence display" % (v,))
            else:
                out.append(self.expr(x))
        return out

    def e_Tuple(self, e):
        gen = [i for i, x in enumerate(e.elts) if isinstance(x, ast.Starred)]
        if len(gen) == 1:
            v = self.expr(e.elts[gen[0]].value)
            if isinstance(v, AList) and v.generic and not e.elts[gen[0] + 1:]:
                # (once, *generic): kept as the sequence it is (such tuples are joined / iterated, never indexed from the end)
                head = self._elts(e.elts[:gen[0]])
                out = AList(head + list(v.items), self.I.loop_depth, origin="T%d" % e.lineno)
                out.generic, out.min_len, out.generic_from = True, v.min_len, len(head) + v.generic_from
                if getattr(v, "_one_shot", None):
                    v._consumed = True
                return out
        return tuple(self._elts(e.elts))

    def e_List(self, e):
        # [once, *generic]: the display keeps which items are repeated
        gen = [i for i, x in enumerate(e.elts) if isinstance(x, ast.Starred)]
        if len(gen) == 1:
            v = self.expr(e.elts[gen[0]].value)
            if isinstance(v, AList) and v.generic:
                head = self._elts(e.elts[:gen[0]])
                tail = self._elts(e.elts[gen[0] + 1:])
                if not tail:
                    out = AList(head + list(v.items), self.I.loop_depth, origin="L%d" % e.lineno)
                    out.generic, out.min_len, out.generic_from = True, v.min_len, len(head) + v.generic_from
                    return out
        return AList(self._elts(e.elts), self.I.loop_depth, origin="L%d" % e.lineno)

    def e_Dict(self, e):
        d = {}
        for k, v in zip(e.keys, e.values):
            if k is None:
                self.unsupported(e, "dict unpacking")
            d[_hashable(self.expr(k))] = self.expr(v)
        return d

    def e_JoinedStr(self, e):
        # an f-string is the format string it spells, applied to its expressions
        fmt, args = "", []
        for v in e.values:
            if isinstance(v, ast.FormattedValue):
                spec = ""
                if v.format_spec is not None:
                    if not all(isinstance(x, ast.Constant) for x in v.format_spec.values):
                        self.unsupported(e, "computed format spec")
                    spec = ":" + "".join(x.value for x in v.format_spec.values)
                conv = {-1: "", 115: "!s", 114: "!r", 97: "!a"}.get(v.conversion, "")
                fmt += "{" + conv + spec + "}"
                args.append(self.expr(v.value))
            else:
                fmt += str(v.value).replace("{", "{{").replace("}", "}}")
        if all(isinstance(a, (str, int)) and not isinstance(a, bool) for a in args):
            return fmt.format(*args)
        if len(args) == 1 and isinstance(args[0], AJoin) and fmt.endswith("{}") and "{" not in fmt[:-2] and "}" not in fmt[:-2]:
            # f"prefix{''.join(items)}" is "prefix" + "".join(items)
            return self.concat(fmt[:-2], args[0], e) if fmt[:-2] else args[0]
        if any(isinstance(a, Aff) for a in args):
            return AFormat(fmt, list(args), {})
        return Term("format", Term(repr(fmt)), *[_t(a) for a in args])

    def e_Name(self, e):
        if e.id in self.env:
            return self.env[e.id]
        if e.id == "NotImplemented":
            return NotImplemented
        if self.m is not None:
            r = self.I.p.lookup(self.m.name, e.id)
            if r is not None:
                return self.from_binding(r, e)
        import builtins

        if hasattr(builtins, e.id):
            return LibRef("builtins." + e.id)
        self.unsupported(e, "unbound name")

    def from_binding(self, r, node):
        if isinstance(r, (ClassInfo, ModRef, FuncInfo)):
            return r
        if isinstance(r, Ext):
            from .loader import library_constant

            ok_, v_ = library_constant(r.dotted)
            if ok_:
                return v_
            return LibRef(r.dotted)
        if isinstance(r, tuple) and r and r[0] == "assign":
            _, mod, val = r
            if isinstance(val, (ast.DictComp, ast.SetComp, ast.ListComp, ast.GeneratorExp)) or (
                    isinstance(val, ast.Call) and any(isinstance(x, (ast.DictComp, ast.SetComp, ast.ListComp, ast.GeneratorExp)) for x in ast.walk(val))):
                # a table computed once at import time from constants: the constant folder evaluates it
                ok_, v_ = _fold_module_value(self.I.p, mod, val)
                if ok_:
                    return v_
            fr = Frame(self.I, None, {}, module=mod)
            return fr.expr(val)
        self.unsupported(node, "binding")

    def e_Attribute(self, e):
        base = self.expr(e.value)
        return self.getattr(base, e.attr, e)

    def getattr(self, base, a: str, node):
        I = self.I
        if isinstance(base, ModRef):
            r = I.p.lookup(base.name, a)
            if r is None:
                self.unsupported(node, "module attribute")
            return self.from_binding(r, node)
        if isinstance(base, LibRef):
            if (base.dotted == "six" and a == "MAXSIZE") or (base.dotted == "sys" and a == "maxsize"):
                return Aff.sym("MAXSIZE")
            from .loader import library_constant

            ok_, v_ = library_constant(base.dotted + "." + a)
            if ok_:
                return v_
            return LibRef(base.dotted + "." + a)
        if isinstance(base, AObj):
            try:
                return I.get_attr_of_obj(base, a, node)
            except NoSuchAttr:
                # not defined by the code base: what a library base class of the object provides, when a kernel says so
                hook = I.hooks.get("getattr")
                if hook is not None:
                    r = hook(self, base, a, node)
                    if r is not NotImplemented:
                        return r
                if is_enum_member(base):
                    info_ = I.p.enum_info(base.cls)
                    if info_["mixin"] == "str" and isinstance(base.attrs.get("value"), str) and hasattr(str, a):
                        return self.getattr(base.attrs["value"], a, node)  # the str the member is
                if _certainly_no_attr(I.p, base.cls, a):
                    # an object of a class of the code base, with no library base class: an attribute that neither a class
                    # body on its MRO binds nor any statement of the code base ever stores does not exist (T3)
                    raise RaiseSig(AExc("AttributeError", ["'%s' object has no attribute '%s'" % (base.cls.name, a)], {}))
                raise
        if isinstance(base, SuperProxy):
            if isinstance(base.obj, ClassInfo):
                # super(C, cls).name inside a classmethod: the next definition after C on cls's MRO, bound to cls
                owner, raw = I.p.class_attr_def(base.obj, a, after=base.after)
                if isinstance(raw, FuncInfo):
                    if raw.kind == "classmethod":
                        return BoundMethod("repo", raw, a, extra=[base.obj])
                    if raw.kind == "staticmethod":
                        return BoundMethod("repo", raw, a, extra=[])
                    if raw.kind == "classproperty":
                        return I.call_function(raw, [base.obj], {}, node)
                    return BoundMethod("repo", raw, a, extra=[])
                if isinstance(raw, Const):
                    return raw.value
                if raw is not None and owner is not None:
                    fr_ = Frame(I, None, ClassBodyEnv(I, owner), module=owner.module)
                    return fr_.expr(raw)
            if isinstance(base.obj, AObj):
                owner, raw = I.p.class_attr_def(base.obj.cls, a, after=base.after)
                if owner is None:
                    return BoundMethod("lib-super", base.obj, a)
                return I.get_attr_of_obj(base.obj, a, node, after=base.after)
            if isinstance(base.obj, ARec):
                return BoundMethod("lib-super", base.obj, a)
            self.unsupported(node, "super() attribute")
        if isinstance(base, ClassInfo) and I.p.enum_info(base) is not None and not (a.startswith("_") and a != "__members__"):
            members = enum_members(I.p, base)
            if a == "__members__":
                return dict(members)
            for nm_, mem_ in members:
                if nm_ == a:
                    return mem_
        if isinstance(base, ClassInfo):
            for c_ in I.p.mro(base):
                if not isinstance(c_, ClassInfo):
                    continue
                st_ = I.path.termeq.get(("class-store", c_.qualname, a), _MISSING)
                if st_ is not _MISSING:
                    return st_  # stored on the class at run time (earlier on this path, or before the call: a kernel's scenario)
                if a in c_.attrs:
                    break
            owner, raw = I.p.class_attr_def(base, a)
            if owner is None:
                hook = I.hooks.get("class_getattr")
                if hook is not None:
                    r = hook(self, base, a, node)
                    if r is not NotImplemented:
                        return r
                if a == "__name__":
                    return base.name
                if a == "__dict__":
                    # the class's own namespace: only what the class body itself binds
                    return AStruct("class-namespace", cls=base)
                ntf = _namedtuple_fields(I.p, base)
                if ntf is not None and a == "_fields":
                    return tuple(ntf)
                if ntf is not None and a in ("_field_defaults", "_fields_defaults"):
                    return {f_: Frame(I, None, {}, module=m_).expr(e_) for f_, (m_, e_) in _namedtuple_defaults(I.p, base).items()}
                if ntf is not None and a == "_make":
                    return BoundMethod("py", lambda fr2, args, kwargs, node2: fr2.instantiate(base, list(args[0].items if isinstance(args[0], AList) else args[0]), {}, node2), a)
                if not a.startswith("__") and all(isinstance(c_, ClassInfo) or getattr(c_, "dotted", "") in ("builtins.object", "object", "typing.Generic")
                                                  for c_ in I.p.mro(base)):
                    # a class of the code base without library bases: what no class body binds and nothing stored is not there
                    raise NoSuchAttr("%s has no attribute %s" % (base.qualname, a))
                self.unsupported(node, "class attribute")
            if isinstance(raw, FuncInfo):
                if raw.kind == "classproperty":
                    return I.call_function(raw, [base], {}, node)
                if raw.kind == "classmethod":
                    return BoundMethod("repo", raw, a, extra=[base])
                return BoundMethod("repo", raw, a, extra=[])
            if isinstance(raw, Const):
                return raw.value
            ok, v = _fold_class_data(I.p, owner, a)
            if ok:
                return v
            fr = Frame(I, None, ClassBodyEnv(I, owner), module=owner.module)
            return fr.expr(raw)
        hook = I.hooks.get("getattr")
        if hook is not None:
            r = hook(self, base, a, node)
            if r is not NotImplemented:
                return r
        if isinstance(base, ARec) and base.circular and a.startswith("__") is False:
            ci = I.p.get_class("moclo.record.CircularRecord")
            raw = ci.attrs.get(a)
            if raw is None:
                # defined on a mixin / base class of the repository the record class is put together from
                try:
                    raw = I.p.class_attr_def(ci, a)[1]
                except Exception:
                    raw = None
            if isinstance(raw, FuncInfo) and raw.kind == "method" and (I.hooks.get("inline_record_methods") or a.startswith("_")):
                return BoundMethod("repo", raw, a, extra=[base])
            if isinstance(raw, FuncInfo) and raw.kind == "staticmethod":
                return BoundMethod("repo", raw, a, extra=[])
            if isinstance(raw, FuncInfo) and raw.kind == "classmethod":
                return BoundMethod("repo", raw, a, extra=[ci])
        return lib_getattr(self, base, a, node)

    def e_Subscript(self, e):
        base = self.expr(e.value)
        if isinstance(e.slice, ast.Slice):
            if e.slice.step is not None:
                self.unsupported(e, "slice step")
            lo = self.expr(e.slice.lower) if e.slice.lower is not None else None
            hi = self.expr(e.slice.upper) if e.slice.upper is not None else None
            return self.slice(base, lo, hi, e)
        idx = self.expr(e.slice)
        if isinstance(idx, AStruct) and idx.kind == "slice":
            if idx.fields.get("step") is not None:
                self.unsupported(e, "slice step")
            return self.slice(base, idx.fields["lo"], idx.fields["hi"], e)
        return self.index(base, idx, e)

    def slice(self, base, lo, hi, node):
        I = self.I
        if isinstance(base, ASeq):
            return ASeq(base.kind, I.slice_pieces(base.pieces, lo, hi), base.upper)
        if isinstance(base, ARec):
            hook = I.hooks.get("rec_slice")
            if hook is not None:
                r = hook(self, base, lo, hi, node)
                if r is not NotImplemented:
                    return r
            if base.circular:
                SUMMARIES_USED.add("getitem")
            L = I.seq_len(base.pieces)
            x = I.norm_bound(lo, L, Aff.const(0))
            y = I.norm_bound(hi, L, L)
            out = ARec(False, I.slice_pieces(base.pieces, lo, hi), base.ident, deriv=("slice", base.deriv, x, y))
            for a in ("id", "name", "description"):
                if a in base.attrs:
                    out.attrs[a] = base.attrs[a]
            la = base.attrs.get("letter_annotations")
            if isinstance(la, AMapGen) and isinstance(la.value, ASeq):
                out.attrs["letter_annotations"] = AMapGen(la.name, ASeq(la.value.kind, I.slice_pieces(la.value.pieces, lo, hi)))
            return out
        if isinstance(base, (list, tuple, str)):
            if all(isinstance(x, (int, type(None))) for x in (lo, hi)):
                return base[lo:hi]
        if isinstance(base, AList) and not base.generic:
            if all(isinstance(x, (int, type(None))) for x in (lo, hi)):
                return AList(base.items[lo:hi], I.loop_depth)
        if isinstance(base, ACollection):
            # part of the input collection
            return ACollection("%s[%s:%s]" % (base.name, "" if lo is None else lo, "" if hi is None else hi), base.make_elem)
        if isinstance(base, Term) and base.op == "concat" and lo is None and isinstance(hi, int) and hi < 0 and getattr(base, "operands", None):
            l_, r_ = base.operands
            if isinstance(r_, AList) and not r_.generic and len(r_.items) == -hi and isinstance(l_, ACollection):
                # (xs + [a, b])[:-2]: a new list of exactly the elements of xs
                return ACollection(l_.name, l_.make_elem)
        if isinstance(base, Term):
            if lo is None and hi is None:
                return Term("shallow-copy", base)
            return Term("slice", base, _t(lo), _t(hi))
        self.unsupported(node, "slice of %r" % (base,))

    def index(self, base, idx, node):
        I = self.I
        if isinstance(base, ClassInfo) and I.p.enum_info(base) is not None and isinstance(idx, str):
            for nm_, mem_ in enum_members(I.p, base):
                if nm_ == idx:
                    return mem_
            raise RaiseSig(AExc("KeyError", [idx], {}))
        if isinstance(base, AStruct) and base.kind == "class-namespace" and isinstance(idx, str):
            ci_ = base.fields["cls"]
            st_ = I.path.termeq.get(("class-store", ci_.qualname, idx), _MISSING)
            if st_ is not _MISSING:
                return st_
            if idx in ci_.attrs:
                return self.getattr(ci_, idx, node)
            raise RaiseSig(AExc("KeyError", [idx], {}))
        if isinstance(base, AList):
            if isinstance(idx, Aff) and idx.is_const:
                idx = idx.c
            if isinstance(idx, int):
                if base.generic:
                    if idx in (0, -1) and base.items and not (idx == 0 and getattr(base, "unknown_head", False)):
                        return base.items[idx]
                    self.unsupported(node, "index into a generic list")
                try:
                    return base.items[idx]
                except IndexError:
                    raise RaiseSig(AExc("IndexError", [], {}))
            self.unsupported(node, "symbolic index into a list")
        if isinstance(base, (tuple, list)):
            if isinstance(idx, Aff) and idx.is_const:
                idx = idx.c
            if isinstance(idx, int):
                try:
                    return base[idx]
                except IndexError:
                    raise RaiseSig(AExc("IndexError", [], {}))
            self.unsupported(node, "symbolic index into a tuple")
        if isinstance(base, dict):
            k = _hashable(idx)
            if k in base:
                return base[k]
            if isinstance(k, Term) and _const_keys(base):
                # a symbolic key against a table of constant keys
                if I.table_has(base, k):
                    return Term("table-value", _table_term(base), k)
            raise RaiseSig(AExc("KeyError", [idx], {}))
        if isinstance(base, AMap):
            return map_getitem(self, base, idx)
        if isinstance(base, AFeatList):
            return Term("feature-of", base.rec.ident, idx if isinstance(idx, Term) else Term(repr(idx)))
        if isinstance(base, ACollection) and isinstance(idx, (int, Aff)):
            # one particular element of the input collection
            return base.make_elem()
        if isinstance(base, AListMap):
            if isinstance(idx, int) and idx == 0 and len(base.elems) >= 1:
                return Term("first", Term(repr(base)))
            self.unsupported(node, "index into mapped list")
        if isinstance(base, Term):
            if isinstance(idx, (str, int)):
                # what this path itself stored under that key of the opaque mapping a moment ago (ants["comment"] = [...];
                # ants["comment"].extend(...)): the object stored, unless the mapping was changed wholesale since
                for eff in reversed(I.path.effects):
                    if eff[0] == "mutate" and isinstance(eff[1], Term) and eff[1] == base and eff[2] in ("update", "clear", "pop", "__ior__", "popitem"):
                        break
                    if eff[0] == "setitem" and isinstance(eff[1], Term) and eff[1] == base and eff[2] == idx:
                        return eff[3]
            return Term("getitem", base, idx if isinstance(idx, Term) else Term(repr(idx)))
        if isinstance(base, AStruct) and base.kind == "qualifiers":
            k = _hashable(idx)
            if k in base.fields:
                return base.fields[k]
            raise RaiseSig(AExc("KeyError", [idx], {}))
        if isinstance(base, LibRef):
            return base  # typing.Generic[...]
        if isinstance(base, (AReMatch, AStruct)) and (isinstance(base, AReMatch) or base.kind in ("cit-match", "re-match-const")):
            # match[g] is match.group(g)
            return self.call_value(self.getattr(base, "group", node), [idx], {}, node)
        if isinstance(base, AObj) and isinstance(base.cls, ClassInfo) and not any(isinstance(c, Ext) and c.dotted != "builtins.object" for c in I.p.mro(base.cls)):
            # an object of a class of the code base (no library base that might bring it): obj[k] is its __getitem__
            owner, raw = I.p.class_attr_def(base.cls, "__getitem__")
            if isinstance(raw, FuncInfo):
                return I.call_function(raw, [base, idx], {}, node)
            raise RaiseSig(AExc("TypeError", ["'%s' object is not subscriptable" % base.cls.name], {}))
        self.unsupported(node, "subscript of %r" % (base,))

    def e_BinOp(self, e):
        return self.binop(e.op, self.expr(e.left), self.expr(e.right), e)

    def binop(self, op, l, r, node):
        I = self.I
        num = lambda x: isinstance(x, (Aff, int)) and not isinstance(x, bool)
        if num(l) and num(r):
            if isinstance(l, int) and isinstance(r, int):
                if isinstance(op, ast.Add):
                    return l + r
                if isinstance(op, ast.Sub):
                    return l - r
                if isinstance(op, ast.Mult):
                    return l * r
                if isinstance(op, ast.Mod) and r != 0:
                    return l % r
                if isinstance(op, ast.FloorDiv) and r != 0:
                    return l // r
            la, ra = Aff.of(l), Aff.of(r)
            if isinstance(op, ast.Add):
                return la + ra
            if isinstance(op, ast.Sub):
                return la - ra
            if isinstance(op, ast.Mult):
                if la.is_const:
                    return ra.scale(la.c)
                if ra.is_const:
                    return la.scale(ra.c)
                self.unsupported(node, "non-linear product")
            if isinstance(op, ast.Mod):
                return I.mod(la, ra)
            if isinstance(op, ast.FloorDiv):
                q = I.floordiv(la, ra)
                return q
            self.unsupported(node, "integer operation")
        hook = I.hooks.get("binop")
        if hook is not None:
            res = hook(self, op, l, r, node)
            if res is not NotImplemented:
                return res
        if (isinstance(l, Term) and isinstance(r, (Term, Aff, int))) or (isinstance(r, Term) and isinstance(l, (Aff, int))):
            if not isinstance(op, (ast.LShift, ast.RShift)):
                return Term(type(op).__name__.lower(), _t(l), _t(r))
        if isinstance(op, ast.Add):
            return self.concat(l, r, node)
        if isinstance(op, ast.Mult):
            if isinstance(l, ASeq) and isinstance(r, int) and r >= 0:
                return ASeq(l.kind, list(l.pieces) * r, l.upper)
            if isinstance(r, ASeq) and isinstance(l, int) and l >= 0:
                return ASeq(r.kind, list(r.pieces) * l, r.upper)
        if isinstance(op, (ast.LShift, ast.RShift)):
            hook = I.hooks.get("shift")
            if hook is not None:
                res = hook(self, op, l, r, node)
                if res is not NotImplemented:
                    return res
            if isinstance(l, AObj):
                name = "__lshift__" if isinstance(op, ast.LShift) else "__rshift__"
                m = I.get_attr_of_obj(l, name, node)
                return self.call_value(m, [r], {}, node)
            if isinstance(l, ARec) and not l.circular:
                # a plain SeqRecord has no rotation operators (T3)
                raise RaiseSig(AExc("TypeError", ["unsupported operand type(s) for %s: 'SeqRecord' and 'int'" % ("<<" if isinstance(op, ast.LShift) else ">>")], {}))
        if isinstance(op, ast.Mod) and isinstance(l, str):
            return Term("format", Term(repr(l)), r if isinstance(r, Term) else Term(repr(r)))
        if isinstance(op, ast.BitOr) and isinstance(l, dict) and isinstance(r, dict):
            out = dict(l)
            out.update(r)
            return out
        if isinstance(op, ast.BitOr) and isinstance(l, Term) and isinstance(r, dict) and isinstance(node, ast.AugAssign):
            # mapping |= {...}: an in-place update of the opaque mapping
            I.path.effects.append(("mutate", l, "update", (r,)))
            return l
        hook = I.hooks.get("binop")
        if hook is not None:
            res = hook(self, op, l, r, node)
            if res is not NotImplemented:
                return res
        self.unsupported(node, "operation on %r and %r" % (l, r))

    def concat(self, l, r, node):
        I = self.I
        if isinstance(l, str) and isinstance(r, str):
            return l + r
        if isinstance(l, AList) and isinstance(r, AList):
            out = AList(l.items + r.items, I.loop_depth)
            out.generic = l.generic or r.generic
            out.generic_from = l.generic_from if l.generic else len(l.items) + r.generic_from
            return out
        if isinstance(l, str) and isinstance(r, AJoin) and r.sep == "" and isinstance(r.alist, AList):
            # "prefix" + "".join(items): the same join with the prefix as a once-only first item
            al = AList([l] + list(r.alist.items), r.alist.depth, origin=r.alist.uid)
            al.generic, al.min_len, al.generic_from = r.alist.generic, r.alist.min_len, r.alist.generic_from + 1
            return AJoin("", al)
        if isinstance(l, tuple) and isinstance(r, tuple):
            return l + r
        if isinstance(l, tuple) and isinstance(r, AList) or isinstance(l, AList) and isinstance(r, tuple):
            raise RaiseSig(AExc("TypeError", ["can only concatenate tuple (not list) to tuple"], {}))
        if isinstance(l, ASeq) and isinstance(r, ASeq):
            if l.kind != r.kind and "list" in (l.kind, r.kind):
                self.unsupported(node, "list + sequence")
            kind = "Seq" if "Seq" in (l.kind, r.kind) else l.kind
            return ASeq(kind, l.pieces + r.pieces)
        if isinstance(l, ARec) or isinstance(r, ARec):
            for x in (l, r):
                if isinstance(x, ARec) and x.circular:
                    # CircularRecord.__add__/__radd__ are repo code (refuse): lemma of the C15 rules
                    SUMMARIES_USED.add("add-guard")
                    raise RaiseSig(AExc("TypeError", ["ambiguous operation"], {}))
            lp = l.pieces if isinstance(l, (ARec, ASeq)) else None
            rp = r.pieces if isinstance(r, (ARec, ASeq)) else None
            if lp is None or rp is None:
                self.unsupported(node, "record concatenation with %r / %r" % (l, r))
            ident = l.ident if isinstance(l, ARec) else r.ident
            out = ARec(False, lp + rp, ident, deriv=("concat", getattr(l, "deriv", repr(l)), getattr(r, "deriv", repr(r))))
            parts = []
            for x in (l, r):
                if isinstance(x, ARec):
                    parts.extend(x.attrs.get("__parts__", [x]))
                else:
                    parts.append(x)
            out.attrs["__parts__"] = parts
            return out
        if isinstance(l, (Term, ACollection, AList)) and isinstance(r, (Term, ACollection, AList)):
            hook = I.hooks.get("concat")
            if hook is not None:
                res = hook(self, l, r, node)
                if res is not NotImplemented:
                    return res
            out = Term("concat", _t(l), _t(r))
            out.operands = (l, r)  # what was joined: a slice that cuts the join off again gives the operand back (a copy)
            return out
        self.unsupported(node, "concatenation of %r and %r" % (l, r))

    def e_UnaryOp(self, e):
        v = self.expr(e.operand)
        if isinstance(e.op, ast.Not):
            if isinstance(v, ABoolTerm):
                return ABoolTerm("not", v)
            return not self.I.truth(v, e)
        if isinstance(e.op, ast.USub):
            if isinstance(v, int):
                return -v
            if isinstance(v, Aff):
                return -v
            if isinstance(v, Term):
                return Term("neg", v)
        if isinstance(e.op, ast.UAdd) and isinstance(v, (int, Aff, Term)):
            return v
        self.unsupported(e, "unary operation")

    def e_BoolOp(self, e):
        I = self.I
        if isinstance(e.op, ast.And):
            last = True
            pending = []
            for v in e.values:
                x = self.expr(v)
                if isinstance(x, ABoolTerm):
                    pending.append(x)
                    last = x
                    continue
                if not I.truth(x, v):
                    return x if not pending else False
                last = x
            if pending:
                return pending[0] if len(pending) == 1 else ABoolTerm("and", *pending)
            return last
        else:
            last = False
            pending = []
            for v in e.values:
                x = self.expr(v)
                if isinstance(x, ABoolTerm):
                    pending.append(x)
                    continue
                if I.truth(x, v):
                    return x if not pending else ABoolTerm("or", *(pending + [x]))
                last = x
            if pending:
                return pending[0] if len(pending) == 1 else ABoolTerm("or", *pending)
            return last

    def e_Compare(self, e):
        left = self.expr(e.left)
        result = True
        for op, c in zip(e.ops, e.comparators):
            right = self.expr(c)
            r = self.I.cmp(op, left, right, e)
            if isinstance(r, ABoolTerm):
                if len(e.ops) != 1:
                    self.unsupported(e, "chained symbolic comparison")
                return r
            if not r:
                return False
            left = right
        return result

    def e_IfExp(self, e):
        t = self.I.truth(self.expr(e.test), e.test)
        return self.expr(e.body if t else e.orelse)

    def e_NamedExpr(self, e):
        v = self.expr(e.value)
        self.assign(e.target, v)
        return v

    def e_Lambda(self, e):
        a = e.args
        params = [x.arg for x in a.posonlyargs + a.args]
        dvals = [self.expr(d) for d in a.defaults]
        defaults = dict(zip(params[len(params) - len(dvals):], dvals))
        for x, d in zip(a.kwonlyargs, a.kw_defaults):
            if d is not None:
                defaults[x.arg] = self.expr(d)
        return ALambda(e, self, defaults)

    def e_GeneratorExp(self, e):
        res = self.comprehension(e, "gen")
        if isinstance(res, AList) and res.generic:
            res._one_shot = "generator"  # an iterator: whoever walks it first exhausts it
        return res

    def e_ListComp(self, e):
        return self.comprehension(e, "list")

    def e_DictComp(self, e):
        I = self.I
        if len(e.generators) == 2 and isinstance(e.generators[1].iter, (ast.List, ast.Tuple)) and len(e.generators[1].iter.elts) == 1 \
                and not e.generators[1].ifs and isinstance(e.generators[1].target, ast.Name) and not e.generators[0].ifs:
            # {k: v for x in xs for v in [f(x)]}: the second clause only names a value computed from x -- the same table as
            # the one filled by a loop over xs
            g0, g1 = e.generators
            it0 = self.expr(g0.iter)
            elems = list(it0.items) if isinstance(it0, AList) else [it0.make_elem()] if isinstance(it0, ACollection) else None
            if elems is not None and len(elems) == 1:
                sub = Frame(I, self.fi, dict(self.env), module=self.m)
                sub.assign(g0.target, elems[0])
                if isinstance(it0, ACollection):
                    I.path.effects.append(("loop", it0.name, elems[0]))
                I.loop_depth += 1
                try:
                    sub.assign(g1.target, sub.expr(g1.iter.elts[0]))
                    k, v = sub.expr(e.key), sub.expr(e.value)
                finally:
                    I.loop_depth -= 1
                out = AMap("comp:L%d" % e.lineno)
                I.path.effects.append(("map-store", out.base, k, v, None))
                out.adds.append((k, v))
                return out
        if len(e.generators) != 1:
            self.unsupported(e, "dict comprehension shape")
        g = e.generators[0]
        it = self.expr(g.iter)
        conc = list(it) if isinstance(it, (list, tuple)) else list(it.items) if (isinstance(it, AList) and not it.generic) else list(it.items()) if False else None
        if isinstance(it, dict) and not g.ifs:
            conc = None
        if conc is not None and all(isinstance(x, (str, int, tuple)) for x in conc):
            # a table built entry by entry from a concrete sequence of names / pairs
            out = {}
            for x in conc:
                sub = Frame(I, self.fi, dict(self.env), module=self.m)
                sub.assign(g.target, x)
                if all(I.truth(sub.expr(c), c) for c in g.ifs):
                    out[_hashable(sub.expr(e.key))] = sub.expr(e.value)
            return out
        if g.ifs:
            self.unsupported(e, "dict comprehension shape")
        if isinstance(it, AMapGen) and isinstance(g.target, (ast.Tuple, ast.List)):
            # iterating the mapping itself gives its keys (the names of the per-letter tracks: words), not (key, value)
            # pairs: unpacking a name into two targets fails for every name that is not two characters long
            I.path.effects.append(("loop", "keys-of:" + it.name, None))
            raise RaiseSig(AExc("ValueError", ["too many values to unpack (expected %d)" % len(g.target.elts)], {}))
        if isinstance(it, Term) and it.op == "items" and isinstance(it.args[0], AMapGen):
            src: AMapGen = it.args[0]
            k, v = Term("key:" + src.name), src.value
            sub = Frame(I, self.fi, dict(self.env), module=self.m)
            sub.assign(g.target, (k, v))
            kk = sub.expr(e.key)
            vv = sub.expr(e.value)
            if not (isinstance(kk, Term) and kk == k):
                self.unsupported(e, "dict comprehension changes the keys")
            return AMapGen(src.name, vv)
        if isinstance(it, Term) and it.op == "items" and len(it.args) == 1 and isinstance(it.args[0], Term) and isinstance(g.target, (ast.Tuple, ast.List)) and len(g.target.elts) == 2:
            # the entries of an opaque mapping (a record's letter_annotations, ...) re-made one by one: opaque again; the
            # key and value expressions are evaluated once on a generic entry (what they read and raise counts)
            k, v = Term("key-of", it.args[0]), Term("value-of", it.args[0])
            sub = Frame(I, self.fi, dict(self.env), module=self.m)
            sub.assign(g.target, (k, v))
            kk, vv = sub.expr(e.key), sub.expr(e.value)
            return Term("mapped-items", it.args[0], _t(kk), _t(vv))
        if isinstance(it, AMapView) and it.which == "items":
            src = it.m
            out = AMap(src.base, make_value=src.make_value)
            out.values_cache = src.values_cache
            gk = I.new_term("key")
            sub = Frame(I, self.fi, dict(self.env), module=self.m)
            sub.assign(g.target, (gk, src.value_for(gk)))
            out.key_transform = sub.expr(e.key)
            for k0, v0 in src.adds:
                sub2 = Frame(I, self.fi, dict(self.env), module=self.m)
                sub2.assign(g.target, (k0, v0))
                out.adds.append((sub2.expr(e.key), sub2.expr(e.value)))
            out.removes = list(src.removes)
            return out
        if isinstance(it, ACollection) or (isinstance(it, AList) and not it.generic):
            elems = [it.make_elem()] if isinstance(it, ACollection) else list(it.items)
            out = AMap("comp:L%d" % e.lineno)
            for el in elems:
                sub = Frame(I, self.fi, dict(self.env), module=self.m)
                sub.assign(g.target, el)
                out.adds.append((sub.expr(e.key), sub.expr(e.value)))
            return out
        if isinstance(it, dict):
            self.unsupported(e, "dict comprehension over a literal")
        self.unsupported(e, "dict comprehension over %r" % (it,))

    def comprehension(self, e, kind):
        I = self.I
        if len(e.generators) != 1:
            return self.nested_comprehension(e)
        g = e.generators[0]
        it = self.expr(g.iter)
        if isinstance(it, ClassInfo) and I.p.enum_info(it) is not None:
            seen_, items_ = set(), []
            for nm_, mem_ in enum_members(I.p, it):
                if id(mem_) not in seen_:
                    seen_.add(id(mem_))
                    items_.append(mem_)
            it = AList(items_, I.loop_depth)
        hook = I.hooks.get("iterate")
        if hook is not None and isinstance(it, AStruct):
            r_ = hook(self, it, g.iter)
            if r_ is not NotImplemented:
                it = r_
        if isinstance(it, AGenCall) and kind == "list":
            # [fragment(x) for x in <lazy generator>]: a list of records that is only ever folded with + (anything else
            # done to it is refused) is represented by the concatenation it will be folded into
            def step(acc, x):
                sub = Frame(I, self.fi, ChainEnv(self.env), module=self.m)
                sub.assign(g.target, x)
                if not all(I.truth(sub.expr(c), c) for c in g.ifs):
                    return acc
                v = sub.expr(e.elt)
                if not isinstance(v, ARec):
                    self.unsupported(e, "a list built from the generator that holds the loop under inductive evaluation, whose items are not records")
                return self.binop(ast.Add(), acc, v, e) if acc is not None else v

            empty = ARec(False, [], Term("fresh-record"), ctor="SeqRecord")
            return AFragList(self.fold_generator(it, step, empty, e))
        if isinstance(it, AGenCall):
            if kind != "gen":
                self.unsupported(e, "a %s comprehension materialises the generator that holds the loop under inductive evaluation" % kind)
            # (elt for target in <lazy generator> if conds): itself a lazy generator, a closure over this frame
            body = ast.Expr(value=ast.Yield(value=e.elt))
            for c in reversed(g.ifs):
                body = ast.If(test=c, body=[body], orelse=[])
            loop = ast.For(target=g.target, iter=ast.Name(id="<src>", ctx=ast.Load()), body=[body], orelse=[])
            fn = ast.FunctionDef(name="<genexpr>", args=ast.arguments(posonlyargs=[], args=[], kwonlyargs=[], kw_defaults=[], defaults=[]),
                                 body=[loop], decorator_list=[])
            ast.copy_location(fn, e)
            ast.fix_missing_locations(fn)
            sub = Frame(I, self.fi, ChainEnv(self.env, {"<src>": it}), module=self.m)
            return AGenCall(_SyntheticFunc(fn), [], {}, closure_frame=sub)
        if isinstance(it, AFeatList):
            it = it.rec.attrs.get("feature_coll") or Term("features", it.rec.ident)
        if isinstance(it, AList) and it.generic:
            # one image per representative element, still a generic list
            outl = AList([], I.loop_depth, origin=it.uid)
            outl.generic, outl.min_len = True, it.min_len
            I.loop_depth += 1
            try:
                for x in it.items:
                    sub = Frame(I, self.fi, dict(self.env), module=self.m)
                    sub.assign(g.target, x)
                    if all(I.truth(sub.expr(c), c) for c in g.ifs):
                        outl.items.append(sub.expr(e.elt))
                    else:
                        outl.min_len = 0
            finally:
                I.loop_depth -= 1
            return outl
        if isinstance(it, AList) and not it.generic:
            it = list(it.items)
        if isinstance(it, str):
            it = list(it)
        if isinstance(it, (list, tuple)):
            out = []
            for x in it:
                sub = Frame(I, self.fi, dict(self.env), module=self.m)
                sub.assign(g.target, x)
                if all(I.truth(sub.expr(c), c) for c in g.ifs):
                    out.append(sub.expr(e.elt))
            return AList(out, I.loop_depth)
        if isinstance(it, ARange):
            I.path.effects.append(("loop", "range-desc" if it.desc else "range", it.lo, it.hi))
            if not I.ge0(Aff.of(it.hi) - Aff.of(it.lo) - 1):
                return AScan([])
            i = Aff.sym("i")
            I.path.cons.add(i - Aff.of(it.lo))
            I.path.cons.add(Aff.of(it.hi) - i - 1)
            sub = Frame(I, self.fi, dict(self.env), module=self.m)
            sub.assign(g.target, i)
            if not all(I.truth(sub.expr(c), c) for c in g.ifs):
                return AScan([])
            return AScan([sub.expr(e.elt)])
        if isinstance(it, (AMap, AMapView)):
            # a scan over the keys / values / items of a symbolic map: one generic entry stands for "some entry"; with
            # conditions, the result is that entry's image (an entry satisfying them exists) or nothing (none does)
            m = it if isinstance(it, AMap) else it.m
            key = I.new_term("key")
            val = m.value_for(key)
            m.adds.append((key, val))
            which = "keys" if isinstance(it, AMap) else it.which
            elem = {"items": (key, val), "keys": key, "values": val}[which]
            I.path.effects.append(("loop", "%s:%s" % (which, m.base), key))
            sub = Frame(I, self.fi, dict(self.env), module=self.m)
            sub.assign(g.target, elem)
            if all(I.truth(sub.expr(c), c) for c in g.ifs):
                return AScan([sub.expr(e.elt)])
            return AScan([])
        if isinstance(it, AScan):
            # filtering / mapping a lazy scan keeps "the first element for which ..." semantics
            out = []
            for x in it.items:
                sub = Frame(I, self.fi, dict(self.env), module=self.m)
                sub.assign(g.target, x)
                if all(I.truth(sub.expr(c), c) for c in g.ifs):
                    out.append(sub.expr(e.elt))
            return AScan(out)
        if isinstance(it, ACollection):
            elem = it.make_elem()
            sub = Frame(I, self.fi, dict(self.env), module=self.m)
            sub.assign(g.target, elem)
            conds = [sub.expr(c) for c in g.ifs]
            I.loop_depth += 1
            try:
                val = sub.expr(e.elt)
            finally:
                I.loop_depth -= 1
            if isinstance(val, (Term, str, int)) or val is None:
                t = Term("map", Term(it.name), _t(val), Term("over", _t(elem)))
                if conds:
                    t = Term("filter", t, *[_t(c) for c in conds])
                else:
                    t._coll = (it.name, elem, val)  # one image per element of the input collection, in its order
                return t
            # one image per element of the source collection
            out = AList([val], I.loop_depth, origin="map:%s" % it.name)
            out.generic = True
            out.source = it.name
            out.filtered = bool(conds)
            if conds and all(isinstance(c, bool) for c in conds) and not all(conds):
                out.items = []  # on this path the representative element does not pass the filter: it has no image
            I.path.effects.append(("loop", it.name, elem))
            return out
        if isinstance(it, Term):
            elem = I.new_term("elem")
            sub = Frame(I, self.fi, dict(self.env), module=self.m)
            sub.assign(g.target, elem)
            t = Term("map", it, _t(sub.expr(e.elt)), Term("over", elem))
            if g.ifs:
                t = Term("filter", t, Term(re.sub(r"\s+", " ", self.m.segment(g.ifs[0]) or "cond") if self.m else "cond"))
            return t
        self.unsupported(e, "comprehension over %r" % (it,))

    def nested_comprehension(self, e):
        """several `for` clauses: supported when every iterable is a concrete list"""
        I = self.I
        out = []

        def rec(k, frame):
            if k == len(e.generators):
                out.append(frame.expr(e.elt))
                return
            g = e.generators[k]
            it = frame.expr(g.iter)
            if isinstance(it, AList) and not it.generic:
                it = list(it.items)
            if isinstance(it, str):
                it = list(it)
            if not isinstance(it, (list, tuple)):
                self.unsupported(e, "nested comprehension over %r" % (it,))
            for x in it:
                sub = Frame(I, self.fi, dict(frame.env), module=self.m)
                sub.assign(g.target, x)
                if all(I.truth(sub.expr(c), c) for c in g.ifs):
                    rec(k + 1, sub)

        rec(0, self)
        return AList(out, I.loop_depth)

    def e_Starred(self, e):
        return ("starred", self.expr(e.value))

    def e_Call(self, e):
        I = self.I
        # super()
        if isinstance(e.func, ast.Name) and e.func.id == "super" and "super" not in self.env:
            if not e.args:
                if self.fi is None or self.fi.owner is None:
                    self.unsupported(e, "super() outside a method")
                first = self.fi.node.args.args[0].arg
                return SuperProxy(self.fi.owner, self.env[first])
            if len(e.args) == 2:
                a = self.expr(e.args[0])
                o = self.expr(e.args[1])
                if isinstance(a, ClassInfo):
                    return SuperProxy(a, o)
            self.unsupported(e, "super() form")
        fn = self.expr(e.func)
        n_eff = len(I.path.effects)
        args = []
        for a in e.args:
            if isinstance(a, ast.Starred):
                v = self.expr(a.value)
                if isinstance(v, AObj) and isinstance(v.cls, ClassInfo) and isinstance(I.p.class_attr_def(v.cls, "__iter__")[1], FuncInfo):
                    # f(*obj): what obj.__iter__() hands out, when that is a definite sequence
                    it_ = I.call_function(I.p.class_attr_def(v.cls, "__iter__")[1], [v], {}, a)
                    if isinstance(it_, AIter) and not it_.consumed and isinstance(it_.source, AList):
                        it_ = it_.source
                    v = it_
                if isinstance(v, AList) and not v.generic:
                    args.extend(v.items)
                elif isinstance(v, (list, tuple)):
                    args.extend(v)
                else:
                    args.append(("starred", v))
            else:
                args.append(self.expr(a))
        kwargs = {}
        for k in e.keywords:
            if k.arg is None:
                v = self.expr(k.value)
                if isinstance(v, dict):
                    kwargs.update(v)
                else:
                    self.unsupported(e, "**kwargs of %r" % (v,))
            else:
                kwargs[k.arg] = self.expr(k.value)
        if isinstance(fn, BoundMethod) and getattr(fn, "logs", False):
            # what was read only to be written to a log goes nowhere else: the reads made while the arguments of the
            # logging call were evaluated do not count as reads of the computation (an exception they raise still does)
            I.path.effects[n_eff:] = [x for x in I.path.effects[n_eff:] if x[0] not in ("getattr", "read")]
        return self.call_value(fn, args, kwargs, e)

    def call_value(self, fn, args, kwargs, node):
        I = self.I
        if isinstance(fn, BoundMethod):
            if fn.kind == "repo":
                return I.call_function(fn.target, list(fn.extra) + list(args), dict(kwargs), node)
            return lib_call_method(self, fn, args, kwargs, node)
        if isinstance(fn, FuncInfo):
            return I.call_function(fn, list(args), dict(kwargs), node)
        if isinstance(fn, ClassInfo):
            return self.instantiate(fn, args, kwargs, node)
        if isinstance(fn, LibRef) and fn.dotted.startswith("operator.") and fn.dotted.split(".")[-1] in (
                "add", "sub", "mul", "mod", "floordiv", "lshift", "rshift", "or_", "and_", "concat", "eq", "ne", "lt", "le", "gt", "ge",
                "is_", "is_not", "contains", "getitem", "not_", "truth", "neg"):
            return self.apply_callable(ACallable("operator", fn.dotted.split(".")[-1]), args, kwargs, node)
        if isinstance(fn, LibRef):
            return lib_call(self, fn.dotted, args, kwargs, node)
        if isinstance(fn, RecType):
            if fn.circular:
                return make_circular(self, args, kwargs, node)
            return lib_call(self, "Bio.SeqRecord.SeqRecord", args, kwargs, node)
        if isinstance(fn, ACallable):
            return self.apply_callable(fn, args, kwargs, node)
        if isinstance(fn, ALambda):
            a = fn.node.args
            positional = [x.arg for x in a.posonlyargs + a.args]
            params = positional + [x.arg for x in a.kwonlyargs]
            env = ChainEnv(fn.frame.env)  # own names; the enclosing variables are read through, as they are at that moment
            dict.update(env, fn.defaults)
            for nm, v in zip(positional, args):
                env[nm] = v
            extra_pos = list(args[len(positional):])
            extra_kw = {k_: v_ for k_, v_ in kwargs.items() if k_ not in params}
            dict.update(env, {k_: v_ for k_, v_ in kwargs.items() if k_ in params})
            if a.vararg:
                env[a.vararg.arg] = tuple(extra_pos)  # def f(x, *args, **kwargs): the rest, as a tuple / a dict
                extra_pos = []
            if a.kwarg:
                env[a.kwarg.arg] = dict(extra_kw)
                extra_kw = {}
            missing = [nm for nm in params if not dict.__contains__(env, nm)]
            if extra_pos or extra_kw or missing:
                raise RaiseSig(AExc("TypeError", ["<lambda>() arguments"], {}))
            sub = Frame(I, fn.frame.fi, env, module=fn.frame.m)
            if isinstance(fn.node, ast.Lambda):
                return sub.expr(fn.node.body)
            # a nested def: assignments stay local to the call (no nonlocal support), the enclosing variables are read late
            if any(isinstance(n, (ast.Nonlocal, ast.Global)) for n in ast.walk(fn.node)):
                self.unsupported(node, "nonlocal/global in a nested function")
            if _is_generator(fn.node):
                if node is not None and node is getattr(I, "lazy_gen_node", None):
                    I.lazy_gen_node = None
                    return AGenCall(fn, list(args), dict(kwargs), closure_frame=sub)
                yielded = AList([], I.loop_depth, origin="yield:%s" % fn.node.name)
                sub.on_yield = lambda v, _y=yielded: _gen_collect(I, _y, v)
                I.frames.append(sub)
                try:
                    sub.block(fn.node.body)
                except ReturnSig:
                    pass
                finally:
                    I.frames.pop()
                return yielded
            I.frames.append(sub)
            try:
                sub.block(fn.node.body)
            except ReturnSig as r:
                return r.value
            finally:
                I.frames.pop()
            return None
        if isinstance(fn, ANTType):
            vals = list(args) + [None] * (len(fn.fields) - len(args))
            for k, v in kwargs.items():
                if k not in fn.fields:
                    raise RaiseSig(AExc("TypeError", ["unexpected keyword %s" % k], {}))
                vals[fn.fields.index(k)] = v
            if len(args) > len(fn.fields) or any(isinstance(a, tuple) and len(a) == 2 and a[0] == "starred" for a in args):
                self.unsupported(node, "namedtuple constructor arguments %r" % (args,))
            return ANT.make(fn.fields, vals)
        if isinstance(fn, Term):
            return Term("call", fn, *[_t(a) for a in args])
        if isinstance(fn, AObj) and isinstance(fn.cls, ClassInfo):
            raw = I.p.class_attr_def(fn.cls, "__call__")[1]
            if isinstance(raw, FuncInfo):
                return I.call_function(raw, [fn] + list(args), dict(kwargs), node)  # a callable object of the code base
        self.unsupported(node, "call of %r" % (fn,))

    def apply_callable(self, fn: "ACallable", args, kwargs, node):
        I = self.I
        k = fn.kind
        if k == "partial":
            f, pargs = fn.data[0], list(fn.data[1:])
            kw = dict(fn.kw)
            kw.update(kwargs)
            return self.call_value(f, pargs + list(args), kw, node)
        if k == "methodcaller":
            name, margs = fn.data[0], list(fn.data[1:])
            if len(args) != 1:
                self.unsupported(node, "methodcaller applied to %d arguments" % len(args))
            return self.call_value(self.getattr(args[0], name, node), margs, dict(fn.kw), node)
        if k == "attrgetter":
            if len(args) != 1:
                self.unsupported(node, "attrgetter applied to %d arguments" % len(args))
            outs = []
            for path in fn.data:
                v = args[0]
                for a in path.split("."):
                    v = self.getattr(v, a, node)
                outs.append(v)
            return outs[0] if len(outs) == 1 else tuple(outs)
        if k == "itemgetter":
            if len(args) != 1:
                self.unsupported(node, "itemgetter applied to %d arguments" % len(args))
            outs = []
            for key in fn.data:
                if isinstance(key, AStruct) and key.kind == "slice":
                    outs.append(self.slice(args[0], key.fields["lo"], key.fields["hi"], node))
                else:
                    outs.append(self.index(args[0], key, node))
            return outs[0] if len(outs) == 1 else tuple(outs)
        if k == "operator":
            op = fn.data[0]
            binops = {"add": ast.Add, "sub": ast.Sub, "mul": ast.Mult, "mod": ast.Mod, "floordiv": ast.FloorDiv, "lshift": ast.LShift,
                      "rshift": ast.RShift, "or_": ast.BitOr, "and_": ast.BitAnd, "concat": ast.Add}
            cmps = {"eq": ast.Eq, "ne": ast.NotEq, "lt": ast.Lt, "le": ast.LtE, "gt": ast.Gt, "ge": ast.GtE, "is_": ast.Is, "is_not": ast.IsNot}
            if op in binops and len(args) == 2:
                return self.binop(binops[op](), args[0], args[1], node)
            if op in cmps and len(args) == 2:
                return I.cmp(cmps[op](), args[0], args[1], node)
            if op == "contains" and len(args) == 2:
                return I.contains(args[0], args[1])
            if op == "getitem" and len(args) == 2:
                return self.index(args[0], args[1], node)
            if op == "not_" and len(args) == 1:
                return not I.truth(args[0], node)
            if op == "truth" and len(args) == 1:
                return I.truth(args[0], node)
            if op == "neg" and len(args) == 1 and isinstance(args[0], (Aff, int)):
                return -Aff.of(args[0])
        self.unsupported(node, "call of %r" % (fn,))

    def instantiate(self, ci: ClassInfo, args, kwargs, node):
        I = self.I
        hook = I.hooks.get("instantiate")
        if hook is not None:
            r = hook(self, ci, args, kwargs, node)
            if r is not NotImplemented:
                return r
        p = I.p
        if p.enum_info(ci) is not None:
            # Cls(value): the member with that value
            if len(args) != 1 or kwargs:
                self.unsupported(node, "call of an enumeration")
            if is_enum_member(args[0]) and args[0].cls is ci:
                return args[0]
            want = args[0].c if isinstance(args[0], Aff) and args[0].is_const else args[0]
            if isinstance(want, (str, int, tuple)):
                for nm_, mem_ in enum_members(p, ci):
                    v0 = mem_.attrs["value"]
                    if type(v0) is type(want) and v0 == want:
                        return mem_
                raise RaiseSig(AExc("ValueError", ["%r is not a valid %s" % (want, ci.name)], {}))
            self.unsupported(node, "member of an enumeration looked up by a symbolic value")
        # exceptions
        if any(isinstance(c, Ext) and c.dotted in ("builtins.Exception", "builtins.ValueError", "builtins.RuntimeError",
                                                     "builtins.Warning") for c in p.mro(ci)):
            owner, init = p.class_attr_def(ci, "__init__")
            if isinstance(init, FuncInfo) and not I.hooks.get("exc_init_summary"):
                # building the error is repo code too: if its constructor fails, that failure is what propagates
                probe = AObj(ci, {}, name="exc:" + ci.name)
                I.call_function(init, [probe] + list(args), dict(kwargs), node)
            return AExc(ci, args, kwargs, where="%s:%s" % (self.m.relpath if self.m else "?", getattr(node, "lineno", "?")))
        if ci.qualname == "moclo.record.CircularRecord":
            return make_circular(self, args, kwargs, node)
        nt_fields = _namedtuple_fields(p, ci)
        if nt_fields is not None:
            # fields left out take the default the class body gives them (class X(NamedTuple): flag: bool = False)
            kwargs = dict(kwargs)
            defaults = _namedtuple_defaults(p, ci)
            for i_, f_ in enumerate(nt_fields):
                if i_ >= len(args) and f_ not in kwargs:
                    if f_ in defaults:
                        kwargs[f_] = Frame(I, None, {}, module=defaults[f_][0]).expr(defaults[f_][1])
                    else:
                        raise RaiseSig(AExc("TypeError", ["%s.__new__() missing required argument: %r" % (ci.name, f_)], {}))
            v = self.call_value(ANTType(ci.name, nt_fields), args, kwargs, node)
            v._nt_class = ci
            return v
        obj = AObj(ci, {}, name=ci.name)
        owner, init = p.class_attr_def(ci, "__init__")
        dc_fields = _dataclass_fields(p, ci) if not isinstance(init, FuncInfo) else None
        if isinstance(init, FuncInfo):
            I.call_function(init, [obj] + list(args), dict(kwargs), node)
        elif dc_fields is not None:
            # the generated __init__: positional / keyword arguments onto the annotated fields, in order, then __post_init__
            names = [f for f, _ in dc_fields]
            if len(args) > len(names) or any(k not in names for k in kwargs):
                raise RaiseSig(AExc("TypeError", ["%s() got unexpected arguments" % ci.name], {}))
            given = dict(zip(names, args))
            for k, v in kwargs.items():
                if k in given:
                    raise RaiseSig(AExc("TypeError", ["%s() got multiple values for argument %r" % (ci.name, k)], {}))
                given[k] = v
            for f, default in dc_fields:
                if f in given:
                    obj.attrs[f] = given[f]
                elif default is not None:
                    obj.attrs[f] = Frame(I, None, {}, module=getattr(ci, "module", None) or self.m).expr(default)
                else:
                    raise RaiseSig(AExc("TypeError", ["%s() missing required argument %r" % (ci.name, f)], {}))
            _, post = p.class_attr_def(ci, "__post_init__")
            if isinstance(post, FuncInfo):
                I.call_function(post, [obj], {}, node)
        elif args or kwargs:
            self.unsupported(node, "constructor arguments without __init__")
        return obj


class DCDict(dict):
    """a dict obtained through copy.deepcopy"""


class AFormat(object):
    """fmt.format(*args) with symbolic integer arguments"""

    def __init__(self, fmt: str, args, kwargs):
        self.fmt, self.args, self.kwargs = fmt, args, kwargs

    def __repr__(self):
        return "%r.format(%s)" % (self.fmt, ", ".join(map(repr, self.args)))


class AMapGenView(object):
    """keys() / values() of a dict whose every entry is described by one generic value"""

    def __init__(self, m, which):
        self.m, self.which = m, which

    def __repr__(self):
        return "%s(%r)" % (self.which, self.m)


class AMapGen(object):
    """dict whose every entry is described by one generic value."""

    def __init__(self, name: str, value):
        self.name, self.value = name, value

    def __repr__(self):
        return "{%s: %r}" % (self.name, self.value)


def _load(t):
    import copy

    t2 = copy.copy(t)
    t2.ctx = ast.Load()
    return t2


def _const_keys(d: dict) -> bool:
    return any(isinstance(k, (str, int)) for k in d)


def _table_term(d: dict) -> Term:
    return Term("table", Term(",".join(sorted(str(k) for k in d if isinstance(k, (str, int))))))


def _lib_class(dotted: str):
    """the class a dotted library name denotes (for exception hierarchies of installed libraries), or None"""
    if "." not in dotted:
        return None
    mod, _, name = dotted.rpartition(".")
    try:
        import importlib
        import warnings

        with warnings.catch_warnings():
            warnings.simplefilter("ignore")
            return getattr(importlib.import_module(mod), name, None)
    except Exception:
        return None


def _concrete(v) -> bool:
    """a plain Python constant (possibly nested in tuples / dicts), nothing symbolic in it"""
    if isinstance(v, (str, int, bool, type(None), bytes)):
        return True
    if isinstance(v, Aff):
        return v.is_const
    if isinstance(v, tuple):
        return all(_concrete(x) for x in v)
    if isinstance(v, dict):
        return all(_concrete(k) and _concrete(x) for k, x in v.items())
    return False


def _fold_module_value(p, mod, expr):
    """(True, value) when the constant folder evaluates a module-level expression to plain data (strings, numbers, tuples,
    frozensets, dicts and lists of those); a fresh copy every time, like evaluating the expression again"""
    cache = p.__dict__.setdefault("_folded_module_values", {})
    key = id(expr)
    if key not in cache:
        from .fold import Folder

        def plain(x):
            if x is None or isinstance(x, (str, int, float, bool)):
                return True
            if isinstance(x, (tuple, frozenset, list)):
                return all(plain(y) for y in x)
            if isinstance(x, dict):
                return all(plain(k) and plain(w) for k, w in x.items())
            return False

        try:
            v = Folder(p).module_const(mod, expr)
            cache[key] = (plain(v), v)
        except Exception:
            cache[key] = (False, None)
    ok, v = cache[key]
    if not ok:
        return False, None
    import copy

    return True, copy.deepcopy(v)


def enum_members(p, ci):
    """[(name, member)] of an enumeration of the code base: AObj singletons (one per program) carrying .name / .value as the
    constant folder computes them; aliases map to the member of the first name with the same value"""
    table = p.__dict__.setdefault("_abs_enum_members", {})
    if id(ci) not in table:
        from .fold import Folder

        out, objs = [], {}
        for name, fm in Folder(p).enum_members(ci):
            if id(fm) not in objs:
                v = fm.attrs["value"]
                if getattr(v, "enum_member", False):
                    # a member whose value is a member of another enumeration
                    v = next(m_ for n_, m_ in enum_members(p, v.ci) if n_ == v.attrs["name"])
                o = AObj(ci, {"name": fm.attrs["name"], "value": v, "_name_": fm.attrs["name"], "_value_": v}, name="%s.%s" % (ci.name, fm.attrs["name"]))
                o.enum_member = True
                objs[id(fm)] = o
            out.append((name, objs[id(fm)]))
        table[id(ci)] = out
    return table[id(ci)]


def is_enum_member(v) -> bool:
    return isinstance(v, AObj) and getattr(v, "enum_member", False)


def _certainly_no_attr(p, cls, name: str) -> bool:
    if not isinstance(cls, ClassInfo) or name.startswith("__"):
        return False
    for c in p.mro(cls):
        if isinstance(c, ClassInfo):
            if "__getattr__" in c.attrs or "__getattribute__" in c.attrs or getattr(c, "opaque_decorator", None):
                return False
        elif getattr(c, "dotted", "") not in ("builtins.object", "object", "typing.Generic"):
            return False
    stored = p.__dict__.get("_stored_attr_names")
    if stored is None:
        # (attribute name, class whose method stores it on its own instance -- None when the receiver is anything else)
        stored = set()
        for m in p.modules.values():
            owner_of = {}
            for ci in m.classes.values():
                for fn in ast.walk(ci.node):
                    if isinstance(fn, (ast.FunctionDef, ast.AsyncFunctionDef)) and fn.args.args:
                        for n in ast.walk(fn):
                            owner_of.setdefault(id(n), (ci, fn.args.args[0].arg))
            # receivers that are library records for sure: a name of a function on which an attribute only records have
            # (features, annotations, letter_annotations, dbxrefs) is read or written in that same function
            record_names = {}
            for fn_ in ast.walk(m.tree):
                if isinstance(fn_, (ast.FunctionDef, ast.AsyncFunctionDef)):
                    recs_ = {x.value.id for x in ast.walk(fn_) if isinstance(x, ast.Attribute) and isinstance(x.value, ast.Name)
                             and x.attr in ("features", "annotations", "letter_annotations", "dbxrefs")}
                    for x in ast.walk(fn_):
                        # ... or that is only ever bound to a record freshly made by the library / the record class
                        if isinstance(x, ast.Assign) and len(x.targets) == 1 and isinstance(x.targets[0], ast.Name) and isinstance(x.value, ast.Call):
                            f_ = x.value.func
                            nm_ = f_.id if isinstance(f_, ast.Name) else (f_.attr if isinstance(f_, ast.Attribute) else "")
                            if nm_ in ("SeqRecord", "CircularRecord") or (nm_ == "read" and "SeqIO" in ast.unparse(f_)):
                                others_ = [y for y in ast.walk(fn_) if isinstance(y, ast.Assign) and any(
                                    isinstance(t_, ast.Name) and t_.id == x.targets[0].id for t_ in y.targets) and y is not x]
                                if not others_:
                                    recs_.add(x.targets[0].id)
                    for x in ast.walk(fn_):
                        record_names.setdefault(id(x), set()).update(recs_)
            for n in ast.walk(m.tree):
                if isinstance(n, ast.Attribute) and isinstance(n.ctx, (ast.Store, ast.Del)):
                    own = owner_of.get(id(n))
                    if own is not None and isinstance(n.value, ast.Name) and n.value.id == own[1]:
                        stored.add((n.attr, own[0].qualname))
                    elif isinstance(n.value, ast.Name) and n.value.id in record_names.get(id(n), ()):
                        stored.add((n.attr, "<library record>"))
                    else:
                        stored.add((n.attr, None))
                elif isinstance(n, ast.Call) and isinstance(n.func, ast.Name) and n.func.id == "setattr" and len(n.args) >= 2:
                    if isinstance(n.args[1], ast.Constant) and isinstance(n.args[1].value, str):
                        stored.add((n.args[1].value, None))
                    else:
                        stored.add(("*", None))
                elif isinstance(n, ast.Attribute) and n.attr == "__dict__" and isinstance(n.ctx, ast.Load):
                    par_is_write = False
                    for q in ast.walk(m.tree):
                        if isinstance(q, ast.Subscript) and q.value is n and isinstance(q.ctx, (ast.Store, ast.Del)):
                            par_is_write = True
                        if isinstance(q, ast.Attribute) and q.value is n and q.attr in ("update", "setdefault", "__setitem__", "pop", "clear"):
                            par_is_write = True
                    if par_is_write:
                        stored.add(("*", None))
        p.__dict__["_stored_attr_names"] = stored
    if ("*", None) in stored or (name, None) in stored:
        return False
    related = {c.qualname for c in p.mro(cls) if isinstance(c, ClassInfo)}
    for nm, q in stored:
        if nm == name and q is not None and q != "<library record>":
            other = p.get_class(q) if q not in related else None
            if q in related or (other is not None and p.is_subclass(other, cls)):
                return False
    return True


def _hashable(k):
    if isinstance(k, (str, int, type(None), Term)):
        return k
    if isinstance(k, Aff) and k.is_const:
        return k.c
    return k if _is_hashable(k) else ("unhashable", id(k))


def _is_hashable(k):
    try:
        hash(k)
        return True
    except TypeError:
        return False


def _t(v):
    if isinstance(v, Term):
        return v
    if isinstance(v, ACollection):
        return Term(v.name)
    return Term(repr(v))


# ---------------------------------------------------------------------------
# library model (trusted base T1-T3)


def make_circular(fr: Frame, args, kwargs, node):
    """CircularRecord(x): summary of the constructor's copy path (its own
    obligations live in the C15 rules)."""
    if len(args) == 1 and not kwargs and isinstance(args[0], ARec):
        src = args[0]
        out = ARec(True, src.pieces, src.ident, deriv=("circular", src.deriv), ctor="CircularRecord")
        out.added_features = list(src.added_features)
        out.attrs = dict(src.attrs)
        return out
    if args and isinstance(args[0], ASeq):
        ident = Term("fresh-record")
        return ARec(True, args[0].pieces, ident, ctor="CircularRecord")
    if "seq" in kwargs and isinstance(kwargs["seq"], ASeq):
        out = ARec(True, kwargs["seq"].pieces, Term("fresh-record"), ctor="CircularRecord")
        out.attrs.update({k: v for k, v in kwargs.items() if k != "seq"})
        return out
    fr.unsupported(node, "CircularRecord construction")


def _namedtuple_fields(p, ci):
    """field names when the class (or a class on its MRO) derives from a namedtuple, in any of the three spellings"""
    for c in p.mro(ci):
        node = getattr(c, "node", None)
        if node is None:
            continue
        for b in node.bases:
            if isinstance(b, ast.Call) and ast.unparse(b.func) in ("collections.namedtuple", "namedtuple", "typing.NamedTuple", "NamedTuple") and len(b.args) >= 2:
                try:
                    spec = ast.literal_eval(b.args[1])
                except Exception:
                    # [("start", int), ...]: keep the names
                    spec = [el.elts[0].value for el in b.args[1].elts] if isinstance(b.args[1], (ast.List, ast.Tuple)) and all(
                        isinstance(el, (ast.Tuple, ast.List)) and el.elts and isinstance(el.elts[0], ast.Constant) for el in b.args[1].elts) else None
                if isinstance(spec, str):
                    return spec.replace(",", " ").split()
                if isinstance(spec, (list, tuple)):
                    return [x[0] if isinstance(x, (list, tuple)) else x for x in spec]
            if ast.unparse(b) in ("typing.NamedTuple", "NamedTuple"):
                return [st.target.id for st in node.body if isinstance(st, ast.AnnAssign) and isinstance(st.target, ast.Name)]
    return None


def _namedtuple_defaults(p, ci):
    """{field: (module, default expression)} of a typing.NamedTuple class written with annotations"""
    out = {}
    for c in p.mro(ci):
        node = getattr(c, "node", None)
        if node is None or not any(ast.unparse(b) in ("typing.NamedTuple", "NamedTuple") for b in node.bases):
            continue
        for st in node.body:
            if isinstance(st, ast.AnnAssign) and isinstance(st.target, ast.Name) and st.value is not None:
                out[st.target.id] = (c.module, st.value)
        break
    return out


def _dataclass_fields(p, ci):
    """[(field, default expression or None)] when the class is a @dataclass (fields of the bases first), else None"""
    out, found = [], False
    for c in reversed([c for c in p.mro(ci) if getattr(c, "node", None) is not None]):
        node = c.node
        is_dc = any(ast.unparse(d.func if isinstance(d, ast.Call) else d) in ("dataclasses.dataclass", "dataclass") for d in node.decorator_list)
        if not is_dc:
            continue
        found = found or c is ci
        for st in node.body:
            if isinstance(st, ast.AnnAssign) and isinstance(st.target, ast.Name) and "ClassVar" not in ast.unparse(st.annotation):
                default = st.value
                if isinstance(default, ast.Call) and ast.unparse(default.func) in ("dataclasses.field", "field"):
                    kw = {k.arg: k.value for k in default.keywords}
                    default = kw.get("default")
                    if default is None and "default_factory" in kw:
                        default = ast.Call(func=kw["default_factory"], args=[], keywords=[])
                        ast.fix_missing_locations(default)
                out = [x for x in out if x[0] != st.target.id] + [(st.target.id, default)]
    return out if found else None


def lib_getattr(fr: Frame, base, a: str, node):
    I = fr.I
    if isinstance(base, FuncInfo) and a in ("__name__", "__qualname__", "__doc__", "__module__"):
        return {"__name__": base.name, "__qualname__": base.qualname.split(".", base.module.name.count(".") + 1)[-1],
                "__doc__": ast.get_docstring(base.node, clean=False), "__module__": base.module.name}[a]
    if isinstance(base, ALambda) and a in getattr(base, "fn_attrs", {}):
        return base.fn_attrs[a]
    if isinstance(base, tuple) and getattr(base, "fields", None) and a in base.fields:
        return base[base.fields.index(a)]  # a namedtuple constant of the code base (folded class / module attribute)
    if isinstance(base, AStruct) and base.kind == "logger":
        if a in ("debug", "info", "warning", "warn", "error", "exception", "critical", "log", "setLevel", "addHandler"):
            bm = BoundMethod("py", lambda fr2, args, kwargs, node2: None, a)
            bm.logs = True
            return bm
        if a == "isEnabledFor":
            # whether a record is emitted is configuration: both answers are possible, neither may change a result
            return BoundMethod("py", lambda fr2, args, kwargs, node2: fr2.I.path.choose("logger-enabled"), a)
        fr.unsupported(node, "logger attribute %s" % a)
    if isinstance(base, AFragList):
        if a in ("append", "extend"):
            def add(fr2, args, kwargs, node2):
                x = args[0].rec if isinstance(args[0], AFragList) else args[0]
                if getattr(base, "opaque", False):
                    fr2.I.path.effects.append(("mutate", Term("list-of-objects"), a, list(args)))
                    return None
                if not isinstance(x, ARec):
                    if getattr(base, "undetermined", False):
                        # a list that was empty when the loop was reached and receives something other than records: a
                        # list of objects kept for the record (the modules used so far), not the fragments to be joined
                        base.opaque = True
                        fr2.I.path.effects.append(("mutate", Term("list-of-objects"), a, list(args)))
                        return None
                    fr2.unsupported(node2, "something other than a record added to the list of fragments")
                base.undetermined = False
                base.rec = fr2.binop(ast.Add(), base.rec, x, node2)
                return None
            return BoundMethod("py", add, a)
        fr.unsupported(node, "the list of fragments is used for something other than an additive fold (.%s)" % a)
    if isinstance(base, AExitStack):
        if a == "callback":
            def cb(fr2, args, kwargs, node2):
                if not args:
                    fr2.unsupported(node2, "ExitStack.callback without a callable")
                base.callbacks.append((args[0], list(args[1:]), dict(kwargs), I.loop_depth))
                return args[0]
            return BoundMethod("py", cb, a)
        if a == "close":
            return BoundMethod("py", lambda fr2, args, kwargs, node2: fr2.run_exit_callbacks(base, node2), a)
        if a == "enter_context":
            def enter(fr2, args, kwargs, node2):
                # a library context manager (an open stream, an archive): entered now, left with the stack; what it
                # gives is itself.  Managers of the code base would have to run around the rest of the block: not followed
                if len(args) == 1 and isinstance(args[0], (AStruct, Term)):
                    return args[0]
                fr2.unsupported(node2, "ExitStack.enter_context of %r" % (args[0] if args else None,))
            return BoundMethod("py", enter, a)
        fr.unsupported(node, "ExitStack.%s" % a)
    if isinstance(base, ANT):
        if a in base._nt_fields:
            return base[base._nt_fields.index(a)]
        if base._nt_class is not None:
            owner, raw = I.p.class_attr_def(base._nt_class, a)
            if isinstance(raw, FuncInfo):
                if raw.kind == "property":
                    return I.call_function(raw, [base], {}, node)
                if raw.kind == "classmethod":
                    return BoundMethod("repo", raw, a, extra=[base._nt_class])
                if raw.kind == "staticmethod":
                    return BoundMethod("repo", raw, a, extra=[])
                return BoundMethod("repo", raw, a, extra=[base])
            if owner is not None and isinstance(raw, (Const, ast.AST)):
                # a class-level constant of the namedtuple class (a compiled pattern, a table)
                return fr.getattr(base._nt_class, a, node)
        if a == "_fields":
            return tuple(base._nt_fields)
        if a == "_asdict":
            return BoundMethod("py", lambda fr2, args, kwargs, node2: dict(zip(base._nt_fields, base)), a)
        if a == "_replace":
            def repl(fr2, args, kwargs, node2):
                vals = list(base)
                for k, v in kwargs.items():
                    vals[base._nt_fields.index(k)] = v
                return ANT.make(base._nt_fields, vals, base._nt_class)
            return BoundMethod("py", repl, a)
    if isinstance(base, ARec):
        if a == "seq":
            return ASeq("Seq", base.pieces)
        if a in ("id", "name", "description"):
            if a in base.attrs:
                return base.attrs[a]
            return Term(a, base.ident)
        if a == "annotations":
            if a in base.attrs:
                return base.attrs[a]
            if base.deriv and base.deriv[0] == "slice":
                # a slice owns its annotations (lemma getitem: a deep copy of the library slice's)
                return Term("annotations", Term("slice-of", base.ident))
            t = Term("annotations", base.ident)
            return t
        if a == "features":
            if "features" in base.attrs:
                return base.attrs["features"]
            return AFeatList(base)
        if a == "__class__":
            return RecType(base.circular)
        if a == "__dict__":
            return base.attrs
        if a in ("letter_annotations", "dbxrefs"):
            if a in base.attrs:
                return base.attrs[a]
            return Term(a, base.ident)
        if a in ("reverse_complement", "upper", "lower"):
            return BoundMethod("rec", base, a)
        if a in base.attrs:
            return base.attrs[a]
    if isinstance(base, ASeq):
        if a in ("upper", "lower", "reverse_complement", "complement", "seq", "count", "find", "index", "rfind", "startswith", "endswith", "count_overlap"):
            if a == "seq":
                fr.unsupported(node, ".seq of a bare sequence")
            return BoundMethod("seq", base, a)
    if isinstance(base, AReMatch):
        if a in ("span", "start", "end", "group"):
            return BoundMethod("rematch", base, a)
    if isinstance(base, AEnzymeV):
        if a in ("is_3overhang", "is_5overhang", "is_blunt", "is_unknown", "catalyse", "search"):
            return BoundMethod("enzyme", base, a)
        return Term(a, Term("cutter"))
    if isinstance(base, AStruct) and base.kind == "re-match-const":
        m = base.fields["m"]
        if a in ("group", "start", "end", "span", "groups"):
            return BoundMethod("py", lambda fr2, args, kwargs, node2, _a=a: getattr(m, _a)(*[x.c if isinstance(x, Aff) and x.is_const else x for x in args]), a)
        fr.unsupported(node, "attribute %s of a match object" % a)
    if isinstance(base, AStruct) and base.kind == "class-namespace":
        ci = base.fields["cls"]
        if a == "get":
            def ns_get(fr2, args, kwargs, node2):
                name = args[0]
                default = args[1] if len(args) > 1 else kwargs.get("default")
                if not isinstance(name, str):
                    fr2.unsupported(node2, "class namespace read under a non-constant name")
                stored = fr2.I.path.termeq.get(("class-store", ci.qualname, name), _MISSING)
                if stored is not _MISSING:
                    return stored
                if name in ci.attrs:
                    return fr2.getattr(ci, name, node2)
                return default
            return BoundMethod("py", ns_get, a)
        fr.unsupported(node, "class namespace used through .%s" % a)
    if isinstance(base, AStruct):
        if base.kind == "slice":
            if a in ("start", "stop"):
                return base.fields["lo" if a == "start" else "hi"]
            if a == "step":
                return base.fields.get("step")
            fr.unsupported(node, "attribute %s of a slice" % a)
        if a in base.fields:
            return base.fields[a]
        if base.kind in ("FeatureLocation", "CompoundLocation", "Location") and a == "parts":
            pv = base.fields.get("parts_value")
            return pv if pv is not None else AList([base])
        if base.kind == "Location" and a in ("strand", "ref", "ref_db"):
            # "some location" that is a simple one on this path: these are the attributes of its only part
            pv = base.fields.get("parts_value")
            if isinstance(pv, AList) and not pv.generic and len(pv.items) == 1 and isinstance(pv.items[0], AStruct) and a in pv.items[0].fields:
                return pv.items[0].fields[a]
        return Term(a, _t(base))
    if isinstance(base, AFeatList):
        if a in ("append", "extend"):
            return BoundMethod("features", base.rec, a)
    if isinstance(base, AList):
        return BoundMethod("alist", base, a)
    if isinstance(base, Term):
        if base.op == "compsite" and a in REGEX_METHODS:
            return BoundMethod("term", base, a)
        return BoundMethod("term", base, a) if a in TERM_METHODS else Term(a, base)
    if isinstance(base, (AMap, AMapGen)):
        return BoundMethod("map", base, a)
    if isinstance(base, dict):
        return BoundMethod("dict", base, a)
    if isinstance(base, str):
        return BoundMethod("str", base, a)
    if isinstance(base, AExc):
        if a == "args":
            return tuple(base.args)
        if a in base.kwargs:
            return base.kwargs[a]
    if isinstance(base, AListMap):
        return BoundMethod("alistmap", base, a)
    if isinstance(base, ACollection):
        return BoundMethod("coll", base, a)
    if isinstance(base, (ARec, ASeq)) and not _lib_has_attr(base, a):
        # T3: the attribute is neither a member of the library class nor set on the object in this path
        kind = ("CircularRecord" if base.circular else "SeqRecord") if isinstance(base, ARec) else ("Seq" if base.kind == "Seq" else base.kind)
        raise RaiseSig(AExc("AttributeError", ["'%s' object has no attribute '%s'" % (kind, a)], {}))
    if (base is None or isinstance(base, (bool, int))) and not isinstance(base, Aff) and not hasattr(base, a):
        # a truth value / None / a number where an object was meant (a walrus that lost its parentheses, ...)
        raise RaiseSig(AExc("AttributeError", ["'%s' object has no attribute '%s'" % (type(base).__name__, a)], {}))
    fr.unsupported(node, "attribute %s of %r" % (a, base))


_LIB_MEMBERS: Dict[str, set] = {}


def _lib_has_attr(base, a: str) -> bool:
    if isinstance(base, ARec):
        if "rec" not in _LIB_MEMBERS:
            from Bio.SeqRecord import SeqRecord

            _LIB_MEMBERS["rec"] = set(dir(SeqRecord)) | {"seq", "id", "name", "description", "dbxrefs", "features", "annotations",
                                                         "letter_annotations", "_seq", "_per_letter_annotations"}
        return a in _LIB_MEMBERS["rec"] or a in base.attrs
    if base.kind == "Seq":
        if "seq" not in _LIB_MEMBERS:
            from Bio.Seq import Seq

            _LIB_MEMBERS["seq"] = set(dir(Seq)) | {"_data"}
        return a in _LIB_MEMBERS["seq"]
    if base.kind == "str":
        return hasattr(str, a)
    if base.kind == "list":
        return hasattr(list, a)
    return True


REGEX_METHODS = {"finditer", "findall", "search", "match", "fullmatch", "split", "sub"}
TERM_METHODS = {
    "upper", "lower", "casefold", "reverse_complement", "complement", "format", "get", "setdefault", "append", "index",
    "find", "match", "group", "lower", "items", "values", "keys", "startswith", "strip", "splitlines", "pop",
    "extend", "insert", "remove", "join", "copy", "count", "add", "discard", "update", "sort",
}


def lib_call_method(fr: Frame, bm: BoundMethod, args, kwargs, node):
    I = fr.I
    t, name = bm.target, bm.name
    if bm.kind == "py":
        return t(fr, args, kwargs, node)
    if bm.kind == "rematch":
        idx = args[0] if args else 0
        if isinstance(idx, Aff) and idx.is_const:
            idx = idx.c
        a, b = t.span_of(idx)
        if name == "span":
            return (a, b)
        if name == "start":
            return a
        if name == "end":
            return b
        if name == "group":
            if isinstance(t.text, ASeq):
                return ASeq("str", I.slice_pieces(t.text.pieces, a, b))
            return Term("group", _t(t), _t(idx))
    if bm.kind == "seq":
        if name in ("upper", "lower"):
            return ASeq(t.kind, t.pieces, upper=(name == "upper"))
        if name in ("count", "find", "index", "rfind", "startswith", "endswith", "count_overlap"):
            I.path.effects.append(("text-search", name, bool(t.upper), args))
            if name in ("startswith", "endswith"):
                return ABoolTerm(name, t, *args)
            sym = Aff.sym("%s(%s)" % (name, ",".join(map(repr, args))))
            if name in ("count", "count_overlap"):
                I.path.cons.add(sym)
            return sym
        return Term(name, Term(repr(t)))
    if bm.kind == "rec":
        if name in ("upper", "lower"):
            return t
    if bm.kind == "enzyme":
        if name == "is_3overhang":
            return not t.five_prime
        if name == "is_5overhang":
            return t.five_prime
        if name in ("is_blunt", "is_unknown"):
            return False
        if name == "catalyse":
            I.path.effects.append(("catalyse", t, list(args), dict(kwargs)))
            return Term("fragments", *[_t(a) for a in args])
        if name == "search":
            # Bio.Restriction (T4): catalyse() cuts at the positions search() reports -- k positions, k + 1 fragments
            I.path.effects.append(("catalyse", t, list(args), dict(kwargs)))
            return AStruct("cut-sites", frags=Term("fragments", *[_t(a) for a in args]))
    if bm.kind == "features" and name == "append":
        t.added_features.append(args[0])
        I.path.effects.append(("append-feature", t, args[0]))
        return None
    if bm.kind == "term":
        if t.op == "compsite" and name in REGEX_METHODS:
            # Bio.Restriction's precompiled site pattern: a case-sensitive search of the text it is given (T4)
            up = bool(args) and isinstance(args[0], ASeq) and bool(args[0].upper)
            I.path.effects.append(("text-search", "compsite." + name, up, args))
            return Term(name, t, *[_t(a) for a in args])
        if name in ("upper", "lower", "casefold") and not args:
            if t.op in ("upper", "lower", "casefold"):
                return Term(name, t.args[0])
            return Term(name, t)
        if name == "search" and t.op == "search":
            return Term("sites", *[_t(a) for a in args])
        if name in ("append", "extend", "insert", "remove", "pop", "setdefault", "add", "discard", "update", "sort"):
            if name == "update" and kwargs:
                args = list(args) + [dict(kwargs)]  # mapping.update(key=value, ...) is update({key: value, ...})
            I.path.effects.append(("mutate", t, name, args))
            if name in ("append", "insert"):
                I.path.termeq[("appended", repr(t))] = I.path.termeq.get(("appended", repr(t)), 0) + 1
                if args:
                    I.path.termeq[("member", repr(t), repr(args[-1]))] = True
            if name == "setdefault":
                return Term("setdefault", t, *[_t(a) for a in args])
            return None
        if name == "index" and len(args) == 1:
            # list.index answers the membership question too: ValueError when the item is not there
            mk = ("member", repr(t), repr(args[0]))
            if mk not in I.path.termeq:
                I.path.termeq[mk] = I.path.choose("bool in(%r, %r)" % (args[0], t))
                I.path.effects.append(("contains", t, args[0], I.path.termeq[mk]))
            if not I.path.termeq[mk]:
                raise RaiseSig(AExc("ValueError", ["%r is not in list" % (args[0],)], {}))
            I.path.effects.append(("index-of", t, args[0]))
            return Aff.sym("index(%r,%r)" % (t, args[0]))
        if name == "find" and t.op == "setdefault" and t.args and repr(t.args[-1]) in ("[]", "Term([])"):
            raise RaiseSig(AExc("AttributeError", ["'list' object has no attribute 'find'"], {}))
        return Term(name, t, *[_t(a) for a in args])
    if bm.kind == "map":
        return map_method(fr, t, name, args, kwargs, node)
    if bm.kind == "dict":
        if name == "get":
            k = _hashable(args[0])
            if isinstance(k, Term) and k not in t and _const_keys(t):
                return Term("table-get", _table_term(t), k, _t(args[1] if len(args) > 1 else None))
            return t.get(k, args[1] if len(args) > 1 else None)
        if name == "setdefault":
            k = _hashable(args[0])
            return t.setdefault(k, args[1] if len(args) > 1 else None)
        if name == "pop":
            k = _hashable(args[0])
            if k in t:
                return t.pop(k)
            if len(args) > 1:
                return args[1]
            raise RaiseSig(AExc("KeyError", [args[0]], {}))
        if name in ("items", "keys", "values"):
            return list(getattr(t, name)())
        if name == "update":
            for a in args:
                if isinstance(a, dict):
                    t.update(a)
                else:
                    fr.unsupported(node, "dict.update with %r" % (a,))
            t.update(kwargs)
            return None
        if name == "copy" and not args:
            return dict(t)
    if bm.kind == "alist":
        if name == "translate" and len(args) == 1 and not kwargs and t.generic and len(t.items) == 1 and isinstance(t.items[0], Term) \
                and isinstance(args[0], dict) and args[0] and all(isinstance(k, int) and isinstance(v, str) for k, v in args[0].items()):
            # a text of arbitrary letters through str.translate with a table made by str.maketrans({letter: text}): every
            # letter x on its own, in order, becomes table.get(x, x)
            x = t.items[0]
            img = AList([Term("table-get", _table_term({chr(k): v for k, v in args[0].items()}), x, x)], t.depth, origin="translate:" + t.uid)
            img.generic, img.generic_from, img.min_len = True, 0, t.min_len
            return AJoin("", img)
        if name == "append":
            if t.depth < I.loop_depth and not t.generic:
                t.generic = True
                t.generic_from = len(t.items)
            t.items.append(args[0])
            I.path.effects.append(("mutate", t, "append", args))
            return None
        if name == "appendleft" and len(args) == 1 and not t.generic and t.depth >= I.loop_depth:
            t.items.insert(0, args[0])
            return None
        if name in ("popleft", "pop") and not args and not t.generic:
            if not t.items:
                raise RaiseSig(AExc("IndexError", ["pop from an empty %s" % ("deque" if name == "popleft" else "list")], {}))
            return t.items.pop(0 if name == "popleft" else -1)
        if name == "extend" and len(args) == 1 and isinstance(args[0], (list, tuple)):
            args = [AList(list(args[0]), I.loop_depth)]
        if name == "extend" and isinstance(args[0], AList):
            src = args[0]
            if src.generic and not t.generic:
                t.generic_from = len(t.items) + src.generic_from
            t.items.extend(src.items)
            t.generic = t.generic or src.generic or t.depth < I.loop_depth
            I.path.effects.append(("mutate", t, "extend", args))
            return None
        if name == "extend" and len(args) == 1:
            # the same list as `t + list(arg)`, in place
            both = fr.binop(ast.Add(), t, lib_call(fr, "builtins.list", [args[0]], {}, node), node)
            if isinstance(both, AList):
                t.items[:] = both.items
                t.generic, t.generic_from, t.min_len = both.generic, both.generic_from, both.min_len
                for extra in ("source", "filtered"):
                    if hasattr(both, extra):
                        setattr(t, extra, getattr(both, extra))
                I.path.effects.append(("mutate", t, "extend", args))
                return None
            if isinstance(args[0], Term) and not t.generic:
                # extended by the elements of an opaque collection (the values left in a map): some number of them
                t.generic_from = len(t.items)
                t.items.append(Term("each", args[0]))
                t.generic = True
                I.path.effects.append(("mutate", t, "extend", args))
                return None
        if name in ("index", "find", "count"):
            hook = I.hooks.get("list_method")
            if hook is not None:
                r = hook(fr, t, name, args, node)
                if r is not NotImplemented:
                    return r
            if name == "find":
                raise RaiseSig(AExc("AttributeError", ["'list' object has no attribute 'find'"], {}))
            if name == "index" and len(args) == 1:
                I.path.effects.append(("index-of", t, args[0]))
                return Aff.sym("index(%r,%r)" % (t, args[0]))
    if bm.kind == "str":
        if name == "format":
            if all(isinstance(a, (str, int)) for a in args) and not kwargs:
                return t.format(*args)
            if any(isinstance(a, Aff) for a in args):
                return AFormat(t, list(args), dict(kwargs))
            if kwargs:
                # the fields the template really uses, in order of appearance ({name} / {0} / {}): a value the template
                # does not mention does not reach the text
                import string as _string

                used, auto = [], 0
                try:
                    fields = list(_string.Formatter().parse(t))
                except ValueError:
                    fr.unsupported(node, "malformed format string %r" % (t,))
                for _lit, fname, spec, conv in fields:
                    if fname is None:
                        continue
                    if spec and "{" in spec:
                        fr.unsupported(node, "nested format spec in %r" % (t,))
                    if fname == "":
                        fname, auto = str(auto), auto + 1
                    if not re.fullmatch(r"[A-Za-z_]\w*|\d+", fname):
                        fr.unsupported(node, "format field %r with attribute or index access" % (fname,))
                    if fname.isdigit():
                        if int(fname) >= len(args):
                            raise RaiseSig(AExc("IndexError", ["Replacement index %s out of range for positional args tuple" % fname], {}))
                        used.append(args[int(fname)])
                    else:
                        if fname not in kwargs:
                            raise RaiseSig(AExc("KeyError", [fname], {}))
                        used.append(kwargs[fname])
                if all(isinstance(a, (str, int)) and not isinstance(a, bool) for a in used) and all(isinstance(a, (str, int)) for a in args) \
                        and all(isinstance(v_, (str, int)) or v_ not in used for v_ in kwargs.values()):
                    try:
                        return t.format(*args, **{k_: v_ for k_, v_ in kwargs.items() if isinstance(v_, (str, int))})
                    except (KeyError, IndexError, ValueError):
                        pass
                return Term("format", Term(repr(t)), *[_t(a) for a in used])
            return Term("format", Term(repr(t)), *[_t(a) for a in args])
        if name == "join":
            a0 = args[0]
            if isinstance(a0, AList) and not a0.generic and all(isinstance(x, str) for x in a0.items):
                return t.join(a0.items)
            if isinstance(a0, (list, tuple)) and all(isinstance(x, str) for x in a0):
                return t.join(a0)
            if isinstance(a0, AList):
                return AJoin(t, a0)
            return Term("join", Term(repr(t)), _t(a0))
        if name in ("lower", "upper") and not args:
            return getattr(t, name)()
        if name in ("replace", "strip", "lstrip", "rstrip", "split", "rsplit", "startswith", "endswith", "find", "rfind", "index", "count",
                    "translate", "isupper", "islower", "isdigit", "isalpha", "title", "capitalize", "casefold", "swapcase", "partition",
                    "rpartition", "zfill", "ljust", "rjust", "center", "splitlines", "expandtabs") and not kwargs \
                and all(_concrete(a) for a in args):
            # a pure method of a constant string on constant arguments
            try:
                res = getattr(t, name)(*[a.c if isinstance(a, Aff) else a for a in args])
            except (ValueError, TypeError, IndexError) as exc:
                raise RaiseSig(AExc(type(exc).__name__, [str(exc)], {}))
            return AList(list(res), I.loop_depth) if isinstance(res, list) else res
    if bm.kind == "lib-super":
        return lib_super_call(fr, t, name, args, kwargs, node)
    if bm.kind == "coll":
        return Term(name, Term(t.name), *[_t(a) for a in args])
    fr.unsupported(node, "method %s of %r" % (name, t))


def lib_super_call(fr: Frame, rec, name: str, args, kwargs, node):
    hook = fr.I.hooks.get("lib_super")
    if hook is not None:
        r = hook(fr, rec, name, args, kwargs, node)
        if r is not NotImplemented:
            return r
    if name == "__new__":
        return rec
    if name == "__init__" and isinstance(rec, AObj) and rec.name.startswith("exc:"):
        # BaseException.__init__ keeps its arguments in .args
        rec.attrs["args"] = tuple(args)
        return None
    fr.unsupported(node, "super().%s on a library base" % name)


def map_getitem(fr: Frame, m: AMap, key):
    I = fr.I
    given = key  # (a KeyError carries the key object it was asked for)
    key = I.key_of(key)
    if isinstance(key, Term):
        for k in m.removes:
            if k == key:
                raise RaiseSig(AExc("KeyError", [key], {}))
        for k, v in reversed(m.adds):
            if isinstance(k, Term) and k == key:
                return v
    known = m.known.get(repr(key))
    if known is None:
        known = I.path.choose("getitem %s[%r]" % (m.base, key), ["hit", "miss"]) == "hit"
        m.known[repr(key)] = known
    I.path.effects.append(("map-getitem", m.base, key))
    if known:
        return m.value_for(key)
    raise RaiseSig(AExc("KeyError", [given], {}))


def map_method(fr: Frame, m, name, args, kwargs, node):
    I = fr.I
    if isinstance(m, AMap) and name in ("__len__", "__getitem__", "__contains__", "__iter__", "__setitem__") and not kwargs:
        # the operators spelled as method calls
        if name == "__len__" and not args:
            return lib_call(fr, "builtins.len", [m], {}, node)
        if name == "__getitem__" and len(args) == 1:
            return map_getitem(fr, m, args[0])
        if name == "__contains__" and len(args) == 1:
            res = I.contains(m, args[0])
            return res
        if name == "__iter__" and not args:
            return m
        if name == "__setitem__" and len(args) == 2:
            key = I.key_of(args[0], node)
            I.path.effects.append(("map-store", m.base, key, args[1], m.known.get(repr(key))))
            m.adds.append((key, args[1]))
            return None
    given = args[0] if args else None
    if name in ("setdefault", "get", "pop") and args:
        args = [I.key_of(args[0], node)] + list(args[1:])
    if isinstance(m, AMapGen):
        if name in ("items",):
            return Term("items", m)
        if name in ("keys", "values") and not args:
            return AMapGenView(m, name)
        fr.unsupported(node, "method %s of generic dict" % name)
    if name == "setdefault":
        key, val = args[0], args[1] if len(args) > 1 else None
        I.path.effects.append(("map-setdefault", m.base, key, val))
        c = I.path.choose("setdefault %r" % (key,), ["absent", "present-same", "present-other"])
        if c == "absent":
            m.adds.append((key, val))
            return val
        # the key is there (and stays): a later subscript / get / pop of the same key finds it
        m.known[repr(key)] = True
        if c == "present-same":
            return val
        return m.value_for(key)
    if name == "get":
        key = args[0]
        default = args[1] if len(args) > 1 else None
        I.path.effects.append(("map-get", m.base, key))
        if isinstance(key, Term):
            for k, v in reversed(m.adds):
                if isinstance(k, Term) and k == key and key not in m.removes:
                    return v
        kk = repr(key)
        if kk not in m.known:
            # one decision per key and path: a later subscript / pop of the same key agrees with this lookup
            m.known[kk] = I.path.choose("get %r" % (key,), ["hit", "miss"]) == "hit"
        if m.known[kk]:
            return m.value_for(key)
        return default
    if name == "pop":
        key = args[0]
        I.path.effects.append(("map-pop", m.base, key))
        kk = repr(key)
        if kk in m.known:
            c = "hit" if m.known[kk] else "miss"
            I.path.choices.append(("pop %r" % (key,), c))
        else:
            c = I.path.choose("pop %r" % (key,), ["hit", "miss"])
        m.known[kk] = False
        if c == "hit":
            m.removes.append(key)
            return m.value_for(key)
        if len(args) > 1:
            return args[1]
        raise RaiseSig(AExc("KeyError", [given], {}))
    if name == "update" and len(args) == 1 and not kwargs and isinstance(args[0], AList):
        # update(pairs): one store per pair, whatever is there already (a pair that only exists because its key was found
        # absent a moment ago -- a filtered generator -- is a store under a key known to be absent)
        for pair in args[0].items:
            if not (isinstance(pair, tuple) and len(pair) == 2):
                fr.unsupported(node, "dict.update with something other than (key, value) pairs")
            k, v = I.key_of(pair[0], node), pair[1]
            I.path.effects.append(("map-store", m.base, k, v, m.known.get(repr(k))))
            m.adds.append((k, v))
        if getattr(args[0], "_one_shot", None):
            args[0]._consumed = True
        return None
    if name == "values":
        return Term("values", Term(repr(m)))
    if name == "keys":
        return m
    if name == "items":
        return AMapView(m, "items")
    fr.unsupported(node, "dict method %s" % name)


def lib_call(fr: Frame, dotted: str, args, kwargs, node):
    I = fr.I
    hook = I.hooks.get("lib_call")
    if hook is not None:
        r = hook(fr, dotted, args, kwargs, node)
        if r is not NotImplemented:
            return r
    if dotted == "types.MappingProxyType" and len(args) == 1 and not kwargs:
        return args[0]  # a read-only view: every read gives what the mapping gives (nothing in reach writes through a view)
    if dotted == "collections.OrderedDict" and (not args or not (isinstance(args[0], AList) and not args[0].generic)):
        dotted = "builtins.dict"  # insertion-ordered like every dict of the interpreters the library supports
    short = dotted.split(".")[-1]
    if dotted == "typing.cast" and len(args) == 2:
        return args[1]
    if dotted in ("builtins.classmethod", "builtins.staticmethod") and len(args) == 1 and isinstance(args[0], (ALambda, FuncInfo)):
        return args[0]  # the binding it adds is known from the class table (where the name is looked up)
    if dotted in ("typing.TypeVar", "typing.NewType", "typing.ParamSpec"):
        return AStruct("type-expression", of=dotted)
    if dotted == "builtins.bool" and len(args) <= 1 and not kwargs:
        if not args:
            return False
        if isinstance(args[0], ABoolTerm):
            return args[0]
        return I.truth(args[0], node)
    if dotted == "builtins.len":
        v = args[0]
        if isinstance(v, (ASeq, ARec)):
            return I.seq_len(v.pieces)
        if isinstance(v, (list, tuple, str, dict)):
            return len(v)
        if isinstance(v, AList):
            if not v.generic:
                return len(v.items)
            t = Aff.sym("len:list@%s" % v.uid)
            I.path.cons.add(t - v.min_len)
            return t
        if isinstance(v, Term):
            t = Aff.sym("len(%r)" % (v,))
            I.path.cons.add(t)
            # the symbol is the length the list had when the path first met it: appends made since then count
            return t + I.path.termeq.get(("appended", repr(v)), 0)
        if isinstance(v, AMap):
            t = Aff.sym("len:map:%s" % v.base)
            I.path.cons.add(t)
            I.path.effects.append(("map-len", v.base))
            return t
        if isinstance(v, AObj) and isinstance(v.cls, ClassInfo):
            owner, raw = I.p.class_attr_def(v.cls, "__len__")
            if isinstance(raw, FuncInfo):
                return I.call_function(raw, [v], {}, node)
        if isinstance(v, ACollection):
            t = Aff.sym("len:coll:%s" % v.name)
            I.path.cons.add(t)
            return t
        if isinstance(v, AFeatList):
            t = Aff.sym("len:features(%r)" % (v.rec.ident,))
            I.path.cons.add(t)
            return t
        if isinstance(v, AStruct) and v.kind == "cut-sites":
            t = Aff.sym("len(%r)" % (v.fields["frags"],))
            I.path.cons.add(t - 1)
            return t - 1
        if isinstance(v, AStruct) and v.kind in ("Location", "FeatureLocation"):
            # Biopython (T3): the number of positions a location covers -- end - start for a single part
            pv = v.fields.get("parts_value")
            if v.kind == "FeatureLocation" or (isinstance(pv, AList) and not pv.generic and len(pv.items) == 1):
                return Aff.of(v.fields["end"]) - Aff.of(v.fields["start"])
            t = Aff.sym("len:location")
            I.path.cons.add(t)
            return t
        fr.unsupported(node, "len of %r" % (v,))
    if dotted in ("builtins.str", "builtins.repr", "builtins.format") and args and is_enum_member(args[0]):
        v = args[0]
        info_ = I.p.enum_info(v.cls)
        if any(isinstance(I.p.class_attr_def(v.cls, sp)[1], FuncInfo) for sp in ("__str__", "__repr__", "__format__")):
            fr.unsupported(node, "text of a member of an enumeration that defines its own __str__ / __repr__ / __format__")
        if short == "repr":
            return "<%s.%s: %r>" % (v.cls.name, v.attrs["name"], v.attrs["value"])
        # (Python >= 3.12: str() and format() give "Class.NAME" also when a type is mixed in; StrEnum gives the value)
        return v.attrs["value"] if info_["str_enum"] else "%s.%s" % (v.cls.name, v.attrs["name"])
    if dotted == "builtins.str":
        v = args[0]
        if isinstance(v, ASeq):
            return ASeq("str", v.pieces, v.upper)
        if isinstance(v, (str, int)):
            return str(v)
        if isinstance(v, Term):
            return Term("str", v)
        if isinstance(v, ARec):
            fr.unsupported(node, "str() of a record")
    if dotted == "builtins.int":
        v = args[0]
        if isinstance(v, Term):
            return Aff.sym("int(%r)" % (v,))
        if isinstance(v, (int, str)):
            return int(v)
    if dotted in ("typing.NamedTuple", "collections.namedtuple") and len(args) >= 2 and isinstance(args[0], str):
        spec = args[1]
        if isinstance(spec, AList):
            spec = list(spec.items)
        if isinstance(spec, str):
            fields = spec.replace(",", " ").split()
        else:
            fields = [x[0] if isinstance(x, (tuple, list)) else x for x in spec]
        if not all(isinstance(x, str) for x in fields):
            fr.unsupported(node, "namedtuple fields %r" % (spec,))
        return ANTType(args[0], fields)
    if dotted in ("re.match", "re.search", "re.fullmatch") and len(args) >= 2 and isinstance(args[0], str):
        import re as _re

        if isinstance(args[1], str) and all(isinstance(a, int) for a in args[2:]):
            m = getattr(_re, short)(args[0], args[1], *args[2:])  # a pure library function of constants
            return None if m is None else AStruct("re-match-const", m=m)
        if isinstance(args[1], (ASeq, ARec)):
            I.path.effects.append(("text-search", "re." + short, bool(getattr(args[1], "upper", False)), [args[0]]))
        return Term(short, Term(repr(args[0])), _t(args[1]))
    if dotted == "collections.deque" and len(args) <= 1 and not kwargs:
        out = AList(list(args[0].items) if args and isinstance(args[0], AList) and not args[0].generic else (list(args[0]) if args and isinstance(args[0], (list, tuple)) else []),
                    I.loop_depth, origin="deque")
        if args and not isinstance(args[0], (list, tuple)) and not (isinstance(args[0], AList) and not args[0].generic):
            fr.unsupported(node, "deque of %r" % (args[0],))
        return out
    if dotted in ("collections.OrderedDict", "builtins.dict") and len(args) == 1 and isinstance(args[0], AList) and not args[0].generic \
            and all(isinstance(x, tuple) and len(x) == 2 for x in args[0].items):
        d = {_hashable(k): v for k, v in args[0].items}
        d.update(kwargs)
        return d
    if dotted == "collections.OrderedDict" and not args:
        return dict(kwargs)
    if dotted == "builtins.slice" and 1 <= len(args) <= 3 and not kwargs:
        a = list(args)
        if len(a) == 1:
            a = [None, a[0]]
        return AStruct("slice", lo=a[0], hi=a[1], step=a[2] if len(a) > 2 else None)
    if dotted == "functools.partial" and args:
        return ACallable("partial", *args, **kwargs)
    if dotted == "functools.reduce" and len(args) == 3 and isinstance(args[1], AFragList):
        is_add = (isinstance(args[0], ACallable) and args[0].kind == "operator" and args[0].data and args[0].data[0] in ("add", "concat")) or (
            isinstance(args[0], LibRef) and args[0].dotted in ("operator.add", "operator.concat", "operator.__add__"))
        if not is_add:
            fr.unsupported(node, "a fold other than + over the list of fragments")
        return fr.binop(ast.Add(), args[2], args[1].rec, node)
    if dotted == "builtins.sum" and len(args) == 2 and isinstance(args[0], AFragList):
        return fr.binop(ast.Add(), args[1], args[0].rec, node)
    if dotted == "functools.reduce" and len(args) == 3 and isinstance(args[1], AGenCall):
        return fr.fold_generator(args[1], lambda acc, x: fr.call_value(args[0], [acc, x], {}, node), args[2], node)
    if dotted == "builtins.sum" and len(args) == 2 and isinstance(args[0], AGenCall):
        return fr.fold_generator(args[0], lambda acc, x: fr.binop(ast.Add(), acc, x, node), args[1], node)
    if dotted == "functools.reduce" and len(args) in (2, 3):
        seq = args[1]
        if isinstance(seq, AList) and not seq.generic:
            seq = list(seq.items)
        if not isinstance(seq, (list, tuple)):
            fr.unsupported(node, "reduce over %r" % (seq,))
        seq = list(seq)
        if len(args) == 3:
            acc = args[2]
        elif seq:
            acc, seq = seq[0], seq[1:]
        else:
            raise RaiseSig(AExc("TypeError", ["reduce() of empty iterable with no initial value"], {}))
        for x in seq:
            acc = fr.call_value(args[0], [acc, x], {}, node)
        return acc
    if dotted in ("operator.methodcaller", "operator.attrgetter", "operator.itemgetter") and args:
        if short != "itemgetter" and not all(isinstance(a, str) for a in (args if short == "attrgetter" else args[:1])):
            fr.unsupported(node, "%s with a non-constant name" % short)
        return ACallable(short, *args, **kwargs)
    if dotted == "itertools.repeat" and len(args) == 1:
        return ARepeat(args[0])
    if dotted in ("builtins.map", "builtins.filter", "builtins.zip"):
        res = _map_filter_zip(fr, short, args, node)
        if isinstance(res, AList):
            res._one_shot = short  # an iterator: whoever walks it first exhausts it
        return res
    if dotted == "contextlib.suppress":
        return AStruct("suppress", classes=list(args))
    if dotted == "contextlib.ExitStack" and not args and not kwargs:
        return AExitStack()
    if dotted == "builtins.isinstance":
        return lib_isinstance(fr, args[0], args[1], node)
    if dotted == "builtins.vars" and len(args) == 1 and isinstance(args[0], ClassInfo):
        return AStruct("class-namespace", cls=args[0])
    if dotted == "builtins.setattr" and len(args) == 3 and isinstance(args[0], ClassInfo) and isinstance(args[1], str):
        I.path.effects.append(("class-store", args[0].qualname, args[1], args[2]))
        I.path.termeq[("class-store", args[0].qualname, args[1])] = args[2]
        return None
    if dotted in ("builtins.getattr", "builtins.hasattr") and len(args) >= 2 and isinstance(args[1], str):
        try:
            v = fr.getattr(args[0], args[1], node)
        except NoSuchAttr:
            if short == "hasattr":
                return False
            if len(args) == 3:
                return args[2]
            raise
        except RaiseSig as rs:
            if rs.exc.name != "AttributeError":
                raise
            if short == "hasattr":
                return False
            if len(args) == 3:
                return args[2]
            raise
        return True if short == "hasattr" else v
    if dotted in ("builtins.min", "builtins.max") and len(args) == 2:
        a, b = args
        if isinstance(a, (Aff, int)) and isinstance(b, (Aff, int)):
            a, b = Aff.of(a), Aff.of(b)
            if b.co.get("MAXSIZE"):
                return a if short == "min" else b
            if a.co.get("MAXSIZE"):
                return b if short == "min" else a
            return I.amin(a, b) if short == "min" else I.amax(a, b)
    if dotted == "builtins.range":
        if len(args) == 1:
            return ARange(Aff.const(0), Aff.of(args[0]))
        if len(args) == 2:
            return ARange(Aff.of(args[0]), Aff.of(args[1]))
        fr.unsupported(node, "range with a step")
    if dotted == "builtins.type" and len(args) == 1:
        v = args[0]
        if isinstance(v, AObj):
            I.path.effects.append(("getattr", v.name, "type()"))
            return v.cls
        if isinstance(v, ARec):
            return RecType(v.circular)
        if isinstance(v, ANT):
            # the namedtuple's own class: calling it builds another instance
            if v._nt_class is not None:
                return v._nt_class
            return ANTType("namedtuple", v._nt_fields)
        return Term("type", _t(v))
    if dotted == "builtins.divmod" and len(args) == 2 and all(isinstance(a, (Aff, int)) and not isinstance(a, bool) for a in args):
        a, b = Aff.of(args[0]), Aff.of(args[1])
        if a.is_const and b.is_const and b.c != 0:
            return divmod(a.c, b.c)
        q = I.floordiv(a, b)
        return (q, a - b.scale(q))
    if dotted == "builtins.sum" and len(args) == 1 and isinstance(args[0], AList) and args[0].generic and args[0].items \
            and all(isinstance(x, int) and not isinstance(x, bool) and x == 1 for x in args[0].items) and not args[0].generic_from:
        # sum(1 for _ in <one image per element of a collection>): the number of elements
        src = getattr(args[0], "source", None) or args[0].uid
        t = Aff.sym("count(%s)" % src)
        I.path.cons.add(t)
        if getattr(args[0], "filtered", False):
            t = Aff.sym("count-filtered(%s)" % src)
            I.path.cons.add(t)
        return t
    if dotted == "builtins.sum" and len(args) == 1 and isinstance(args[0], Term) and args[0].op == "map" and repr(args[0].args[1]) == "1":
        # sum(1 for _ in xs): a count
        t = Aff.sym("count(%r)" % (args[0].args[0],))
        I.path.cons.add(t)
        return t
    if dotted == "builtins.reversed" and len(args) == 1 and isinstance(args[0], Term):
        return Term("reversed", args[0])
    if dotted == "builtins.reversed" and len(args) == 1 and isinstance(args[0], ARange):
        return ARange(args[0].lo, args[0].hi, desc=not args[0].desc)
    if dotted == "builtins.set" and not args:
        return I.new_term("set")
    if dotted == "builtins.tuple" and len(args) == 1 and (isinstance(args[0], (list, tuple)) or (isinstance(args[0], AList) and not args[0].generic)):
        return tuple(args[0].items if isinstance(args[0], AList) else args[0])
    if dotted == "builtins.tuple" and len(args) == 1 and isinstance(args[0], AList) and args[0].generic and not getattr(args[0], "_consumed", False):
        # one image per element of an input collection, frozen: walked like the list it was made from (tuples of that kind
        # are only iterated, measured and unpacked by the code under analysis)
        src = args[0]
        if getattr(src, "_one_shot", None):
            src._consumed = True
        out = AList(list(src.items), I.loop_depth)
        out.generic, out.generic_from, out.min_len = src.generic, src.generic_from, src.min_len
        for extra in ("source", "filtered"):
            if hasattr(src, extra):
                setattr(out, extra, getattr(src, extra))
        return out
    if dotted in ("builtins.tuple", "builtins.list") and len(args) == 1 and not kwargs and isinstance(args[0], (AMap, AMapView)):
        # a snapshot of the keys / items of a symbolic table, walked like the table itself (every element is an entry of it)
        out = AMapView(args[0], "keys") if isinstance(args[0], AMap) else AMapView(args[0].m, args[0].which)
        if isinstance(out.m, AMap):
            out.stamp = (len(out.m.adds), len(out.m.removes))  # (a copy: it keeps what the table held at this point)
        return out
    if dotted in ("builtins.tuple", "builtins.list") and len(args) == 1 and isinstance(args[0], Term) and args[0].op == "concat" \
            and getattr(args[0], "operands", None):
        out = Term("concat", *args[0].args)  # a copy (frozen or not) of the joined sequence: the same elements in the same order
        out.operands = args[0].operands
        return out
    if dotted == "builtins.frozenset" and len(args) == 1 and not kwargs:
        src_ = args[0].items if isinstance(args[0], AList) and not args[0].generic else args[0]
        if isinstance(src_, (list, tuple, frozenset, dict)) and all(isinstance(x, (str, int)) and not isinstance(x, bool) for x in src_):
            return frozenset(src_)  # a constant set of names: membership of a constant in it is decided, not assumed
    if dotted in ("builtins.sorted", "builtins.set", "builtins.frozenset", "builtins.tuple") and len(args) >= 1:
        return Term(short, _t(args[0]))
    if dotted == "builtins.next" and args and isinstance(args[0], Term) and args[0].op in ("filter", "map"):
        # the first element of a lazily filtered / mapped input collection: there may be none
        if I.path.choose("next-of %r" % (args[0],), ["found", "exhausted"]) == "found":
            return Term("first", args[0])
        if len(args) > 1:
            return args[1]
        raise RaiseSig(AExc("StopIteration", [], {}))
    if dotted == "builtins.next" and args and isinstance(args[0], AScan):
        if args[0].items:
            return args[0].items[0]
        if len(args) > 1:
            return args[1]
        raise RaiseSig(AExc("StopIteration", [], {}))
    if dotted == "builtins.next" and args and isinstance(args[0], AList) and args[0].generic:
        lst = args[0]
        reps = lst.items[lst.generic_from:] or lst.items
        if lst.generic_from > 0:
            return lst.items[0]
        if reps:
            # the representative iteration did yield on this path: the first element exists (as for a lazy scan)
            return reps[0]
        if len(args) > 1:
            return args[1]
        raise RaiseSig(AExc("StopIteration", [], {}))
    if dotted == "builtins.next" and args and isinstance(args[0], AList) and not args[0].generic:
        if args[0].items:
            return args[0].items[0]
        if len(args) > 1:
            return args[1]
        raise RaiseSig(AExc("StopIteration", [], {}))
    if dotted == "builtins.iter" and len(args) == 1 and isinstance(args[0], (AList, ACollection)):
        return args[0]
    if dotted == "itertools.chain":
        items, generic, gfrom = [], False, None
        for a in args:
            if isinstance(a, AList):
                if a.generic and gfrom is None:
                    gfrom = len(items) + a.generic_from
                items.extend(a.items)
                generic = generic or a.generic
            elif isinstance(a, (list, tuple, str)):
                items.extend(list(a))
            elif isinstance(a, ACollection):
                # an input collection chained with other things: a one-shot iterator over "all of them"
                hook = I.hooks.get("concat")
                merged = hook(fr, a, args[-1], node) if hook is not None else NotImplemented
                if merged is NotImplemented or merged is None:
                    merged = ACollection("chain(%s)" % a.name, a.make_elem)
                return AIter(merged, "itertools.chain")
            else:
                fr.unsupported(node, "itertools.chain of %r" % (a,))
        out = AList(items, I.loop_depth)
        out.generic = generic
        out.generic_from = gfrom or 0
        return out
    if dotted == "builtins.id" and len(args) == 1:
        return Term("id()", _t(args[0]))
    if dotted == "builtins.enumerate" and args and (isinstance(args[0], (list, tuple)) or (isinstance(args[0], AList) and not args[0].generic)):
        start = kwargs.get("start", args[1] if len(args) > 1 else 0)
        if isinstance(start, Aff) and start.is_const:
            start = start.c
        if isinstance(start, int):
            items = list(args[0].items if isinstance(args[0], AList) else args[0])
            return AList([(start + i, x) for i, x in enumerate(items)], I.loop_depth)
    if dotted == "builtins.enumerate":
        start = args[1] if len(args) > 1 else kwargs.get("start", 0)
        if isinstance(start, Aff) and start.is_const:
            start = start.c
        if start == 0 and isinstance(start, int):
            return Term("enumerate", _t(args[0]))
        return Term("enumerate", _t(args[0]), Term("start=%r" % (start,)))
    if dotted == "builtins.str.maketrans" and args and not kwargs and all(_concrete(a) for a in args):
        try:
            return str.maketrans(*args)
        except (ValueError, TypeError) as exc:
            raise RaiseSig(AExc(type(exc).__name__, [str(exc)], {}))
    if dotted == "builtins.issubclass" and len(args) == 2 and isinstance(args[0], ClassInfo):
        others = args[1] if isinstance(args[1], tuple) else (args[1],)
        if all(isinstance(x, ClassInfo) for x in others):
            return any(I.p.is_subclass(args[0], x) for x in others)
    if dotted == "logging.getLogger":
        return AStruct("logger")  # what is logged does not reach any result (the arguments were evaluated already)
    if dotted.startswith("logging.") and short in ("debug", "info", "warning", "error", "exception", "critical", "log"):
        return None
    if dotted == "builtins.dict":
        if len(args) == 1 and not kwargs and isinstance(args[0], Term) and args[0].op == "items" and args[0].args and isinstance(args[0].args[0], AMapGen):
            return AMapGen(args[0].args[0].name, args[0].args[0].value)
        if not args and not kwargs:
            return {}
        if len(args) == 1 and not kwargs and isinstance(args[0], AMap):
            # a shallow copy of a symbolic table: the same entries in a new object
            src = args[0]
            out = AMap("copy-of:" + src.base, adds=list(src.adds), removes=list(src.removes), make_value=src.make_value)
            out.values_cache, out.known = src.values_cache, dict(src.known)
            I.path.effects.append(("map-copy", src.base))
            return out
        if not args and kwargs:
            return dict(kwargs)  # dict(a=x, b=y)
        if len(args) == 1 and isinstance(args[0], dict):
            out = dict(args[0])  # a shallow copy: nested values stay shared
            out.update(kwargs)
            return out
        if len(args) == 1 and isinstance(args[0], (tuple, list)) and all(isinstance(x, (tuple, list)) and len(x) == 2 for x in args[0]):
            out = {_hashable(k): v for k, v in args[0]}  # dict(pairs, extra=...)
            out.update(kwargs)
            return out
        if len(args) == 1 and isinstance(args[0], Term):
            return Term("shallow-copy", args[0])
    if dotted == "builtins.list" and len(args) == 1 and isinstance(args[0], Term) and args[0].op not in ("values", "keys", "items", "map", "filter", "sorted", "enumerate"):
        return Term("shallow-copy", args[0])
    if dotted == "builtins.list":
        if not args:
            return AList([], I.loop_depth)
        if isinstance(args[0], (list, tuple)):
            return AList(list(args[0]), I.loop_depth)
        if isinstance(args[0], AList):
            src = args[0]
            out = AList(list(src.items), I.loop_depth)
            out.generic, out.generic_from, out.min_len = src.generic, src.generic_from, src.min_len
            for extra in ("source", "filtered"):
                if hasattr(src, extra):
                    setattr(out, extra, getattr(src, extra))  # still one image per element of the input collection
            return out
        return args[0]
    if dotted in ("builtins.ValueError", "builtins.TypeError", "builtins.KeyError", "builtins.RuntimeError",
                  "builtins.NotImplementedError", "builtins.IndexError", "builtins.AttributeError", "builtins.Exception"):
        return AExc(short, args, kwargs)
    if dotted == "six.raise_from":
        exc = args[0]
        raise RaiseSig(fr.as_exc(exc, node))
    if dotted == "six.iteritems" or dotted == "six.itervalues" or dotted == "six.iterkeys":
        v = args[0]
        which = short[4:]
        if isinstance(v, AMapGen) and which == "items":
            return Term("items", v)
        if isinstance(v, AMap):
            return AMapView(v, which)
        if isinstance(v, dict):
            return list(getattr(v, which)())
        if isinstance(v, Term):
            return Term(which, v)
        fr.unsupported(node, "six.%s of %r" % (short, v))
    if dotted == "warnings.warn":
        I.path.effects.append(("warn", args[0]))
        return None
    if dotted == "Bio.Seq.Seq":
        if args and isinstance(args[0], Term):
            return Term("Seq", args[0])
        if args and isinstance(args[0], str):
            if args[0] == "":
                return ASeq("Seq", [])
            return Term("Seq", Term(repr(args[0])))
        if args and isinstance(args[0], ASeq):
            return ASeq("Seq", args[0].pieces, args[0].upper)
    if dotted == "Bio.SeqRecord.SeqRecord":
        if not args and "seq" in kwargs:
            kwargs = dict(kwargs)
            args = [kwargs.pop("seq")]  # SeqRecord(seq=..., id=...)
        if args and isinstance(args[0], ARec):
            # Bio 1.88: "seq argument should be a Seq object"
            raise RaiseSig(AExc("TypeError", ["seq argument should be a Seq object"], {}))
        if args and isinstance(args[0], ASeq):
            out = ARec(False, args[0].pieces, Term("fresh-record"), ctor="SeqRecord")
            names = ["id", "name", "description", "dbxrefs", "features", "annotations", "letter_annotations"]
            for nme, v in zip(names, args[1:]):
                out.attrs[nme] = v
            out.attrs.update(kwargs)
            return out
    if dotted in ("Bio.SeqFeature.FeatureLocation", "Bio.SeqFeature.SimpleLocation"):
        # (SimpleLocation is the current name of the same class, T3)
        names = ["start", "end", "strand", "ref", "ref_db"]
        f = dict(zip(names, args))
        f.update(kwargs)
        return AStruct("FeatureLocation", **f)
    if dotted == "Bio.SeqFeature.CompoundLocation":
        return AStruct("CompoundLocation", parts_value=args[0], **kwargs)
    if dotted == "Bio.SeqFeature.SeqFeature":
        names = ["location", "type", "id", "qualifiers"]
        f = dict(zip(names, args))
        f.update(kwargs)
        return AStruct("SeqFeature", **f)
    if dotted == "re.compile" and args and isinstance(args[0], str):
        return AStruct("regex", pattern=args[0])
    if dotted.startswith("Bio.Restriction."):
        # a method of a concrete enzyme class: an uninterpreted library value
        return Term(short, Term(dotted.split(".")[-2]), *[_t(a) for a in args])
    if dotted == "copy.copy" and len(args) == 1:
        v = args[0]
        if isinstance(v, dict):
            return dict(v)
        if isinstance(v, ARec):
            out = ARec(v.circular, v.pieces, v.ident, deriv=("shallow-copy", v.deriv), ctor=v.ctor)
            out.attrs = dict(v.attrs)
            out.added_features = v.added_features  # the feature list is shared with the original
            return out
        if isinstance(v, AList):
            out = AList(list(v.items), I.loop_depth)
            out.generic = v.generic
            return out
        return Term("shallow-copy", _t(v))
    if dotted == "copy.deepcopy":
        v = args[0]
        if I.hooks.get("deepcopy_may_fail") and not isinstance(v, ASeq):
            # T1: deepcopy of a value holding something that cannot be copied (a lock, a generator, an open handle) raises
            if I.path.choose("deepcopy-fails", [False, True]):
                raise RaiseSig(AExc("TypeError", ["cannot pickle object"], {}))
        if isinstance(v, dict):
            return DCDict(v)
        if isinstance(v, ASeq):
            return v
        return Term("deepcopy", _t(v))
    fr.unsupported(node, "library call %s" % dotted)


TYPE_TAGS = {
    "Bio.SeqFeature.CompoundLocation": "CompoundLocation",
    "Bio.SeqFeature.SimpleLocation": "FeatureLocation",
    "Bio.SeqFeature.FeatureLocation": "FeatureLocation",
    "Bio.Seq.Seq": "Seq",
    "Bio.SeqRecord.SeqRecord": "SeqRecord",
    "six.string_types": "str",
    "six.text_type": "str",
    "six.integer_types": "int",
}


def _map_filter_zip(fr: Frame, which: str, args, node):
    """map / filter / zip, evaluated eagerly into the shapes a comprehension over the same iterables gives (a concrete
    list, a generic list with one representative image, or a lazy scan over a range)."""
    I = fr.I
    if which == "filter":
        if len(args) != 2:
            fr.unsupported(node, "filter arguments")
        pred, it = args

        def keep(x):
            v = x if pred is None else fr.call_value(pred, [x], {}, node)
            return I.truth(v, node)

        if isinstance(it, AScan):
            return AScan([x for x in it.items if keep(x)])
        if isinstance(it, AList) and it.generic:
            out = AList([], I.loop_depth, origin=it.uid)
            out.generic, out.min_len, out.generic_from = True, 0, it.generic_from
            if getattr(it, "source", None):
                out.source, out.filtered = it.source, True
            for i, x in enumerate(it.items):
                if keep(x):
                    out.items.append(x)
            return out
        if isinstance(it, AList):
            it = list(it.items)
        if isinstance(it, str):
            it = list(it)
        if isinstance(it, dict):
            it = list(it.keys())
        if isinstance(it, (list, tuple)):
            return AList([x for x in it if keep(x)], I.loop_depth)
        if isinstance(it, (Term, ACollection)):
            return Term("filter", _t(it), _t(pred))
        fr.unsupported(node, "filter over %r" % (it,))
    f = args[0] if which == "map" else None
    its = list(args[1:] if which == "map" else args)
    if not its:
        fr.unsupported(node, "%s without iterables" % which)

    def image(elems):
        if which == "zip":
            return tuple(elems)
        return fr.call_value(f, list(elems), {}, node)

    finite = [x for x in its if not isinstance(x, ARepeat)]
    if not finite:
        fr.unsupported(node, "%s over endless iterables only" % which)
    # a dict described entry-wise: map over its values gives the values of the mapped dict; zip(keys, values') its items
    if which == "map" and len(its) == 1 and isinstance(its[0], AMapGenView) and its[0].which == "values":
        return AMapGenView(AMapGen(its[0].m.name, image([its[0].m.value])), "values")
    if which == "zip" and len(its) == 2 and isinstance(its[1], AMapGenView) and its[1].which == "values" and (
            (isinstance(its[0], AMapGenView) and its[0].which == "keys" and its[0].m.name == its[1].m.name)
            or (isinstance(its[0], AMapGen) and its[0].name == its[1].m.name)):
        return Term("items", its[1].m)
    # ranges: one generic position i; paired ranges advance together
    if all(isinstance(x, ARange) for x in finite):
        r0 = finite[0]
        if any(x.desc != r0.desc for x in finite):
            fr.unsupported(node, "%s over ranges of different directions" % which)
        I.path.effects.append(("loop", "range-desc" if r0.desc else "range", r0.lo, r0.hi))
        if not I.ge0(Aff.of(r0.hi) - Aff.of(r0.lo) - 1):
            return AScan([])
        i = Aff.sym("i")
        I.path.cons.add(i - Aff.of(r0.lo))
        I.path.cons.add(Aff.of(r0.hi) - i - 1)
        elems = []
        for x in its:
            if isinstance(x, ARepeat):
                elems.append(x.value)
            else:
                elems.append(i + (Aff.of(x.lo) - Aff.of(r0.lo)))
        return AScan([image(elems)])
    conc = []
    for x in its:
        if isinstance(x, ARepeat):
            conc.append(x)
        elif isinstance(x, AList) and not x.generic:
            conc.append(list(x.items))
        elif isinstance(x, (list, tuple)):
            conc.append(list(x))
        elif isinstance(x, str):
            conc.append(list(x))
        elif isinstance(x, dict):
            conc.append(list(x.keys()))
        else:
            conc = None
            break
    if conc is not None:
        n = min(len(c) for c in conc if not isinstance(c, ARepeat))
        return AList([image([(c.value if isinstance(c, ARepeat) else c[k]) for c in conc]) for k in range(n)], I.loop_depth)
    # one generic / opaque source (the others constant per element)
    gens = [x for x in finite if (isinstance(x, AList) and x.generic) or isinstance(x, (ACollection, Term, AFeatList))]
    if len(gens) == len(finite) and len({id(x) for x in gens}) == 1:
        src = gens[0]
        if isinstance(src, AFeatList):
            src = src.rec.attrs.get("feature_coll") or Term("features", src.rec.ident)
        if isinstance(src, AList):
            out = AList([], I.loop_depth, origin=src.uid)
            out.generic, out.min_len, out.generic_from = True, src.min_len, src.generic_from
            if getattr(src, "source", None):
                out.source, out.filtered = src.source, getattr(src, "filtered", False)
            I.loop_depth += 1
            try:
                for x in src.items:
                    out.items.append(image([(c.value if isinstance(c, ARepeat) else x) for c in its]))
            finally:
                I.loop_depth -= 1
            return out
        if isinstance(src, ACollection):
            elem = src.make_elem()
            I.loop_depth += 1
            try:
                val = image([(c.value if isinstance(c, ARepeat) else elem) for c in its])
            finally:
                I.loop_depth -= 1
            out = AList([val], I.loop_depth, origin="map:%s" % src.name)
            out.generic = True
            out.source = src.name
            out.filtered = False
            return out
        elem = I.new_term("elem")
        val = image([(c.value if isinstance(c, ARepeat) else elem) for c in its])
        t = Term("map", src, _t(val), Term("over", elem))
        t._lazy = (src, elem, val)  # what one element maps to, for whoever walks this view in step with its source
        return t
    # several views of one opaque iterable walked in step: the iterable itself and images mapped from it
    def term_src(x):
        return x._lazy[0] if isinstance(x, Term) and getattr(x, "_lazy", None) else x

    if all(isinstance(x, Term) for x in finite) and len({repr(term_src(x)) for x in finite}) == 1:
        elem = I.new_term("elem")
        elems = []
        for x in its:
            if isinstance(x, ARepeat):
                elems.append(x.value)
            elif getattr(x, "_lazy", None):
                elems.append(subst_value(x._lazy[2], x._lazy[1], elem))
            else:
                elems.append(elem)
        val = image(elems)
        src = term_src(finite[0])
        t = Term("map", src, _t(val), Term("over", elem))
        t._lazy = (src, elem, val)
        return t
    # several views of one input collection, walked in step: the collection itself and lists mapped from it
    def src_name(x):
        if isinstance(x, AFeatList):
            coll = x.rec.attrs.get("feature_coll")
            return coll.name if isinstance(coll, ACollection) else None
        if isinstance(x, ACollection):
            return x.name
        if isinstance(x, AList) and x.generic and getattr(x, "source", None) and len(x.items) == 1 and not getattr(x, "filtered", False):
            return x.source
        if isinstance(x, Term) and getattr(x, "_coll", None):
            return x._coll[0]
        return None

    names = {src_name(x) for x in finite}
    if len(names) == 1 and None not in names:
        elems = []
        for x in its:
            if isinstance(x, ARepeat):
                elems.append(x.value)
            elif isinstance(x, AFeatList):
                elems.append(x.rec.attrs["feature_coll"].make_elem())
            elif isinstance(x, ACollection):
                elems.append(x.make_elem())
            elif isinstance(x, Term):
                elems.append(x._coll[2])
            else:
                elems.append(x.items[0])
        I.loop_depth += 1
        try:
            val = image(elems)
        finally:
            I.loop_depth -= 1
        out = AList([val], I.loop_depth, origin="map:%s" % names.copy().pop())
        out.generic = True
        out.source = names.pop()
        out.filtered = False
        return out
    fr.unsupported(node, "%s over %r" % (which, its))


def subst_value(v, old: Term, new):
    """v with every occurrence of the term `old` replaced by `new` (through tuples, lists, dicts, terms and structs)"""
    if isinstance(v, Term):
        if v == old:
            return new
        if not v.args:
            return v
        args = tuple(subst_value(a, old, new) for a in v.args)
        if all(a is b for a, b in zip(args, v.args)):
            return v
        t = Term(v.op, *args)
        return t
    if isinstance(v, tuple):
        return tuple(subst_value(x, old, new) for x in v)
    if isinstance(v, list):
        return [subst_value(x, old, new) for x in v]
    if isinstance(v, dict):
        return {k: subst_value(x, old, new) for k, x in v.items()}
    if isinstance(v, AStruct):
        return AStruct(v.kind, **{k: subst_value(x, old, new) for k, x in v.fields.items()})
    return v


def lib_isinstance(fr: Frame, v, t, node):
    I = fr.I
    ts = t if isinstance(t, tuple) else (t,)
    tags = set()
    if isinstance(v, ARec):
        tags = {"SeqRecord"} | ({"CircularRecord"} if v.circular else set())
    elif isinstance(v, ASeq):
        tags = {v.kind}
    elif isinstance(v, AObj):
        I.path.effects.append(("getattr", v.name, "isinstance()"))
        for x in ts:
            if isinstance(x, ClassInfo) and I.p.is_subclass(v.cls, x):
                return True
        return False
    elif isinstance(v, (str, int, list, tuple, dict)):
        tags = {type(v).__name__}
    elif isinstance(v, AList):
        tags = {"list"}
    elif isinstance(v, AStruct) and v.kind == "Location":
        # "some location": a join when it has several parts, else a simple one
        pv = v.fields.get("parts_value")
        tags = {"CompoundLocation"} if (isinstance(pv, AList) and (pv.generic or len(pv.items) > 1)) else {"FeatureLocation"}
    elif isinstance(v, AStruct):
        tags = {v.kind}
    elif isinstance(v, (Aff,)):
        tags = {"int"}
    elif isinstance(v, bool):
        tags = {"bool", "int"}
    elif v is None:
        tags = {"NoneType"}
    elif isinstance(v, (ClassInfo, RecType)):
        tags = {"type"}  # a class object
    elif isinstance(v, Term) and v.op == "letter":
        tags = {"str"}  # record[i] / seq[i] for an integer i: one letter
    elif isinstance(v, Term) and I.hooks.get("term_type") is not None and I.hooks["term_type"](v) is not None:
        tags = set(I.hooks["term_type"](v))  # a kernel's summary says what kind of library object the term stands for
    elif isinstance(v, Term):
        # an opaque value: one decision per (value, type test) and path
        key = ("isinstance", repr(v), repr(ts))
        if key not in I.path.termeq:
            I.path.termeq[key] = I.path.choose("isinstance %r %s" % (v, "/".join(getattr(x, "dotted", getattr(x, "qualname", repr(x))).split(".")[-1] for x in ts)))
        return I.path.termeq[key]
    else:
        fr.unsupported(node, "isinstance of %r" % (v,))
    for x in ts:
        if isinstance(x, LibRef):
            tag = TYPE_TAGS.get(x.dotted) or x.dotted.split(".")[-1]
            if tag in tags:
                return True
            if x.dotted == "builtins.slice":
                continue
        elif isinstance(x, ClassInfo):
            if x.qualname == "moclo.record.CircularRecord" and "CircularRecord" in tags:
                return True
        else:
            fr.unsupported(node, "isinstance against %r" % (x,))
    return False
