# coding: utf-8
"""Shared analysis context: program, folder, inventory (built lazily)."""
from __future__ import annotations

from .fold import Folder
from .kits import inventory, load_lettermap
from .loader import Program
from .report import Report


class Context(object):
    def __init__(self, pid: str, tier: str):
        self.pid = pid
        self.tier = tier
        self.program = Program()
        self.folder = Folder(self.program)
        self.report = Report(pid, tier)
        self._inv = None
        self._lm = None
        self.analysis_errors = []
        r = self.report
        r.analysed["repo"] = self.program.root
        r.analysed["modules_parsed"] = len(self.program.modules)
        r.analysed["classes_in_table"] = len(self.program.all_classes())
        r.analysed["source_digest"] = self.program.digest()[:16]

    def guard(self, fn, *args, **kw):
        """Run one step of a property check.  An analysis error in one step
        (unsupported construct, vanished anchor) does not hide what the other
        steps find: it is recorded and re-raised at the end only when no
        violation was found."""
        from .loader import AnalysisError

        try:
            return fn(*args, **kw)
        except AnalysisError as e:
            self.analysis_errors.append(str(e))
            return None

    @property
    def thorough(self) -> bool:
        return self.tier == "thorough"

    @property
    def inventory(self):
        if self._inv is None:
            self._inv = inventory(self.program, self.folder)
            self.report.analysed["structured_classes"] = len(self._inv)
            self.report.analysed["concrete_classes"] = sum(1 for k in self._inv if k.concrete)
        return self._inv

    @property
    def lettermap(self):
        if self._lm is None:
            self._lm = load_lettermap(self.program)
        return self._lm
