# coding: utf-8
"""Shared analysis context: program, folder, inventory (built lazily)."""
from __future__ import annotations

from .fold import Folder
from .kits import inventory, load_lettermap
from .loader import Program
from .report import Report


class Context(object):
    def __init__(self, pid: str, tier: str):
        self.pid = pid
        self.tier = tier
        self.program = Program()
        self.folder = Folder(self.program)
        self.report = Report(pid, tier)
        self._inv = None
        self._lm = None
        r = self.report
        r.analysed["repo"] = self.program.root
        r.analysed["modules_parsed"] = len(self.program.modules)
        r.analysed["classes_in_table"] = len(self.program.all_classes())
        r.analysed["source_digest"] = self.program.digest()[:16]

    @property
    def thorough(self) -> bool:
        return self.tier == "thorough"

    @property
    def inventory(self):
        if self._inv is None:
            self._inv = inventory(self.program, self.folder)
            self.report.analysed["structured_classes"] = len(self._inv)
            self.report.analysed["concrete_classes"] = sum(1 for k in self._inv if k.concrete)
        return self._inv

    @property
    def lettermap(self):
        if self._lm is None:
            self._lm = load_lettermap(self.program)
        return self._lm
