# coding: utf-8
"""Shared analysis context: program, folder, inventory (built lazily)."""
from __future__ import annotations

from .fold import Folder
from .kits import inventory, load_lettermap
from .loader import Program
from .report import Report


class Context(object):
    def __init__(self, pid: str, tier: str):
        self.pid = pid
        self.tier = tier
        self.program = Program()
        self.folder = Folder(self.program)
        self.folder.apply_class_creation_hooks()
        self.report = Report(pid, tier)
        self._inv = None
        self._lm = None
        self.analysis_errors = []
        self.established = set()  # lemmas (summaries of repo functions) discharged in this run
        r = self.report
        r.analysed["repo"] = self.program.root
        r.analysed["modules_parsed"] = len(self.program.modules)
        r.analysed["classes_in_table"] = len(self.program.all_classes())
        r.analysed["source_digest"] = self.program.digest()[:16]

    def guard(self, fn, *args, **kw):
        """Run one step of a property check.  An analysis error in one step
        (unsupported construct, vanished anchor) does not hide what the other
        steps find: it is recorded and re-raised at the end only when no
        violation was found."""
        from .decorators import StaticViolation
        from .loader import AnalysisError

        try:
            return fn(*args, **kw)
        except StaticViolation as e:
            self.report.ob("%s.%s" % (self.pid, e.rule), e.construct, False, e.detail, e.where)
            return None
        except AnalysisError as e:
            self.analysis_errors.append(str(e))
            return None

    def discharge_lemmas(self):
        """Kernels apply summaries of CircularRecord.__getitem__ (a slice is the
        library's linear slice) and of << / >> (rotation) instead of inlining
        them; whichever was used is proved in the same run."""
        from .absint import SUMMARIES_USED

        for name in sorted(SUMMARIES_USED - self.established):
            if name == "getitem":
                from .rules_flow import getitem_rule

                # as a lemma only what the slice summary states: the sub-sequence, the linear type, what is carried
                rule = "%s.lemma.getitem" % self.pid
                self.report.skip.update({rule + ".no-circular-claim", rule + ".deepcopy"})
                self.guard(getitem_rule, self, rule)
            elif name == "add-guard":
                from .rules_flow import add_guard_rule

                self.guard(add_guard_rule, self, "%s.lemma.add-guard" % self.pid)
            elif name == "shift":
                from .kernels import k3_rshift

                self.guard(k3_rshift, self, self.pid, which=("K3",))
            self.established.add(name)

    @property
    def thorough(self) -> bool:
        return self.tier == "thorough"

    @property
    def inventory(self):
        if self._inv is None:
            self._inv = inventory(self.program, self.folder)
            self.report.analysed["structured_classes"] = len(self._inv)
            self.report.analysed["concrete_classes"] = sum(1 for k in self._inv if k.concrete)
        return self._inv

    @property
    def lettermap(self):
        if self._lm is None:
            self._lm = load_lettermap(self.program)
        return self._lm
