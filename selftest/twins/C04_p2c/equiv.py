# coding: utf-8
"""Differential test for the C04 refactorings.

Run as: cd /tmp/agents5/C04 && /venv/bin/python pairs_out/C04_p2/equiv.py

Exercises structure(), is_valid(), overhang_start(), overhang_end(),
target_sequence(), placeholder_sequence(), assemble(), characterize() and the
DNA regex on a few thousand generated inputs and prints a digest of every
result / exception / warning / input state. The digest must be identical on
the pristine tree and with clean.diff applied.
"""
import sys

sys.path.insert(0, "/tmp/agents5/C04")
import tests  # noqa: F401,E402

import collections  # noqa: E402
import hashlib  # noqa: E402
import inspect  # noqa: E402
import random  # noqa: E402
import re  # noqa: E402
import warnings  # noqa: E402

from Bio.Seq import Seq  # noqa: E402
from Bio.SeqFeature import SeqFeature, FeatureLocation  # noqa: E402
from Bio.SeqRecord import SeqRecord  # noqa: E402
from Bio import Restriction  # noqa: E402

from moclo.record import CircularRecord  # noqa: E402
from moclo.regex import DNARegex  # noqa: E402
from moclo.core import modules, vectors, parts  # noqa: E402
from moclo.core._structured import StructuredRecord  # noqa: E402
from moclo.kits import ytk, cidar, ecoflex, moclo as moclokit, plant  # noqa: E402

RNG = random.Random(20240404)
LINES = []
COUNTS = collections.Counter()
ADDRESS = re.compile(r"0x[0-9a-fA-F]+")

IUPAC = {
    "A": "A", "C": "C", "G": "G", "T": "T",
    "B": "CGT", "D": "AGT", "H": "ACT", "K": "GT", "M": "AC", "N": "ACGT",
    "R": "AG", "S": "CG", "V": "ACG", "W": "AT", "Y": "CT",
}
COMMON_SITES = ["GGTCTC", "CGTCTC", "GAAGAC", "GCTCTTC"]


def rc(s):
    return str(Seq(s).reverse_complement())


def emit(category, *fields):
    COUNTS[category] += 1
    line = "\t".join([category] + [str(f) for f in fields])
    LINES.append(ADDRESS.sub("0x?", line))


def outcome(func, *args, **kwargs):
    """Call func, describe result / exception and the warnings it raised."""
    with warnings.catch_warnings(record=True) as caught:
        warnings.simplefilter("always")
        try:
            result = ("ok", describe(func(*args, **kwargs)))
        except Exception as exc:  # noqa
            result = ("exc", type(exc).__name__, str(exc))
    ws = [
        (type(w.message).__name__, str(w.message))
        for w in caught
        if "moclo" in type(w.message).__module__
    ]
    return result, ws


def describe_feature(f):
    quals = sorted((k, repr(v)) for k, v in f.qualifiers.items())
    return (f.type, str(f.location), f.id, quals)


def describe(obj):
    if isinstance(obj, SeqRecord):
        return (
            type(obj).__name__,
            str(obj.seq),
            obj.id,
            obj.name,
            obj.description,
            [describe_feature(f) for f in obj.features],
            sorted((k, repr(v)) for k, v in obj.annotations.items()),
            sorted((k, repr(v)) for k, v in obj.letter_annotations.items()),
        )
    if isinstance(obj, Seq):
        return ("Seq", str(obj))
    if isinstance(obj, StructuredRecord):
        return (type(obj).__name__, obj.record.id)
    return repr(obj)


def random_dna(n, forbidden):
    while True:
        s = "".join(RNG.choice("ACGT") for _ in range(n))
        if not any(site in s or rc(site) in s for site in forbidden):
            return s


def instantiate(pattern, forbidden, body_len=None):
    """Build a sequence matching a structure pattern; return (seq, body span)."""
    out = []
    i = 0
    body = (0, 0)
    while i < len(pattern):
        c = pattern[i]
        if c in "()":
            i += 1
        elif pattern.startswith("N*?", i) or pattern.startswith("N*", i):
            n = body_len if body_len is not None else RNG.randint(12, 40)
            start = sum(len(x) for x in out)
            out.append(random_dna(n, forbidden))
            body = (start, start + n)
            i += 3 if pattern.startswith("N*?", i) else 2
        elif c in IUPAC:
            out.append(RNG.choice(IUPAC[c]))
            i += 1
        else:
            raise ValueError("unexpected {!r} in {!r}".format(c, pattern))
    return "".join(out), body


def mixed_case(s):
    return "".join(c.lower() if RNG.random() < 0.4 else c for c in s)


def make_record(seq, rid, body=None, circular=True, topology=None, cite=False):
    annotations = {"molecule_type": "DNA"}
    if topology is not None:
        annotations["topology"] = topology
    features = []
    if body is not None and body[1] > body[0]:
        quals = {"label": ["body of {}".format(rid)]}
        if cite:
            quals["citation"] = ["[1]"]
            annotations["references"] = ["ref-{}".format(rid)]
        features.append(
            SeqFeature(FeatureLocation(body[0], body[1], 1), type="misc_feature", qualifiers=quals)
        )
        features.append(
            SeqFeature(FeatureLocation(0, len(seq), 1), type="source", qualifiers={"organism": ["x"]})
        )
    cls = CircularRecord if circular else SeqRecord
    return cls(Seq(seq), id=rid, name=rid, description="d", features=features, annotations=annotations)


def state(record):
    return (
        type(record).__name__,
        str(record.seq),
        [describe_feature(f) for f in record.features],
        sorted((k, repr(v)) for k, v in record.annotations.items()),
    )


def probe(category, cls, record, tag):
    """Record every observable of cls(record)."""
    before = state(record)
    try:
        entity = cls(record)
    except Exception as exc:  # noqa
        emit(category, cls.__name__, tag, "ctor", type(exc).__name__, str(exc))
        return None
    res = [outcome(entity.is_valid)]
    for name in ("overhang_start", "overhang_end", "target_sequence", "placeholder_sequence"):
        method = getattr(entity, name, None)
        if method is None:
            res.append("n/a")
        else:
            res.append(outcome(method))
            res.append(outcome(method))  # a second call sees the cached match
    res.append(outcome(entity.is_valid))
    emit(category, cls.__name__, tag, res, before == state(record), state(record))
    return entity


# --- classes under test -----------------------------------------------------

def kit_classes():
    found = []
    for kit in (ytk, cidar, ecoflex, moclokit, plant):
        for name, obj in sorted(vars(kit).items()):
            if (
                inspect.isclass(obj)
                and issubclass(obj, StructuredRecord)
                and obj.__module__ == kit.__name__
            ):
                found.append(obj)
    return found


def usable(cls):
    try:
        if cls.cutter is NotImplemented:
            return False
        cls.structure()
        return True
    except Exception:  # noqa
        return False


KIT_CLASSES = kit_classes()
ENZYMES = ["BsaI", "BsmBI", "BbsI", "BpiI", "SapI", "Esp3I", "BtgZI", "AarI", "BtsI", "BsrDI", "BseRI", "EcoRI", "EcoRV"]


def generic_classes():
    made = []
    for ename in ENZYMES:
        enz = getattr(Restriction, ename)
        n = abs(enz.ovhg) if enz.ovhg else 4
        sig = ("ACGT"[:n].ljust(n, "A"), "CATG"[:n].ljust(n, "C"))
        made.append(type(str("G{}Module".format(ename)), (modules.Entry,), {"cutter": enz}))
        made.append(type(str("G{}Vector".format(ename)), (vectors.EntryVector,), {"cutter": enz}))
        made.append(
            type(str("G{}PartM".format(ename)), (parts.AbstractPart, modules.Entry), {"cutter": enz, "signature": sig})
        )
        made.append(
            type(str("G{}PartV".format(ename)), (parts.AbstractPart, vectors.CassetteVector), {"cutter": enz, "signature": sig})
        )
    made.append(type(str("GNoCutter"), (modules.Entry,), {}))
    made.append(type(str("GNoSig"), (parts.AbstractPart, modules.Entry), {"cutter": Restriction.BsaI}))
    made.append(type(str("GNeither"), (parts.AbstractPart,), {"cutter": Restriction.BsaI, "signature": ("AAAA", "CCCC")}))
    return made


GENERIC_CLASSES = generic_classes()


# --- 1. structures ----------------------------------------------------------

for cls in KIT_CLASSES + GENERIC_CLASSES:
    emit("structure", cls.__module__, cls.__name__, outcome(cls.structure))

ALL_USABLE = [c for c in KIT_CLASSES + GENERIC_CLASSES if usable(c)]


# --- 2. well-formed constructs, rotations, letter case, record flavours -----

def forbidden_for(cls):
    return sorted(set(COMMON_SITES + [cls.cutter.site]))


CONSTRUCTS = {}
for cls in ALL_USABLE:
    forb = forbidden_for(cls)
    try:
        core, body = instantiate(cls.structure(), forb)
    except ValueError as err:
        emit("construct", cls.__name__, "uninstantiable", str(err))
        continue
    backbone = random_dna(RNG.randint(20, 50), forb)
    seq = core + backbone
    CONSTRUCTS[cls] = (seq, body, len(core))
    rec = make_record(seq, "r_" + cls.__name__, body)
    n = len(seq)
    rotations = sorted({0, 1, n - 1, RNG.randrange(n), RNG.randrange(n), n - body[0], n - body[1], n - len(core)})
    for r in rotations:
        probe("rotation", cls, rec >> r, "rot{}".format(r))
    probe("case", cls, make_record(mixed_case(seq), "mc", body) >> RNG.randrange(n), "mixed")
    probe("case", cls, make_record(seq.lower(), "lc", body), "lower")
    probe("flavour", cls, make_record(seq, "plain", body, circular=False), "SeqRecord")
    probe("flavour", cls, make_record(seq, "lin", body, circular=False, topology="linear"), "SeqRecord-linear")
    probe("flavour", cls, make_record(seq, "circ", body, circular=False, topology="Circular"), "SeqRecord-Circular")
    wrapped = seq[len(core) // 2:] + seq[: len(core) // 2]
    probe("flavour", cls, make_record(wrapped, "plainw", None, circular=False), "SeqRecord-wrapped")
    probe("flavour", cls, make_record(wrapped, "linw", None, circular=False, topology="linear"), "SeqRecord-linear-wrapped")
    probe("flavour", cls, make_record(wrapped, "circw", None, circular=True, topology="circular"), "Circular-wrapped")


# --- 3. every rotation of a few representative classes ----------------------

REPRESENTATIVES = [
    ytk.YTKPart3, ytk.YTKPart8, ytk.YTKProduct, ytk.YTKPart234r, cidar.CIDAREntryVector,
    cidar.CIDARCassetteVector, ecoflex.EcoFlexCassetteVector, ecoflex.EcoFlexDeviceVector,
    moclokit.MoCloCassetteVector, moclokit.MoCloEntryVector, moclokit.MoCloLevelMVector,
]
REPRESENTATIVES += [c for c in GENERIC_CLASSES if c.__name__ in ("GSapIModule", "GBtgZIVector", "GBtsIPartM", "GBseRIPartV", "GAarIPartV")]
for cls in REPRESENTATIVES:
    if cls not in CONSTRUCTS:
        continue
    seq, body, _ = CONSTRUCTS[cls]
    rec = make_record(seq, "all_" + cls.__name__, body)
    for r in range(len(seq)):
        probe("everyrot", cls, rec >> r, "rot{}".format(r))


# --- 4. malformed records: extra sites, mutated letters, neighbours ---------

for cls in ALL_USABLE:
    if cls not in CONSTRUCTS:
        continue
    seq, body, corelen = CONSTRUCTS[cls]
    site = cls.cutter.site
    mid = (body[0] + body[1]) // 2
    for tag, extra in (("fwd", site), ("rev", rc(site))):
        bad = seq[:mid] + extra + seq[mid:]
        probe("illegal", cls, make_record(bad, "ill", None) >> RNG.randrange(len(bad)), "inside-" + tag)
        bad = seq + extra + "ACCA"
        probe("illegal", cls, make_record(bad, "bb", None), "backbone-" + tag)
    for k in range(3):
        pos = RNG.randrange(corelen)
        mutated = seq[:pos] + RNG.choice([b for b in "ACGT" if b != seq[pos]]) + seq[pos + 1:]
        probe("mutated", cls, make_record(mutated, "mut", None), "pos{}".format(pos))
    withn = seq[:mid] + "N" + seq[mid + 1:]
    probe("mutated", cls, make_record(withn, "withn", None), "N-inside")
    for other in RNG.sample(ALL_USABLE, 4):
        probe("neighbour", other, make_record(seq, "nb", None), "record-of-" + cls.__name__)
probe("degenerate", ytk.YTKPart1, make_record("ATG", "tiny", None), "tiny")
probe("degenerate", ytk.YTKCassetteVector, make_record("A", "one", None), "one")


# --- 5. assemblies ----------------------------------------------------------

def chain(vcls, mcls, overhangs, rid, cite=False, lower=False, drop=None, dup=None, extra=None):
    """Build a vector + modules set whose overhangs chain o0 -> o1 ... -> o0."""
    vforb = forbidden_for(vcls)
    vpattern = vcls.structure()
    first, last = overhangs[0], overhangs[-1]

    def fill(pattern, up, down, forb):
        # replace the two (NNNN)-like overhang groups by concrete overhangs
        groups = []
        depth_start = None
        for i, c in enumerate(pattern):
            if c == "(":
                depth_start = i
            elif c == ")":
                groups.append((depth_start, i))
        g1, g3 = groups[0], groups[-1]
        pattern = pattern[: g3[0] + 1] + down + pattern[g3[1]:]
        pattern = pattern[: g1[0] + 1] + up + pattern[g1[1]:]
        return instantiate(pattern, forb)

    vseq, vbody = fill(vpattern, first, last, vforb)
    vseq += random_dna(30, vforb)
    vrec = make_record(mixed_case(vseq) if lower else vseq, rid + "_v", vbody, cite=cite)
    mods = []
    for k in range(len(overhangs) - 1):
        if drop == k:
            continue
        mseq, mbody = fill(mcls.structure(), overhangs[k], overhangs[k + 1], forbidden_for(mcls))
        mseq += random_dna(25, forbidden_for(mcls))
        mrec = make_record(mseq.lower() if lower and k % 2 else mseq, "{}_m{}".format(rid, k), mbody, cite=cite)
        mods.append(mcls(mrec >> RNG.randrange(len(mseq))))
        if dup == k:
            mods.append(mcls(make_record(mseq, "{}_dup{}".format(rid, k), mbody)))
    if extra is not None:
        mseq, mbody = fill(mcls.structure(), extra[0], extra[1], forbidden_for(mcls))
        mods.append(mcls(make_record(mseq + random_dna(20, forbidden_for(mcls)), rid + "_x", mbody)))
    return vcls(vrec >> RNG.randrange(len(vseq))), mods


def run_assembly(tag, vector, mods, **kwargs):
    before = [state(vector.record)] + [state(m.record) for m in mods]
    RNG.shuffle(mods)
    res = outcome(vector.assemble, *mods, **kwargs)
    after = [state(vector.record)] + [state(m.record) for m in mods]
    emit("assembly", tag, res, sorted(map(repr, before)) == sorted(map(repr, after)), after)


PAIRS = [
    (ytk.YTKCassetteVector, ytk.YTKEntry),
    (ytk.YTKEntryVector, ytk.YTKProduct),
    (cidar.CIDARCassetteVector, cidar.CIDAREntry),
    (cidar.CIDAREntryVector, cidar.CIDARProduct),
    (cidar.CIDARDeviceVector, cidar.CIDARCassette),
    (ecoflex.EcoFlexCassetteVector, ecoflex.EcoFlexEntry),
    (ecoflex.EcoFlexDeviceVector, ecoflex.EcoFlexCassette),
    (moclokit.MoCloCassetteVector, moclokit.MoCloEntry),
    (moclokit.MoCloEntryVector, moclokit.MoCloProduct),
    (moclokit.MoCloDeviceVector, moclokit.MoCloCassette),
]
OVH = ["AACG", "TATG", "ATCC", "GCTG", "TACA"]
for vcls, mcls in PAIRS:
    name = vcls.__name__
    if mcls is ytk.YTKProduct:
        continue  # fixed overhangs, cannot be chained freely
    for k in range(3):
        n = RNG.randint(2, len(OVH))
        v, ms = chain(vcls, mcls, OVH[:n], "{}{}".format(name, k), cite=(k == 1), lower=(k == 2))
        run_assembly("{}-ok{}".format(name, k), v, ms, **({"id": "X", "name": "Y"} if k == 1 else {}))
    v, ms = chain(vcls, mcls, OVH[:4], name + "miss", drop=1, cite=True)
    run_assembly(name + "-missing", v, ms)
    v, ms = chain(vcls, mcls, OVH[:4], name + "dup", dup=1)
    run_assembly(name + "-duplicate", v, ms)
    v, ms = chain(vcls, mcls, OVH[:3], name + "unused", extra=("TACA", "CCCT"))
    run_assembly(name + "-unused", v, ms)
    v, ms = chain(vcls, mcls, ["AACG", "TATG", "AACG"], name + "same")
    run_assembly(name + "-same-overhangs", v, ms)
    v, ms = chain(vcls, mcls, OVH[:3], name + "rc", extra=("CATA", "CCCT"))
    run_assembly(name + "-revcomp", v, ms)


# --- 6. characterize ---------------------------------------------------------

for base in (ytk.YTKPart, cidar.CIDARPart, ecoflex.EcoFlexPart, moclokit.MoCloPart):
    subs = [c for c in base.__subclasses__() if c in CONSTRUCTS]
    for cls in subs[:6]:
        seq = CONSTRUCTS[cls][0]
        emit("characterize", base.__name__, cls.__name__, outcome(base.characterize, make_record(seq, "chz", None)))
        emit("characterize", cls.__name__, cls.__name__, outcome(cls.characterize, make_record(seq, "chz", None)))
    emit("characterize", base.__name__, "none", outcome(base.characterize, make_record("ACGTACGTAA", "nope", None)))


# --- 7. the DNA regex itself -------------------------------------------------

def describe_match(m):
    if m is None:
        return None
    ngroups = m.match.re.groups
    return (
        m.start(), m.end(), m.shift,
        [(m.span(i), describe(m.group(i))) for i in range(ngroups + 1)],
    )


PATTERNS = ["AA(NN)", "GGTCTCN(NNNN)(NN*N)(NNNN)NGAGACC", "(A)(C*)(G)", "R(YY)K", "(AC)(GT)?(N)", "N(NNNN)(NGAGACCN*GGTCTCN)(NNNN)N"]
for p in PATTERNS:
    rx = DNARegex(p)
    emit("regex", p, rx.pattern, rx.regex.pattern)
    for k in range(25):
        n = RNG.randint(4, 60)
        s = "".join(RNG.choice("ACGT") for _ in range(n))
        if k % 3 == 0 and "GGTCTC" in p:
            s = instantiate(p, ["GGTCTC"], body_len=RNG.randint(0, 10))[0] + s[:10]
            cut = RNG.randrange(len(s))
            s = s[cut:] + s[:cut]
        if k % 4 == 0:
            s = mixed_case(s)
        subjects = [
            ("Seq", Seq(s), {}), ("Seq-circ", Seq(s), {"linear": False}),
            ("SeqRecord", SeqRecord(Seq(s), id="a"), {}), ("SeqRecord-circ", SeqRecord(Seq(s), id="a"), {"linear": False}),
            ("Circular", CircularRecord(Seq(s), id="a"), {}), ("Circular-lin", CircularRecord(Seq(s), id="a"), {"linear": True}),
            ("pos", Seq(s), {"pos": RNG.randrange(len(s)), "linear": False}),
            ("endpos", Seq(s), {"endpos": RNG.randrange(len(s) + 3), "linear": False}),
        ]
        for tag, subject, kw in subjects:
            with warnings.catch_warnings():
                warnings.simplefilter("ignore")
                try:
                    r = describe_match(rx.search(subject, **kw))
                except Exception as exc:  # noqa
                    r = (type(exc).__name__, str(exc))
            emit("regex", p, tag, s, sorted(kw.items()), r)
    emit("regex", p, "str", outcome(rx.search, "ACGT"))
    emit("regex", p, "None", outcome(rx.search, None))


# --- digest -------------------------------------------------------------------

blob = "\n".join(LINES).encode("utf-8")
if "--dump" in sys.argv:
    sys.stdout.write(blob.decode("utf-8") + "\n")
for category in sorted(COUNTS):
    sub = "\n".join(l for l in LINES if l.startswith(category + "\t")).encode("utf-8")
    print("{:<14}{:>6} cases  {}".format(category, COUNTS[category], hashlib.sha256(sub).hexdigest()[:16]))
print("TOTAL {} cases".format(len(LINES)))
print("DIGEST {}".format(hashlib.sha256(blob).hexdigest()))
