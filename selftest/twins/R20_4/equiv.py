# coding: utf-8
"""Differential test for the structure() string builders of moclo.

Run as:  cd /tmp/agentsR4/R20 && /venv/bin/python refactor_out/R20_<i>/equiv.py

Prints a sha256 digest over
  A. the pattern text of structure() for every class of the five kits and of
     the core (exceptions included, by type and message);
  B. the pattern text of structure() (and the compiled DNARegex pattern) of
     user-defined subclasses over EVERY enzyme of Bio.Restriction.AllEnzymes
     (products, entries, cassettes, devices, the three vector levels, parts
     that are modules, parts that are vectors, parts that are neither, bad
     signatures, missing cutters, subclasses of kit classes);
  C. the behaviour through the public API (is_valid, overhang_start,
     overhang_end, target_sequence, placeholder_sequence, assemble,
     characterize) on hundreds of generated records: rotated so that the match
     wraps the origin, rotation amounts negative or larger than the length,
     mixed letter case, linear topology, illegal extra sites, broken sites,
     duplicate / missing / unused modules, citations.
The digest must be identical on the pristine tree and with the patch applied.
"""
import sys

sys.path.insert(0, "/tmp/agentsR4/R20")
import tests  # noqa: E402,F401  (splices the kit packages into the moclo namespace)

import hashlib  # noqa: E402
import inspect  # noqa: E402
import random  # noqa: E402
import re  # noqa: E402
import warnings  # noqa: E402

from Bio.Restriction import AllEnzymes  # noqa: E402
from Bio import Restriction  # noqa: E402
from Bio.Seq import Seq  # noqa: E402
from Bio.SeqFeature import SeqFeature, FeatureLocation  # noqa: E402
from Bio.SeqRecord import SeqRecord  # noqa: E402

from moclo.record import CircularRecord  # noqa: E402
from moclo.core import parts, modules, vectors  # noqa: E402
from moclo.core._structured import StructuredRecord  # noqa: E402
from moclo.kits import ytk, cidar, ecoflex, plant  # noqa: E402
from moclo.kits import moclo as moclokit  # noqa: E402

RESULTS = []
_ADDR = re.compile(r"0x[0-9a-fA-F]+")


def scrub(text):
    return _ADDR.sub("0x", text)


def show(x):
    if isinstance(x, SeqRecord):
        return (
            "REC",
            type(x).__name__,
            str(x.seq),
            x.id,
            x.name,
            scrub(repr(sorted(x.annotations.items(), key=lambda kv: kv[0]))),
            [
                (f.type, str(f.location), sorted((k, repr(v)) for k, v in f.qualifiers.items()))
                for f in x.features
            ],
        )
    if isinstance(x, Seq):
        return ("SEQ", str(x))
    if isinstance(x, StructuredRecord):
        return ("ENTITY", type(x).__name__, str(x.seq))
    return (type(x).__name__, scrub(repr(x)))


def call(label, f, *a, **k):
    with warnings.catch_warnings(record=True) as caught:
        warnings.simplefilter("always")
        try:
            r = ("ok", show(f(*a, **k)))
        except Exception as e:  # noqa
            r = ("exc", type(e).__name__, scrub(str(e)))
    w = [(wi.category.__name__, scrub(str(wi.message))) for wi in caught]
    RESULTS.append((label, r, w))
    return r


# --- A. every class of the kits and of the core -------------------------------

KIT_MODULES = [ytk, cidar, ecoflex, moclokit, plant, parts, modules, vectors]
KIT_CLASSES = []
for mod in KIT_MODULES:
    for name, obj in sorted(vars(mod).items()):
        if inspect.isclass(obj) and issubclass(obj, StructuredRecord):
            if obj not in KIT_CLASSES:
                KIT_CLASSES.append(obj)

for cls in KIT_CLASSES:
    call(("A", cls.__module__, cls.__name__), cls.structure)
    call(("A-type", cls.__name__), lambda c=cls: type(c.structure()).__name__)
    call(("A-regex", cls.__name__), lambda c=cls: c._get_regex().pattern)
    call(("A-regex2", cls.__name__), lambda c=cls: c._get_regex().regex.pattern)

# --- B. user-defined subclasses over every enzyme -----------------------------

ENZYMES = sorted(AllEnzymes, key=str)


def make(name, bases, **ns):
    return type(str(name), bases, dict(ns))


def user_classes(e):
    n = str(e)
    yield make("UProduct" + n, (modules.Product,), cutter=e)
    yield make("UEntry" + n, (modules.Entry,), cutter=e)
    yield make("UCassette" + n, (modules.Cassette,), cutter=e)
    yield make("UDevice" + n, (modules.Device,), cutter=e)
    yield make("UModule" + n, (modules.AbstractModule,), cutter=e)
    yield make("UEntryVector" + n, (vectors.EntryVector,), cutter=e)
    yield make("UCassetteVector" + n, (vectors.CassetteVector,), cutter=e)
    yield make("UDeviceVector" + n, (vectors.DeviceVector,), cutter=e)
    yield make("UVector" + n, (vectors.AbstractVector,), cutter=e)
    yield make("UPartM" + n, (parts.AbstractPart, modules.Entry), cutter=e, signature=("ATGC", "NNNN"))
    yield make("UPartM2" + n, (parts.AbstractPart, modules.Cassette), cutter=e, signature=("nnRY", "GGTA"))
    yield make("UPartV" + n, (parts.AbstractPart, vectors.CassetteVector), cutter=e, signature=("CCGA", "CCCT"))
    yield make("UPartV2" + n, (parts.AbstractPart, vectors.EntryVector), cutter=e, signature=["TTG", "KMSWA"])
    yield make("UPartNone" + n, (parts.AbstractPart,), cutter=e, signature=("ATGC", "GGTA"))
    yield make("UPartNoSig" + n, (parts.AbstractPart, modules.Entry), cutter=e)
    yield make("UPartBoth" + n, (parts.AbstractPart, modules.Entry, vectors.EntryVector), cutter=e, signature=("AAAA", "CCCC"))


for e in ENZYMES:
    for cls in user_classes(e):
        call(("B", cls.__name__), cls.structure)

# odd signatures and missing cutters (over a handful of enzymes)
SOME = [
    Restriction.BsaI, Restriction.BsmBI, Restriction.BbsI, Restriction.BpiI, Restriction.SapI,
    Restriction.Esp3I, Restriction.AarI, Restriction.BtgZI, Restriction.BsrDI, Restriction.BtsI,
    Restriction.EcoRI, Restriction.KpnI, Restriction.EcoRV, Restriction.AjuI, Restriction.BsmI,
    Restriction.BstXI, Restriction.SfiI, Restriction.BglI, Restriction.HgaI, Restriction.FokI,
    Restriction.EarI, Restriction.BspMI, Restriction.BsgI, Restriction.MmeI, Restriction.AcuI,
    Restriction.BccI, Restriction.NotI, Restriction.PstI, Restriction.BseRI, Restriction.BciVI,
]
SOME += [e for e in ENZYMES if e.is_unknown()][:3]

ODD_SIGNATURES = [
    ("ATGC",),
    ("A", "B", "C"),
    "AT",
    "ATG",
    (1, 2),
    (Seq("ATGC"), Seq("GGTA")),
    ("", ""),
    ("{}", "{0}"),
    ("^NNNN_", "_NNNN^"),
    ("(", ")"),
    None,
    5,
    ("%s", "%(x)s"),
    (None, NotImplemented),
    (("A", "T"), ["G"]),
    {"ATGC": 1, "GGTA": 2},
]

for e in SOME + [NotImplemented, None]:
    n = str(e)
    for i, sig in enumerate(ODD_SIGNATURES):
        for base in (modules.Entry, vectors.CassetteVector, None):
            bases = (parts.AbstractPart,) + ((base,) if base is not None else ())
            cls = make("OddSig%d%s" % (i, n), bases, cutter=e, signature=sig)
            call(("B-odd", n, i, getattr(base, "__name__", None)), cls.structure)
    if e in (NotImplemented, None):
        for base in (modules.Entry, modules.Product, vectors.EntryVector, vectors.DeviceVector):
            cls = make("NoCutter" + n, (base,), cutter=e)
            call(("B-nocutter", n, base.__name__), cls.structure)
            call(("B-nocutter-new", n, base.__name__), cls, CircularRecord(Seq("ATGC"), id="x"))

# subclasses of kit classes with another cutter / another signature
for e in SOME:
    n = str(e)
    for base in KIT_CLASSES:
        ns = {"cutter": e}
        cls = make("Sub" + base.__name__ + n, (base,), **ns)
        call(("B-sub", base.__name__, n), cls.structure)
    for base in (ytk.YTKPart234r, ytk.YTKPart1, ytk.YTKPart8, cidar.CIDARPromoter, ecoflex.EcoFlexRBS,
                 moclokit.MoCloLevelMVector, moclokit.MoCloLevelPEndLinker, plant.PlantTer, ytk.YTKPart):
        cls = make("SubSig" + base.__name__ + n, (base,), cutter=e, signature=("CATG", "WWSS"))
        call(("B-subsig", base.__name__, n), cls.structure)

# calling through instances (static / class methods) is the same text
for cls in (ytk.YTKProduct, ytk.YTKPart234r, cidar.CIDAREntryVector, cidar.CIDARCassetteVector,
            cidar.CIDARDeviceVector, ecoflex.EcoFlexCassetteVector, ecoflex.EcoFlexDeviceVector,
            moclokit.MoCloEntryVector, moclokit.MoCloCassetteVector, ytk.YTKEntry, ytk.YTKPart3):
    inst = cls(CircularRecord(Seq("ATGCATGC"), id="inst"))
    call(("B-inst", cls.__name__), inst.structure)
    call(("B-inst-twice", cls.__name__), lambda c=cls: c.structure() == c.structure())

# --- C. behaviour on generated records ----------------------------------------

IUPAC = {
    "A": "A", "C": "C", "G": "G", "T": "T", "N": "ACGT", "R": "AG", "Y": "CT", "M": "AC",
    "K": "GT", "S": "CG", "W": "AT", "B": "CGT", "D": "AGT", "H": "ACT", "V": "ACG",
}
FORBIDDEN = ["GGTCTC", "GAGACC", "CGTCTC", "GAGACG", "GAAGAC", "GTCTTC", "GCTCTTC", "GAAGAGC"]


def randseq(rng, n, cutter=None):
    for _ in range(200):
        s = "".join(rng.choice("ACGT") for _ in range(n))
        if any(f in s for f in FORBIDDEN):
            continue
        if cutter is not None and cutter is not NotImplemented:
            try:
                if cutter.search(Seq(s)) or cutter.site in s:
                    continue
            except Exception:
                pass
        return s
    return "A" * n


def instantiate(pattern, rng, cutter=None, groups=None, target=None):
    """Produce a concrete sequence matching `pattern` (or None if not possible)."""
    groups = groups or {}
    out = []
    i = 0
    gidx = 0
    while i < len(pattern):
        c = pattern[i]
        if c == "(":
            gidx += 1
            i += 1
            if gidx in groups:
                j = pattern.index(")", i)
                out.append(groups[gidx])
                i = j + 1
            continue
        if c == ")":
            i += 1
            continue
        if pattern.startswith("N*?", i) or pattern.startswith("N*", i):
            i += 3 if pattern.startswith("N*?", i) else 2
            out.append(target if target is not None else randseq(rng, rng.randint(0, 40), cutter))
            continue
        if c.upper() not in IUPAC:
            return None
        out.append(rng.choice(IUPAC[c.upper()]))
        i += 1
    return "".join(out)


def mixcase(rng, s):
    return "".join(ch.lower() if rng.random() < 0.5 else ch for ch in s)


def make_record(rng, core, cutter, ident, rotate=0, case=False, topology=None, features=True):
    left = randseq(rng, rng.randint(0, 30), cutter)
    right = randseq(rng, rng.randint(0, 30), cutter)
    s = left + core + right
    if case:
        s = mixcase(rng, s)
    rec = CircularRecord(Seq(s), id=ident, name=ident + "_name")
    if features and len(s) > 6:
        a = rng.randint(0, len(s) - 3)
        b = rng.randint(a + 1, len(s))
        rec.features.append(
            SeqFeature(FeatureLocation(a, b, strand=rng.choice([1, -1])), type="misc_feature",
                       qualifiers={"label": ["f" + ident]})
        )
    if rotate:
        rec = rec >> rotate
    if topology is not None:
        rec.annotations["topology"] = topology
    return rec


def exercise(label, cls, rec):
    r = call(label + ("new",), cls, rec)
    if r[0] != "ok":
        return None
    ent = cls(rec)
    before = str(rec.seq), len(rec.features)
    call(label + ("is_valid",), ent.is_valid)
    call(label + ("overhang_start",), ent.overhang_start)
    call(label + ("overhang_end",), ent.overhang_end)
    call(label + ("target_sequence",), ent.target_sequence)
    if isinstance(ent, vectors.AbstractVector):
        call(label + ("placeholder_sequence",), ent.placeholder_sequence)
    call(label + ("match-spans",), lambda: [ent._match.span(i) for i in range(4)])
    RESULTS.append((label + ("unmutated",), before == (str(rec.seq), len(rec.features))))
    return ent


rng = random.Random(20)

FUNC_ENZYMES = [
    Restriction.BsaI, Restriction.BsmBI, Restriction.BbsI, Restriction.SapI, Restriction.AarI,
    Restriction.BtgZI, Restriction.BsrDI, Restriction.BtsI, Restriction.EcoRI, Restriction.KpnI,
    Restriction.EcoRV, Restriction.AjuI, Restriction.BsmI, Restriction.HgaI, Restriction.FokI,
    Restriction.BstXI, Restriction.SfiI, Restriction.EarI, Restriction.BseRI,
] + [e for e in ENZYMES if e.is_unknown()][:1]

FUNC_CLASSES = [c for c in KIT_CLASSES]
for e in FUNC_ENZYMES:
    n = str(e)
    FUNC_CLASSES += [
        make("FEntry" + n, (modules.Entry,), cutter=e),
        make("FProduct" + n, (modules.Product,), cutter=e),
        make("FCassetteVector" + n, (vectors.CassetteVector,), cutter=e),
        make("FEntryVector" + n, (vectors.EntryVector,), cutter=e),
        make("FPartM" + n, (parts.AbstractPart, modules.Entry), cutter=e,
             signature=("ATGC"[: max(1, len(e.ovhgseq or "NNNN"))], "GGTA"[: max(1, len(e.ovhgseq or "NNNN"))])),
        make("FPartV" + n, (parts.AbstractPart, vectors.CassetteVector), cutter=e,
             signature=("CCGA"[: max(1, len(e.ovhgseq or "NNNN"))], "CTCT"[: max(1, len(e.ovhgseq or "NNNN"))])),
    ]

for ci, cls in enumerate(FUNC_CLASSES):
    r = call(("C-structure", cls.__name__), cls.structure)
    if r[0] != "ok":
        continue
    pattern = cls.structure()
    cutter = getattr(cls, "cutter", None)
    if not isinstance(pattern, str) or cutter is None or cutter is NotImplemented:
        continue
    for k in range(4):
        core = instantiate(pattern, rng, cutter)
        if core is None:
            RESULTS.append((("C", cls.__name__, k), "not instantiable"))
            break
        ident = "%s_%d" % (cls.__name__, k)
        variants = [
            ("plain", dict()),
            ("wrap", dict(rotate=rng.randint(1, max(1, len(core) - 1)))),
            ("neg", dict(rotate=-rng.randint(1, 500))),
            ("big", dict(rotate=rng.randint(1000, 5000))),
            ("case", dict(case=True, rotate=rng.randint(0, 50))),
            ("linear", dict(topology="linear")),
            ("linear-wrap", dict(topology="LINEAR", rotate=len(core) // 2 + 31)),
        ]
        for vname, kw in variants:
            rec = make_record(rng, core, cutter, ident + vname, **kw)
            exercise(("C", cls.__name__, k, vname), cls, rec)
        # illegal extra site inside the variable region
        try:
            site = cutter.site
        except Exception:
            site = None
        if site and all(ch in "ACGT" for ch in site):
            bad = instantiate(pattern, rng, cutter, target=randseq(rng, 7, cutter) + site + randseq(rng, 9, cutter))
            exercise(("C", cls.__name__, k, "illegal"), cls, make_record(rng, bad, cutter, ident + "bad"))
            rc = str(Seq(site).reverse_complement())
            bad = instantiate(pattern, rng, cutter, target=randseq(rng, 7, cutter) + rc + randseq(rng, 9, cutter))
            exercise(("C", cls.__name__, k, "illegal-rc"), cls, make_record(rng, bad, cutter, ident + "badrc"))
        # broken: one letter of the first fixed site changed, or truncated
        broken = core[:2] + ("A" if core[2:3] != "A" else "C") + core[3:]
        exercise(("C", cls.__name__, k, "broken"), cls,
                 make_record(rng, broken, cutter, ident + "broken", topology="linear"))
        exercise(("C", cls.__name__, k, "truncated"), cls,
                 CircularRecord(Seq(core[: len(core) // 2]), id=ident + "trunc"))
    exercise(("C", cls.__name__, "empty"), cls, CircularRecord(Seq(""), id="empty"))

# --- assemblies ---------------------------------------------------------------


def build(cls, rng, ident, groups=None, target=None, **kw):
    core = instantiate(cls.structure(), rng, cls.cutter, groups=groups, target=target)
    rec = make_record(rng, core, cls.cutter, ident, **kw)
    return cls(rec)


def assemble(label, vector, mods, **kwargs):
    r = call(label, lambda: vector.assemble(*mods, **kwargs))
    # the input records are usable afterwards (citations re-referenced)
    RESULTS.append((label + ("after",), [show(m.record) for m in mods] + [show(vector.record)]))
    return r


def add_citation(rec, text):
    rec.annotations.setdefault("references", []).append(text)
    idx = len(rec.annotations["references"])
    rec.features.append(
        SeqFeature(FeatureLocation(0, min(3, len(rec))), type="misc_feature",
                   qualifiers={"citation": ["[%d]" % idx]})
    )


OVHS = ["ACGA", "TTGC", "GGAT", "CATC", "TACA", "GTTG", "CCGA", "AGTC"]

for e in (Restriction.BsaI, Restriction.BsmBI, Restriction.BbsI, Restriction.AarI, Restriction.BtgZI,
          Restriction.SapI, Restriction.BsrDI, Restriction.HgaI, Restriction.EarI):
    n = str(e)
    size = len(e.ovhgseq)
    ov = [o[:size] if size <= 4 else (o * 3)[:size] for o in OVHS]
    Mod = make("AEntry" + n, (modules.Entry,), cutter=e)
    Vec = make("ACassetteVector" + n, (vectors.CassetteVector,), cutter=e)
    for trial in range(6):
        k = rng.randint(1, 5)
        kw = dict(case=bool(trial % 2), rotate=rng.choice([0, 0, 7, -13, 2500]))
        mods = [build(Mod, rng, "m%d" % i, groups={1: ov[i], 3: ov[i + 1]}, **kw) for i in range(k)]
        vec = build(Vec, rng, "vec", groups={1: ov[0], 3: ov[k]}, **kw)
        if trial == 3:
            add_citation(mods[0].record, "Some et al. 2011")
            add_citation(vec.record, "Other et al. 2015")
            add_citation(vec.record, "Some et al. 2011")
        shuffled = list(mods)
        rng.shuffle(shuffled)
        assemble(("ASM", n, trial, "ok"), vec, shuffled)
        assemble(("ASM", n, trial, "named"), vec, shuffled, id="myid", name="myname")
        # missing module
        if k > 1:
            assemble(("ASM", n, trial, "missing"), vec, mods[:-1])
            assemble(("ASM", n, trial, "missing-first"), vec, mods[1:])
        # duplicate modules (same start overhang)
        dup = build(Mod, rng, "dup", groups={1: ov[0], 3: ov[1]})
        assemble(("ASM", n, trial, "duplicate"), vec, mods + [dup])
        assemble(("ASM", n, trial, "same-twice"), vec, mods + [mods[0]])
        # unused module
        extra = build(Mod, rng, "extra", groups={1: ov[6], 3: ov[7]})
        assemble(("ASM", n, trial, "unused"), vec, mods + [extra])
        # reverse-complementing overhangs
        rcm = build(Mod, rng, "rcm", groups={1: str(Seq(ov[1]).reverse_complement()), 3: ov[7]})
        assemble(("ASM", n, trial, "revcomp"), vec, mods + [rcm])
        # vector not suitable
        badvec = build(Vec, rng, "badvec", groups={1: ov[0], 3: ov[0]})
        assemble(("ASM", n, trial, "badvec"), badvec, mods)
        # invalid module
        inv = Mod(CircularRecord(Seq(randseq(rng, 60, e)), id="inv"))
        assemble(("ASM", n, trial, "invalid"), vec, mods + [inv])
        # illegal site in a module
        ill = build(Mod, rng, "ill", groups={1: ov[6], 3: ov[7]}, target="ACGT" + e.site + "ACGT")
        assemble(("ASM", n, trial, "illegal"), vec, mods + [ill])

# kit assemblies: parts chained through their signatures
YTK_CHAIN = [ytk.YTKPart1, ytk.YTKPart2, ytk.YTKPart3, ytk.YTKPart4, ytk.YTKPart5, ytk.YTKPart6, ytk.YTKPart7]
YTK_CHAIN2 = [ytk.YTKPart1, ytk.YTKPart2, ytk.YTKPart3a, ytk.YTKPart3b, ytk.YTKPart4a, ytk.YTKPart4b,
              ytk.YTKPart5, ytk.YTKPart6, ytk.YTKPart7]
YTK_CHAIN3 = [ytk.YTKPart1, ytk.YTKPart234, ytk.YTKPart5]
YTK_CHAIN4 = [ytk.YTKPart1, ytk.YTKPart234r, ytk.YTKPart5]
CIDAR_CHAIN = [cidar.CIDARPromoter, cidar.CIDARRibosomeBindingSite, cidar.CIDARCodingSequence, cidar.CIDARTerminator]
ECOFLEX_CHAIN = [ecoflex.EcoFlexPromoter, ecoflex.EcoFlexRBS, ecoflex.EcoFlexCodingSequence, ecoflex.EcoFlexTerminator]
ECOFLEX_CHAIN2 = [ecoflex.EcoFlexPromoter, ecoflex.EcoFlexTagLinker, ecoflex.EcoFlexTag,
                  ecoflex.EcoFlexCodingSequence, ecoflex.EcoFlexTerminator]
PLANT_CHAIN = [plant.PlantPro5U, plant.PlantFullCDS, plant.Plant3U, plant.PlantTer]

KIT_ASSEMBLIES = [
    ("ytk", YTK_CHAIN, ytk.YTKPart8, {}),
    ("ytk-8a", YTK_CHAIN2 + [ytk.YTKPart8b], ytk.YTKPart8a, {}),
    ("ytk-678", YTK_CHAIN3, ytk.YTKPart678, {}),
    ("ytk-234r", YTK_CHAIN4, ytk.YTKPart678, {}),
    ("cidar", CIDAR_CHAIN, cidar.CIDARCassetteVector, {"P0": "GGAG", "T3": "GCTT", "V1": "GGAG", "V3": "GCTT"}),
    ("ecoflex", ECOFLEX_CHAIN, ecoflex.EcoFlexCassetteVector, {"V1": "CTAT", "V3": "TGTT"}),
    ("ecoflex-tag", ECOFLEX_CHAIN2, ecoflex.EcoFlexCassetteVector, {"V1": "CTAT", "V3": "TGTT"}),
    ("moclo-plant", PLANT_CHAIN, moclokit.MoCloCassetteVector, {"V1": "GGAG", "V3": "CGCT"}),
]

for kname, chain, Vec, fixes in KIT_ASSEMBLIES:
    for trial in range(5):
        kw = dict(case=bool(trial % 2), rotate=rng.choice([0, 11, -29, 3001]))
        mods = []
        for i, P in enumerate(chain):
            groups = {}
            if i == 0 and "P0" in fixes:
                groups[1] = fixes["P0"]
            if i == len(chain) - 1 and "T3" in fixes:
                groups[3] = fixes["T3"]
            mods.append(build(P, rng, "%s_%d" % (P.__name__, i), groups=groups, **kw))
        vgroups = {}
        if "V1" in fixes:
            vgroups = {1: fixes["V1"], 3: fixes["V3"]}
        vec = build(Vec, rng, "vec_" + Vec.__name__, groups=vgroups, **kw)
        for m in mods + [vec]:
            exercise(("KIT", kname, trial, m.record.id), type(m), m.record)
        if trial == 2:
            add_citation(mods[0].record, "Lee et al. 2015")
            add_citation(vec.record, "Lee et al. 2015")
        shuffled = list(mods)
        rng.shuffle(shuffled)
        assemble(("KIT", kname, trial, "ok"), vec, shuffled)
        if len(mods) > 1:
            assemble(("KIT", kname, trial, "missing"), vec, mods[:1] + mods[2:])
        assemble(("KIT", kname, trial, "dup"), vec, mods + [build(chain[0], rng, "dup", groups={1: fixes["P0"]} if "P0" in fixes else None)])
        # characterize through the abstract part classes
        for base in (ytk.YTKPart, cidar.CIDARPart, ecoflex.EcoFlexPart, moclokit.MoCloPart):
            call(("KIT", kname, trial, "characterize", base.__name__, mods[0].record.id),
                 base.characterize, mods[0].record)
        call(("KIT", kname, trial, "characterize-vec"), ytk.YTKPart.characterize, vec.record)

# YTK products into the entry vector, EcoFlex / CIDAR / MoClo higher levels
LEVELS = [
    ("ytk-product", ytk.YTKProduct, ytk.YTKEntryVector),
    ("ytk-device", ytk.YTKCassette, ytk.YTKDeviceVector),
    ("cidar-entry", cidar.CIDARProduct, cidar.CIDAREntryVector),
    ("cidar-device", cidar.CIDARCassette, cidar.CIDARDeviceVector),
    ("ecoflex-device", ecoflex.EcoFlexCassette, ecoflex.EcoFlexDeviceVector),
    ("moclo-entry", moclokit.MoCloProduct, moclokit.MoCloEntryVector),
    ("moclo-device", moclokit.MoCloCassette, moclokit.MoCloDeviceVector),
]
for lname, Mod, Vec in LEVELS:
    for trial in range(5):
        k = rng.randint(1, 3)
        kw = dict(case=bool(trial % 2), rotate=rng.choice([0, 5, -17, 1234]))
        if Mod is ytk.YTKProduct:
            mods = [build(Mod, rng, "p0", **kw)]
            vec = build(Vec, rng, "vec", groups={1: str(mods[0].overhang_start()).upper(),
                                                 3: str(mods[0].overhang_end()).upper()}, **kw)
        else:
            mods = [build(Mod, rng, "m%d" % i, groups={1: OVHS[i], 3: OVHS[i + 1]}, **kw) for i in range(k)]
            vec = build(Vec, rng, "vec", groups={1: OVHS[0], 3: OVHS[k]}, **kw)
        for m in mods + [vec]:
            exercise(("LVL", lname, trial, m.record.id), type(m), m.record)
        assemble(("LVL", lname, trial, "ok"), vec, mods)
        assemble(("LVL", lname, trial, "unused"), vec,
                 mods + [build(Mod, rng, "extra", groups={1: OVHS[6], 3: OVHS[7]})] if Mod is not ytk.YTKProduct else mods)

blob = repr(RESULTS).encode("utf-8")
print(hashlib.sha256(blob).hexdigest(), len(RESULTS))
