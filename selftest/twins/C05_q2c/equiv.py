# coding: utf-8
"""Differential test for the C05 refactorings.

Exercises the pattern matcher, the structure derivation, the validity check,
the overhang accessors, the target sequences, ``characterize`` and complete
assemblies on a few hundred generated inputs, and prints a digest of every
result, exception (type and message), warning and of the state of the inputs
afterwards.  The digest must be identical before and after a refactoring.
"""
import hashlib
import random
import re
import sys
import warnings

sys.path.insert(0, "/tmp/agents6/C05")
import tests  # noqa: E402,F401

from Bio.Restriction import BsaI, BsmBI, BpiI, BbsI, SapI, EcoRV, BtsCI  # noqa: E402
from Bio.Seq import Seq  # noqa: E402
from Bio.SeqFeature import SeqFeature, FeatureLocation, Reference  # noqa: E402
from Bio.SeqRecord import SeqRecord  # noqa: E402

from moclo import errors  # noqa: E402,F401
from moclo.core import AbstractPart, Entry, EntryVector, Product, Cassette  # noqa: E402
from moclo.core import AbstractModule, AbstractVector, CassetteVector  # noqa: E402
from moclo.core._utils import cutter_check  # noqa: E402
from moclo.record import CircularRecord  # noqa: E402
from moclo.regex import DNARegex  # noqa: E402
from moclo.kits import ytk, cidar, ecoflex, moclo as moclokit, plant  # noqa: E402

RNG = random.Random(50505)
LOG = []


def log(tag, value):
    LOG.append("{}\t{}".format(tag, value))


def outcome(fn, *args, **kwargs):
    """Run ``fn`` and describe what happened (value / exception / warnings)."""
    with warnings.catch_warnings(record=True) as caught:
        warnings.simplefilter("always")
        try:
            value = describe(fn(*args, **kwargs))
        except Exception as exc:  # noqa: B902
            value = "!{}: {}".format(type(exc).__name__, exc)
            value = re.sub(r" at 0x[0-9a-f]+", "", value)  # no addresses in the digest
    warns = sorted(
        "{}: {}".format(w.category.__name__, w.message)
        for w in caught
        if not issubclass(w.category, (DeprecationWarning, PendingDeprecationWarning))
        and "pkg_resources" not in str(w.message)
    )
    return value if not warns else "{} +warnings{}".format(value, warns)


def describe(value):
    if isinstance(value, SeqRecord):
        return state(value)
    if isinstance(value, Seq):
        return "Seq({})".format(str(value))
    if isinstance(value, (AbstractModule, AbstractVector, AbstractPart)):
        return "<{} of {}>".format(type(value).__name__, value.record.id)
    if hasattr(value, "span") and hasattr(value, "group"):
        return "match{}".format(
            [(value.span(i), describe(value.group(i))) for i in range(value.match.re.groups + 1)]
        )
    return repr(value)


def state(rec):
    feats = [
        (f.type, str(f.location), sorted((k, repr(v)) for k, v in f.qualifiers.items()))
        for f in rec.features
    ]
    ants = sorted((k, repr(v)) for k, v in rec.annotations.items())
    return "{}({} id={} name={} feats={} ants={})".format(
        type(rec).__name__, str(rec.seq), rec.id, rec.name, feats, ants
    )


def revcomp(s):
    return str(Seq(s).reverse_complement())


def dna(n):
    return "".join(RNG.choice("ACGT") for _ in range(n))


def clean_dna(n, words):
    words = [w for f in words for w in (f, revcomp(f))]
    while True:
        s = dna(n)
        if not any(w in s + s for w in words):
            return s


def mixed(s, p=0.35):
    return "".join(c.lower() if RNG.random() < p else c for c in s)


def annotate(rec, n_refs=2):
    """Features (one of them citing) and references, as a GenBank file has."""
    refs = []
    for k in range(n_refs):
        ref = Reference()
        ref.title = "paper {} of {}".format(k + 1, rec.id)
        ref.authors = "Doe J."
        refs.append(ref)
    rec.annotations["references"] = refs
    size = len(rec.seq)
    a = RNG.randrange(0, size - 6)
    rec.features.append(
        SeqFeature(
            FeatureLocation(a, a + RNG.randint(3, 6), strand=RNG.choice([1, -1])),
            type="misc_feature",
            qualifiers={"label": ["f-" + rec.id], "citation": ["[{}]".format(RNG.randint(1, n_refs))]},
        )
    )
    b = RNG.randrange(0, size - 4)
    rec.features.append(SeqFeature(FeatureLocation(b, b + 4), type="CDS", qualifiers={"note": ["x"]}))
    return rec


def construct(cutter, up, down, layout="circular", extra=None, case=False, rid="rec"):
    site = cutter.site
    gap = "A" * (cutter.fst5 - len(site))
    inner = clean_dna(RNG.randint(6, 24), [site])
    outer = clean_dna(RNG.randint(24, 48), [site])
    if extra == "inner":
        inner = inner[:4] + site + inner[4:]
    elif extra == "outer":
        outer = outer[:7] + revcomp(site) + outer[7:]
    head = site + gap + up
    tail = down + revcomp(gap) + revcomp(site)
    if layout == "linear-vector":
        seq = outer[:9] + tail + inner + head + outer[9:]
    else:
        seq = head + inner + tail + outer
    if case:
        seq = mixed(seq)
    if layout == "plain":
        return SeqRecord(Seq(seq), id=rid, name=rid)
    if layout.startswith("linear"):
        return SeqRecord(Seq(seq), id=rid, name=rid, annotations={"topology": "linear"})
    rec = CircularRecord(Seq(seq), id=rid, name=rid)
    if layout == "circular":
        rec = rec >> RNG.randrange(len(seq))
    return rec


# --- 1. the pattern matcher ---------------------------------------------------


def matcher():
    patterns = [
        "AA(NN)", "GGTCTCN(NNNN)(NN*N)(NNNN)NGAGACC", "(RY)(SW*)(KM)", "B(D)H(V)N", "ACGT",
        "N(NNNN)(NGAGACCN*GGTCTCN)(NNNN)N", "(AACG)(NGAGACCN*?GGTCTCN)(GCTG)", "gg(n)cc",
    ]
    for pattern in patterns:
        rx = DNARegex(pattern)
        log("transcribe", (pattern, rx.pattern, rx.regex.pattern, DNARegex._transcribe(pattern)))
        for k in range(14):
            text = dna(RNG.randint(8, 40))
            if k % 3 == 0:
                text = text[:5] + "GGTCTCA" + dna(12) + "TGAGACC" + text[5:]
            if k % 4 == 1:
                text = mixed(text)
            pos = RNG.choice([0, 0, 1, 5, len(text) - 1, len(text) + 3])
            endpos = RNG.choice([None, None, 3, len(text) // 2, len(text)])
            kwargs = {"pos": pos}
            if endpos is not None:
                kwargs["endpos"] = endpos
            for subject in (
                Seq(text),
                SeqRecord(Seq(text), id="s"),
                CircularRecord(Seq(text), id="c"),
                CircularRecord(Seq(text), id="c") >> RNG.randrange(len(text)),
            ):
                for linear in (True, False):
                    log("search", outcome(rx.search, subject, linear=linear, **kwargs))
        for bad in ("ATGC", None, 12, ["A"]):
            log("search/bad", outcome(rx.search, bad))


# --- 2. enzymes -----------------------------------------------------------------


def enzymes():
    for name in ("first", "second"):
        for cutter in (BsaI, BsmBI, BpiI, BbsI, SapI, EcoRV, BtsCI, NotImplemented):
            log("cutter_check", (str(cutter), outcome(cutter_check, cutter, name)))
    for base in (Entry, EntryVector, Product, Cassette, CassetteVector):
        for cutter in (BsaI, EcoRV, NotImplemented, BpiI, BsaI):
            cls = type(str("X" + base.__name__), (base,), {"cutter": cutter})
            rec = SeqRecord(Seq("ACGT"), id="tiny")
            log("instantiate", (base.__name__, str(cutter), outcome(cls, rec)))
            log("structure", (base.__name__, str(cutter), outcome(cls.structure)))


# --- 3. structures ----------------------------------------------------------------


def kit_classes():
    for kit in (ytk, cidar, ecoflex, moclokit, plant):
        for name, obj in sorted(vars(kit).items()):
            if isinstance(obj, type) and issubclass(obj, (AbstractPart, AbstractModule, AbstractVector)):
                yield kit.__name__.rsplit(".", 1)[-1] + "." + name, obj


def structures():
    for name, cls in kit_classes():
        log("kit-structure", (name, outcome(cls.structure), outcome(cls.structure)))
    odd = [
        ("no-signature", (AbstractPart, Entry), {"cutter": BsaI}),
        ("no-role", (AbstractPart,), {"cutter": BsaI, "signature": ("AAAA", "CCCC")}),
        ("no-cutter", (AbstractPart, Entry), {"signature": ("AAAA", "CCCC")}),
        ("no-cutter-no-role", (AbstractPart,), {"signature": ("AAAA", "CCCC")}),
        ("three", (AbstractPart, Entry), {"cutter": BsaI, "signature": ("AAAA", "CCCC", "GGGG")}),
        ("one", (AbstractPart, Entry), {"cutter": BsaI, "signature": ("AAAA",)}),
        ("list", (AbstractPart, EntryVector), {"cutter": BpiI, "signature": ["AAAA", "CCCC"]}),
        ("seq", (AbstractPart, Entry), {"cutter": BsmBI, "signature": (Seq("AAAA"), Seq("CCCC"))}),
        ("both-roles", (AbstractPart, Entry, EntryVector), {"cutter": BsaI, "signature": ("AAAA", "CCCC")}),
        ("both-roles-2", (AbstractPart, EntryVector, Entry), {"cutter": BsaI, "signature": ("AAAA", "CCCC")}),
        ("blunt", (AbstractPart, Entry), {"cutter": EcoRV, "signature": ("AAAA", "CCCC")}),
        ("three-prime", (AbstractPart, Entry), {"cutter": BtsCI, "signature": ("AA", "CC")}),
        ("lower", (AbstractPart, Entry), {"cutter": BsaI, "signature": ("aacg", "TatG")}),
    ]
    for tag, bases, attrs in odd:
        cls = type(str("Odd"), bases, attrs)
        log("odd-structure", (tag, outcome(cls.structure), outcome(cls.structure)))
        log("odd-new", (tag, outcome(cls, SeqRecord(Seq("ACGTACGT"), id="tiny"))))


# --- 4. validity, overhangs, targets, characterisation -------------------------


# overhangs chaining into a cycle, none of them the reverse complement of another
WORDS = ["AACGA", "TATGC", "ATCCT", "GCTGA"]


def user_kit(cutter, tag):
    n = abs(cutter.ovhg)
    w = [word[:n] for word in WORDS]
    sigs = [
        (w[0], w[1]), (w[1], w[2]), (w[2], w[3]), ("N" * n, w[2]), ("RYSWK"[:n], "ACNNT"[:n]),
    ]
    gen_m = type(str(tag + "Entry"), (Entry,), {"cutter": cutter})
    gen_v = type(str(tag + "Vector"), (EntryVector,), {"cutter": cutter})
    base = type(str(tag + "Part"), (AbstractPart,), {"cutter": cutter, "signature": NotImplemented})
    mods, vecs = [], []
    for k, sig in enumerate(sigs):
        mods.append(type(str("{}M{}".format(tag, k)), (base, gen_m), {"signature": sig}))
        vecs.append(type(str("{}V{}".format(tag, k)), (base, gen_v), {"signature": sig}))
    variant = type(str(tag + "M0b"), (mods[0],), {"signature": sigs[1]})
    concrete = type(str(tag + "Only"), (AbstractPart, gen_m), {"cutter": cutter, "signature": sigs[2]})
    return sigs, gen_m, gen_v, base, mods, vecs, variant, concrete


def probe(cls, rec):
    before = state(rec)
    entity_out = outcome(cls, rec)
    log("new", (cls.__name__, entity_out))
    if entity_out.startswith("!"):
        return
    entity = cls(rec)
    log("valid", (cls.__name__, rec.id, outcome(entity.is_valid), outcome(entity.is_valid)))
    for accessor in ("overhang_start", "overhang_end", "target_sequence", "placeholder_sequence"):
        if hasattr(entity, accessor):
            log(accessor, (cls.__name__, rec.id, outcome(getattr(entity, accessor))))
    log("untouched", (cls.__name__, rec.id, state(rec) == before, entity.record is rec))


def typing_and_access():
    for cutter, tag in ((BsaI, "A"), (BsmBI, "B"), (BpiI, "C"), (SapI, "D")):
        sigs, gen_m, gen_v, base, mods, vecs, variant, concrete = user_kit(cutter, tag)
        n = abs(cutter.ovhg)
        records = []
        for k, sig in enumerate(sigs[:3]):
            up, down = sig
            records.append(construct(cutter, up, down, rid="m{}".format(k)))
            records.append(construct(cutter, up, down, "fixed", case=True, rid="mc{}".format(k)))
            records.append(construct(cutter, up, down, "linear-module", rid="lm{}".format(k)))
            records.append(construct(cutter, up, down, "linear-vector", rid="lv{}".format(k)))
            records.append(construct(cutter, up, down, "plain", rid="pl{}".format(k)))
        up, down = sigs[0]
        records.append(construct(cutter, up, down, extra="inner", rid="xi"))
        records.append(construct(cutter, up, down, extra="outer", rid="xo"))
        records.append(construct(cutter, up[:-1] + "C", down, rid="nm"))
        records.append(construct(cutter, dna(n), dna(n), rid="rnd"))
        records.append(annotate(construct(cutter, up, down, rid="ann")))
        records.append(CircularRecord(Seq(clean_dna(50, [cutter.site])), id="none", name="none"))
        records.append(SeqRecord(Seq("ACG"), id="short", name="short"))
        classes = [gen_m, gen_v] + mods + vecs + [variant, concrete, base]
        for rec in records:
            for cls in classes:
                probe(cls, rec)
            for root in (base, mods[0], concrete, gen_m if False else variant):
                before = state(rec)
                log("characterize", (root.__name__, rec.id, outcome(root.characterize, rec)))
                log("characterize/untouched", state(rec) == before)


def bundled_typing():
    for name, cls in kit_classes():
        if not issubclass(cls, AbstractPart) or cls.signature is NotImplemented:
            continue
        up, down = (
            "".join(RNG.choice("ACGT") if c == "N" else c for c in s) for s in cls.signature
        )
        for k, rec in enumerate([
            construct(cls.cutter, up, down, rid="own"),
            construct(cls.cutter, up, down, "fixed", case=True, rid="ownc"),
            construct(cls.cutter, down, up, rid="swapped"),
            construct(cls.cutter, up, down, "linear-module", rid="lm"),
            construct(cls.cutter, up, down, "linear-vector", rid="lv"),
        ]):
            probe(cls, rec)
    roots = [ytk.YTKPart, cidar.CIDARPart, ecoflex.EcoFlexPart, moclokit.MoCloPart]
    for root in roots:
        for sub in root.__subclasses__()[:6]:
            if sub.signature is NotImplemented:
                continue
            up, down = ("".join("A" if c == "N" else c for c in s) for s in sub.signature)
            rec = construct(sub.cutter, up, down, rid="of-" + sub.__name__)
            log("kit-characterize", (root.__name__, outcome(root.characterize, rec)))
        rec = construct(root.cutter, "CCCC", "CCCC", rid="nobody")
        log("kit-characterize", (root.__name__, outcome(root.characterize, rec)))


# --- 5. assemblies -------------------------------------------------------------


def assemblies():
    for cutter, tag in ((BsaI, "P"), (BpiI, "Q"), (BsmBI, "R")):
        sigs, gen_m, gen_v, base, mods, vecs, variant, concrete = user_kit(cutter, tag)
        chain = [word[: abs(cutter.ovhg)] for word in WORDS]
        for trial in range(8):
            parts = []
            for k in range(3):
                rec = construct(cutter, chain[k], chain[k + 1], case=trial % 2 == 1, rid="mod{}".format(k))
                if trial % 3 == 0:
                    annotate(rec)
                parts.append(rec)
            vec = construct(cutter, chain[3], chain[0], rid="vec")
            if trial % 3 != 1:
                annotate(vec, 3)
            if trial == 4:
                parts.pop(1)  # missing module
            if trial == 5:
                parts.append(construct(cutter, chain[0], chain[2], rid="dup"))  # duplicate start
            if trial == 6:
                parts.append(construct(cutter, "CCAA", "AGCC", rid="spare"))  # unused
            if trial == 7:
                vec = construct(cutter, chain[0], chain[0], rid="selfvec")  # unsuitable vector
            before = [state(r) for r in parts + [vec]]
            module_cls = gen_m if trial % 2 == 0 else None
            wrapped = []
            for k, rec in enumerate(parts):
                cls = module_cls or (mods[k] if k < 2 and rec.id.startswith("mod") else gen_m)
                wrapped.append(cls(rec))
            vector = gen_v(vec)
            kwargs = {} if trial % 2 == 0 else {"id": "asm{}".format(trial), "name": "n{}".format(trial)}
            log("assemble", (tag, trial, outcome(vector.assemble, *wrapped, **kwargs)))
            log("assemble/inputs", [state(r) == b for r, b in zip(parts + [vec], before)])
            log("assemble/inputs-after", [state(r) for r in parts + [vec]])


def main():
    matcher()
    enzymes()
    structures()
    typing_and_access()
    bundled_typing()
    assemblies()
    digest = hashlib.sha256("\n".join(LOG).encode("utf-8")).hexdigest()
    if "--dump" in sys.argv:
        print("\n".join(LOG))
    print("{} observations, digest {}".format(len(LOG), digest))


if __name__ == "__main__":
    main()
