# coding: utf-8
"""Differential test: prints a sha256 digest of everything observable through
the public API of moclo.core (structures, validity, overhangs, target and
placeholder sequences, characterisation, assemblies, exceptions by type and
message, warnings, mutation of the argument records).

Run as: cd /tmp/agentsR3/R11 && /venv/bin/python refactor_out/R11_<i>/equiv.py
The digest must be identical on the pristine tree and with patch.diff applied.
"""
import sys

sys.path.insert(0, "/tmp/agentsR3/R11")
import tests  # noqa: F401,E402  (splices the kits into the moclo namespace)

import copy  # noqa: E402
import hashlib  # noqa: E402
import random  # noqa: E402
import re  # noqa: E402
import warnings  # noqa: E402

warnings.simplefilter("ignore")

from Bio.Seq import Seq  # noqa: E402
from Bio.SeqRecord import SeqRecord  # noqa: E402
from Bio.SeqFeature import SeqFeature, FeatureLocation, Reference  # noqa: E402
from Bio.Restriction import (  # noqa: E402
    BsaI, BsmBI, BpiI, SapI, BseRI, BtsI, SmaI, EcoRI, Rtr1953I,
)

from moclo import errors  # noqa: E402
from moclo.core import (  # noqa: E402
    AbstractPart, AbstractModule, AbstractVector,
    Product, Entry, Cassette, Device,
    EntryVector, CassetteVector, DeviceVector,
)
from moclo.record import CircularRecord  # noqa: E402

FOCUS = "S2 the span selection duplicated in AbstractModule.target_sequence and AbstractVector.target_sequence moved to a function of _structured.py"

RNG = random.Random(0x5EED + 11)
_ADDR = re.compile(r"0x[0-9a-fA-F]+")
OUT = []


# --- serialisation ----------------------------------------------------------

def ser(x):
    if isinstance(x, SeqRecord):
        return (
            type(x).__name__, str(x.seq), x.id, x.name, x.description,
            sorted((k, ser(v)) for k, v in x.annotations.items()),
            [ser(f) for f in x.features],
            list(x.dbxrefs),
        )
    if isinstance(x, SeqFeature):
        return (
            x.type, str(x.location), x.id,
            sorted((k, ser(v)) for k, v in x.qualifiers.items()),
        )
    if isinstance(x, Seq):
        return ("Seq", str(x))
    if isinstance(x, Reference):
        return ("Reference", x.title, x.authors, x.journal, str(x.location))
    if isinstance(x, BaseException):
        return ("EXC", type(x).__name__, _ADDR.sub("0x", str(x)))
    if isinstance(x, (list, tuple)):
        return [ser(i) for i in x]
    if isinstance(x, dict):
        return sorted((ser(k), ser(v)) for k, v in x.items())
    if isinstance(x, (AbstractModule, AbstractVector, AbstractPart)):
        return ("ENTITY", type(x).__name__, x.record.id)
    if x is None or isinstance(x, (bool, int, float, str, bytes)):
        return x
    return ("OBJ", type(x).__name__, _ADDR.sub("0x", repr(x)))


def attempt(fn, *args, **kwargs):
    """Call, recording the result or exception together with the warnings."""
    with warnings.catch_warnings(record=True) as caught:
        warnings.simplefilter("always")
        try:
            res = ("OK", ser(fn(*args, **kwargs)))
        except Exception as exc:  # noqa
            res = ser(exc)
    warns = [
        (type(w.message).__name__, _ADDR.sub("0x", str(w.message)))
        for w in caught
        if isinstance(w.message, errors.MocloError)
    ]
    return (res, warns)


def emit(tag, *values):
    OUT.append(repr((tag, values)))


# --- sequence generation ----------------------------------------------------

def rand_dna(n, alphabet="ACGT"):
    return "".join(RNG.choice(alphabet) for _ in range(n))


def rc(s):
    return str(Seq(s).reverse_complement())


def mixcase(s, p):
    return "".join(c.lower() if RNG.random() < p else c for c in s)


def layout(cutter):
    """(site, n1, novhg, n2) parsed from the elucidated cutter."""
    e = cutter.elucidate()
    m = re.match(r"^([ACGT]+)(N*)[\^_](N+)[\^_](N*)$", e)
    return m.group(1), len(m.group(2)), len(m.group(3)), len(m.group(4))


def module_seq(cutter, o1, o2, target_len, backbone_len, extra_site=False):
    site, n1, _, _ = layout(cutter)
    core = (
        site + rand_dna(n1) + o1 + rand_dna(target_len) + o2 + rand_dna(n1) + rc(site)
    )
    bb = rand_dna(backbone_len)
    if extra_site and backbone_len > 0:
        k = RNG.randrange(0, len(bb))
        bb = bb[:k] + (site if RNG.random() < 0.5 else rc(site)) + bb[k:]
    return core + bb, len(core)


def vector_seq(cutter, o_end, o_start, placeholder_len, backbone_len, extra_site=False):
    site, n1, _, n2 = layout(cutter)
    core = (
        rand_dna(n2) + o_end + rand_dna(n1) + rc(site) + rand_dna(placeholder_len)
        + site + rand_dna(n1) + o_start + rand_dna(n2)
    )
    bb = rand_dna(backbone_len)
    if extra_site and backbone_len > 0:
        k = RNG.randrange(0, len(bb))
        bb = bb[:k] + (site if RNG.random() < 0.5 else rc(site)) + bb[k:]
    return core + bb, len(core)


REFS = []
for i in range(4):
    r = Reference()
    r.title = "Reference number {}".format(i)
    r.authors = "Author {}".format(i)
    r.journal = "J. Irreproducible Results {}".format(i)
    REFS.append(r)


def decorate(record, nfeat, with_citations):
    n = len(record)
    if with_citations:
        k = RNG.randint(1, len(REFS))
        record.annotations["references"] = [copy.deepcopy(r) for r in RNG.sample(REFS, k)]
    for j in range(nfeat):
        a = RNG.randrange(0, max(1, n - 1))
        b = RNG.randrange(a + 1, n + 1) if n > a + 1 else a + 1
        quals = {"label": ["feat{}".format(j)]}
        if with_citations and RNG.random() < 0.7:
            nref = len(record.annotations["references"])
            quals["citation"] = [
                "[{}]".format(RNG.randint(1, nref)) for _ in range(RNG.randint(1, 2))
            ]
        record.features.append(
            SeqFeature(
                FeatureLocation(a, b, strand=RNG.choice([1, -1])),
                type=RNG.choice(["CDS", "misc_feature", "promoter"]),
                qualifiers=quals,
            )
        )
    return record


def make_record(seq, rid, kind, rotation=0, nfeat=2, citations=False):
    """kind: circ | seqrec | linear | Linear | circular-annot | CIRCULAR"""
    if kind == "circ":
        rec = CircularRecord(Seq(seq), id=rid, name=rid, description="record " + rid)
        decorate(rec, nfeat, citations)
        if rotation:
            rec = rec >> rotation
        return rec
    rec = SeqRecord(Seq(seq), id=rid, name=rid, description="record " + rid)
    if kind == "linear":
        rec.annotations["topology"] = "linear"
    elif kind == "Linear":
        rec.annotations["topology"] = "LiNeAr"
    elif kind == "circular-annot":
        rec.annotations["topology"] = "circular"
    elif kind == "CIRCULAR":
        rec.annotations["topology"] = "CIRCULAR"
    decorate(rec, nfeat, citations)
    if rotation and kind != "circ":
        # rotate a plain record through a CircularRecord, then unwrap
        tmp = CircularRecord(Seq(seq), id=rid, name=rid, description="record " + rid)
        tmp = tmp >> rotation
        rec = SeqRecord(
            tmp.seq, id=rid, name=rid, description="record " + rid,
            annotations=dict(rec.annotations), features=list(tmp.features),
        )
    return rec


KINDS = ["circ"] * 7 + ["seqrec", "linear", "Linear", "circular-annot", "CIRCULAR"]


def pick_rotation(n):
    c = RNG.random()
    if c < 0.2:
        return 0
    if c < 0.6:
        return RNG.randrange(1, max(2, n))
    if c < 0.75:
        return -RNG.randrange(1, max(2, n))
    if c < 0.9:
        return n + RNG.randrange(0, 3 * n + 1)
    return -(n + RNG.randrange(0, 2 * n + 1))


# --- classes under test -----------------------------------------------------

CUTTERS = [BsaI, BsmBI, BpiI, SapI, BseRI, BtsI]
MODULE_BASES = [Product, Entry, Cassette, Device]
VECTOR_BASES = [EntryVector, CassetteVector, DeviceVector]


def subclass(name, bases, **attrs):
    return type(str(name), tuple(bases), dict(attrs))


MODS = {}
VECS = {}
for c in CUTTERS:
    for b in MODULE_BASES:
        MODS[c, b] = subclass("{}{}".format(c.__name__, b.__name__), [b], cutter=c)
    for b in VECTOR_BASES:
        VECS[c, b] = subclass("{}{}".format(c.__name__, b.__name__), [b], cutter=c)


def probe(entity, vector=False):
    """Everything observable on one entity, asked twice (caching, re-raising)."""
    before = ser(entity.record)
    res = []
    names = ["is_valid", "overhang_start", "overhang_end", "target_sequence"]
    if vector:
        names.append("placeholder_sequence")
    for rnd in range(2):
        order = list(names)
        if rnd:
            order.reverse()
        for n in order:
            res.append((n, attempt(lambda: getattr(entity, n)())))
    res.append(("seq-is-record-seq", entity.seq is entity.record.seq))
    res.append(("record-untouched", ser(entity.record) == before))
    return res


# --- 1. structures ----------------------------------------------------------

def section_structures():
    for key in sorted(MODS, key=lambda k: (k[0].__name__, k[1].__name__)):
        cls = MODS[key]
        emit("structure", cls.__name__, attempt(cls.structure), attempt(cls.structure), cls._level)
    for key in sorted(VECS, key=lambda k: (k[0].__name__, k[1].__name__)):
        cls = VECS[key]
        emit("structure", cls.__name__, attempt(cls.structure), attempt(cls.structure), cls._level)
    for base in MODULE_BASES + VECTOR_BASES + [AbstractModule, AbstractVector, AbstractPart]:
        emit("abstract-structure", base.__name__, attempt(base.structure))
        emit("abstract-new", base.__name__, attempt(base, SeqRecord(Seq("ATGC"), id="x")))
    for bad in (SmaI, Rtr1953I):
        for base in (Entry, EntryVector):
            cls = subclass("Bad{}{}".format(bad.__name__, base.__name__), [base], cutter=bad)
            emit("bad-cutter", cls.__name__, attempt(cls.structure),
                 attempt(cls, SeqRecord(Seq("ATGC"), id="x")))
        cls = subclass("Bad{}Part".format(bad.__name__), [AbstractPart, Entry],
                       cutter=bad, signature=("AAAA", "CCCC"))
        emit("bad-cutter", cls.__name__, attempt(cls.structure),
             attempt(cls, SeqRecord(Seq("ATGC"), id="x")))
    # EcoRI: a non type IIS cutter is accepted by cutter_check
    for base in (Entry, EntryVector):
        cls = subclass("EcoRI{}".format(base.__name__), [base], cutter=EcoRI)
        emit("ecori", cls.__name__, attempt(cls.structure))
        rec = CircularRecord(Seq(rand_dna(30) + "GAATTC" + rand_dna(30) + "GAATTC" + rand_dna(20)), id="eco")
        emit("ecori-probe", probe(cls(rec), vector=issubclass(cls, AbstractVector)))


# --- 2. parts: structures, signatures, characterize -------------------------

def part_classes():
    out = []
    sigs4 = [("ATGC", "ATTC"), ("CCCT", "AACG"), ("aacg", "TATG"), ("TaTG", "atCC"),
             ("NNNN", "GCTG"), ("GGAG", "GGAG")]
    sigs3 = [("ATG", "GGT"), ("CCA", "TTA")]
    sigs2 = [("AT", "GC"), ("CC", "TA")]
    for c in CUTTERS:
        _, _, novhg, _ = layout(c)
        sigs = {4: sigs4, 3: sigs3, 2: sigs2}[novhg]
        for i, sig in enumerate(sigs):
            for b in (Entry, Cassette):
                out.append(subclass("{}{}Part{}".format(c.__name__, b.__name__, i),
                                    [AbstractPart, b], cutter=c, signature=sig))
            for b in (EntryVector, CassetteVector):
                out.append(subclass("{}{}Part{}".format(c.__name__, b.__name__, i),
                                    [AbstractPart, b], cutter=c, signature=sig))
    return out


PARTS = part_classes()


def section_parts():
    for cls in PARTS:
        emit("part-structure", cls.__name__, attempt(cls.structure), attempt(cls.structure))

    # degenerate declarations
    degenerate = [
        subclass("NoSigModule", [AbstractPart, Entry], cutter=BsaI),
        subclass("NoSigVector", [AbstractPart, EntryVector], cutter=BsaI),
        subclass("NoCutterPart", [AbstractPart, Entry], signature=("ATGC", "ATTC")),
        subclass("NothingPart", [AbstractPart, Entry]),
        subclass("OnlyPart", [AbstractPart], cutter=BsaI, signature=("ATGC", "ATTC")),
        subclass("OnlyPartNoSig", [AbstractPart], cutter=BsaI),
        subclass("OnlyPartBadSig", [AbstractPart], cutter=BsaI, signature=("A", "B", "C")),
        subclass("Sig3Tuple", [AbstractPart, Entry], cutter=BsaI, signature=("A", "B", "C")),
        subclass("Sig1Tuple", [AbstractPart, EntryVector], cutter=BsaI, signature=("ATGC",)),
        subclass("SigStr2", [AbstractPart, Entry], cutter=BsaI, signature="AT"),
        subclass("SigNone", [AbstractPart, Entry], cutter=BsaI, signature=None),
        subclass("SigInt", [AbstractPart, EntryVector], cutter=BsaI, signature=(1, 2)),
        subclass("SigRegex", [AbstractPart, Entry], cutter=BsaI, signature=("A(", "TTTT")),
        subclass("ModuleFirst", [Entry, AbstractPart], cutter=BsaI, signature=("ATGC", "ATTC")),
        subclass("VectorFirst", [EntryVector, AbstractPart], cutter=BsaI, signature=("ATGC", "ATTC")),
        subclass("Both", [AbstractPart, Entry, EntryVector], cutter=BsaI, signature=("ATGC", "ATTC")),
        subclass("BothVectorFirst", [AbstractPart, EntryVector, Entry], cutter=BsaI, signature=("ATGC", "ATTC")),
    ]
    seq, _ = module_seq(BsaI, "ATGC", "ATTC", 20, 40)
    for cls in degenerate:
        rec = CircularRecord(Seq(seq), id="deg")
        emit("degenerate", cls.__name__, attempt(cls.structure), attempt(cls.structure))
        ent = attempt(cls, rec)
        emit("degenerate-new", cls.__name__, ent)
        if ent[0][0] == "OK":
            e = cls(rec)
            emit("degenerate-probe", cls.__name__, probe(e, vector=isinstance(e, AbstractVector)))
        emit("degenerate-characterize", cls.__name__, attempt(cls.characterize, rec))

    # records for the well-formed parts
    for cls in PARTS:
        is_vec = issubclass(cls, AbstractVector)
        c = cls.cutter
        up, down = cls.signature
        up, down = up.replace("N", "G"), down.replace("N", "G")
        for variant in range(4):
            o1, o2 = up, down
            if variant == 1:
                o1, o2 = o1.lower(), o2.upper()
            if variant == 2:                       # wrong overhang
                o1 = rc(o1)
            extra = variant == 3
            if is_vec:
                seq, _ = vector_seq(c, o2, o1, RNG.randint(0, 25), RNG.randint(0, 60), extra)
            else:
                seq, _ = module_seq(c, o1, o2, RNG.randint(0, 25), RNG.randint(0, 60), extra)
            if RNG.random() < 0.4:
                seq = mixcase(seq, RNG.random())
            kind = RNG.choice(KINDS)
            rec = make_record(seq, "p{}".format(variant), kind, pick_rotation(len(seq)))
            emit("part-probe", cls.__name__, variant, kind, probe(cls(rec), vector=is_vec))


def section_characterize():
    # a user-defined hierarchy, as the kits do
    class MyPart(AbstractPart):
        cutter = BsaI
        signature = NotImplemented

    class MyEntry(Entry):
        cutter = BsaI

    class MyVec(CassetteVector):
        cutter = BsaI

    sigs = [("CCCT", "AACG"), ("AACG", "TATG"), ("TATG", "ATCC"), ("ATCC", "GCTG"),
            ("GCTG", "TACA"), ("TACA", "CCCT")]
    leaves = []
    for i, sig in enumerate(sigs[:-1]):
        leaves.append(subclass("MyPart{}".format(i), [MyPart, MyEntry], signature=sig))
    leaves.append(subclass("MyPartV", [MyPart, MyVec], signature=sigs[-1]))
    # a grand-child: not reached by __subclasses__ of MyPart
    grand = subclass("MyPart0Child", [leaves[0]], signature=("GGGG", "TTTT"))

    class Concrete(AbstractPart, Entry):
        cutter = BsmBI
        signature = ("ATGC", "ATTC")

    class ConcreteChild(Concrete):
        signature = ("CCCC", "ATTC")

    class ConcreteAbstractChild(Concrete):
        cutter = NotImplemented

    emit("characterize-classes", [c.__name__ for c in MyPart.__subclasses__()])

    def records():
        for i, sig in enumerate(sigs + [("GGGG", "TTTT"), ("ACAC", "TGTG")]):
            for v in range(3):
                extra = v == 2
                if i == 5:
                    seq, _ = vector_seq(BsaI, sig[1], sig[0], RNG.randint(0, 20), RNG.randint(5, 50), extra)
                else:
                    seq, _ = module_seq(BsaI, sig[0], sig[1], RNG.randint(0, 20), RNG.randint(5, 50), extra)
                if v == 1:
                    seq = mixcase(seq, 0.5)
                kind = RNG.choice(KINDS)
                yield i, v, kind, make_record(seq, "c{}_{}".format(i, v), kind, pick_rotation(len(seq)))
        yield 99, 0, "circ", make_record(rand_dna(50), "nosite", "circ")
        yield 99, 1, "circ", make_record("", "empty", "circ")
        yield 99, 2, "seqrec", make_record("ATG", "tiny", "seqrec")

    for i, v, kind, rec in records():
        before = ser(rec)
        for base in [MyPart, leaves[0], leaves[-1], grand, AbstractPart]:
            emit("characterize", base.__name__, i, v, kind, attempt(base.characterize, rec))
        emit("characterize-untouched", ser(rec) == before)

    for sig in [("ATGC", "ATTC"), ("CCCC", "ATTC"), ("AAAA", "ATTC")]:
        for _ in range(3):
            seq, _ = module_seq(BsmBI, sig[0], sig[1], RNG.randint(0, 20), RNG.randint(5, 50))
            rec = make_record(seq, "k", "circ", pick_rotation(len(seq)))
            for base in (Concrete, ConcreteChild, ConcreteAbstractChild):
                emit("characterize2", base.__name__, sig, attempt(base.characterize, rec))


# --- 3. modules and vectors on generated records ----------------------------

def rand_overhang(n):
    return rand_dna(n)


def section_entities(n_iter=320):
    for it in range(n_iter):
        c = RNG.choice([BsaI, BsaI, BsmBI, BsmBI, BpiI, BpiI, SapI, SapI, BseRI, BtsI])
        _, _, novhg, _ = layout(c)
        is_vec = RNG.random() < 0.5
        cls = (VECS if is_vec else MODS)[c, RNG.choice(VECTOR_BASES if is_vec else MODULE_BASES)]
        o1, o2 = rand_overhang(novhg), rand_overhang(novhg)
        scenario = RNG.choice(["ok", "ok", "ok", "extra", "nosite", "onesite", "empty-target", "short", "N"])
        tlen = RNG.randint(0, 40)
        blen = RNG.randint(0, 80)
        if scenario == "empty-target":
            tlen = 0
        if is_vec:
            seq, ncore = vector_seq(c, o1, o2, tlen, blen, scenario == "extra")
        else:
            seq, ncore = module_seq(c, o1, o2, tlen, blen, scenario == "extra")
        if scenario == "nosite":
            seq = rand_dna(len(seq))
        elif scenario == "onesite":
            seq = seq[: ncore // 2] + rand_dna(len(seq) - ncore // 2)
        elif scenario == "short":
            seq = seq[: RNG.randint(0, 8)]
        elif scenario == "N":
            k = RNG.randrange(0, len(seq))
            seq = seq[:k] + "N" + seq[k + 1:]
        if RNG.random() < 0.35:
            seq = mixcase(seq, RNG.random())
        kind = RNG.choice(KINDS)
        rot = pick_rotation(len(seq)) if seq else 0
        rec = make_record(seq, "r{}".format(it), kind, rot, nfeat=RNG.randint(0, 3),
                          citations=RNG.random() < 0.3)
        ent = cls(rec)
        emit("entity", it, cls.__name__, scenario, kind, rot, len(seq), probe(ent, vector=is_vec))
        # a second wrapper of the same class on the same record (per-class regex)
        ent2 = cls(rec)
        emit("entity-again", it, attempt(ent2.is_valid), attempt(ent2.target_sequence))


# --- 3b. records edited behind the back of an entity (what is cached when) ---

def section_stale(n_iter=80):
    for it in range(n_iter):
        c = RNG.choice([BsaI, BsmBI, BpiI, SapI])
        site, _, novhg, _ = layout(c)
        is_vec = RNG.random() < 0.5
        cls = (VECS if is_vec else MODS)[c, RNG.choice(VECTOR_BASES if is_vec else MODULE_BASES)]
        o1, o2 = rand_dna(novhg), rand_dna(novhg)
        build = vector_seq if is_vec else module_seq
        ok, ncore = build(c, o1, o2, RNG.randint(2, 30), RNG.randint(len(site) + 2, 60))
        k = RNG.randrange(ncore, len(ok) - len(site) + 1)
        ill = ok[:k] + (site if RNG.random() < 0.5 else rc(site)) + ok[k + len(site):]
        other, _ = build(c, rand_dna(novhg), rand_dna(novhg), 5, 5)
        other = (other + rand_dna(len(ok)))[: len(ok)]
        versions = {"ok": ok, "ill": ill, "none": rand_dna(len(ok)), "other": other}
        first, second = RNG.choice([
            ("ok", "ill"), ("ill", "ok"), ("ok", "none"), ("none", "ok"), ("ill", "none"),
            ("ok", "other"), ("ill", "other"), ("ill", "ill"),
        ])
        rot = pick_rotation(len(ok))
        rec = make_record(versions[first], "s{}".format(it), "circ", rot)
        ent = cls(rec)
        calls = RNG.choice([["is_valid"], ["overhang_start"], ["is_valid", "target_sequence"], []])
        before = [(n, attempt(lambda: getattr(ent, n)())) for n in calls]
        rec.seq = (CircularRecord(Seq(versions[second]), id="tmp") >> rot).seq
        after = probe(ent, vector=is_vec)
        fresh = probe(cls(rec), vector=is_vec)
        emit("stale", it, cls.__name__, first, second, calls, before, after, fresh)


# --- 4. assemblies ----------------------------------------------------------

def distinct_overhangs(k, n):
    seen = []
    while len(seen) < k:
        o = rand_dna(n)
        if o in seen or rc(o) in seen or o == rc(o):
            continue
        seen.append(o)
    return seen


def section_assemblies(n_iter=220):
    cutters5 = [BsaI, BsmBI, BpiI, SapI]
    for it in range(n_iter):
        c = RNG.choice(cutters5)
        _, _, novhg, _ = layout(c)
        level = RNG.randrange(3)
        vcls = VECS[c, VECTOR_BASES[level]]
        mcls = MODS[c, MODULE_BASES[level]]
        k = RNG.randint(1, 5)
        ovs = distinct_overhangs(k + 1, novhg)
        scenario = RNG.choice([
            "ok", "ok", "ok", "ok", "missing", "duplicate", "same-object-twice", "unused", "unused",
            "revcomp", "vector-same", "invalid-module", "illegal-module", "mixedcase",
            "linear-module", "seqrec-vector", "illegal-vector", "missing-last",
        ])
        cit = RNG.random() < 0.5
        vo_end, vo_start = ovs[0], ovs[k]
        if scenario == "vector-same":
            vo_start = vo_end if RNG.random() < 0.5 else vo_end.lower()
        vseq, _ = vector_seq(c, vo_end, vo_start, RNG.randint(0, 30), RNG.randint(10, 80),
                             scenario == "illegal-vector")
        if scenario == "mixedcase":
            vseq = mixcase(vseq, 0.5)
        vkind = "seqrec" if scenario == "seqrec-vector" else "circ"
        vrec = make_record(vseq, "vec{}".format(it), vkind, pick_rotation(len(vseq)),
                           nfeat=RNG.randint(0, 3), citations=cit)
        mrecs = []
        for i in range(k):
            a, b = ovs[i], ovs[i + 1]
            mseq, _ = module_seq(c, a, b, RNG.randint(0, 40), RNG.randint(0, 60),
                                 scenario == "illegal-module" and i == 0)
            if scenario == "mixedcase":
                mseq = mixcase(mseq, 0.5)
            if scenario == "invalid-module" and i == k - 1:
                mseq = rand_dna(len(mseq))
            mkind = "linear" if (scenario == "linear-module" and i == 0) else "circ"
            mrecs.append(make_record(mseq, "mod{}_{}".format(it, i), mkind,
                                     pick_rotation(len(mseq)), nfeat=RNG.randint(0, 3),
                                     citations=cit and RNG.random() < 0.8))
        mods = [mcls(r) for r in mrecs]
        if scenario == "missing" and k > 1:
            del mods[RNG.randrange(len(mods))]
        elif scenario == "missing-last":
            del mods[-1]
        elif scenario == "duplicate":
            j = RNG.randrange(k)
            dseq, _ = module_seq(c, ovs[j] if RNG.random() < 0.5 else ovs[j].lower(),
                                 ovs[j + 1], 10, 20)
            mods.insert(RNG.randrange(len(mods) + 1), mcls(make_record(dseq, "dup{}".format(it), "circ")))
        elif scenario == "same-object-twice":
            mods.append(mods[RNG.randrange(len(mods))])
        elif scenario == "unused":
            extra = distinct_overhangs(k + 3, novhg)
            extra = [o for o in extra if o not in ovs and rc(o) not in ovs][:2]
            if len(extra) == 2:
                useq, _ = module_seq(c, extra[0], extra[1], 10, 20)
                mods.append(mcls(make_record(useq, "unused{}".format(it), "circ", citations=cit)))
        elif scenario == "revcomp":
            j = RNG.randrange(k)
            rseq, _ = module_seq(c, rc(ovs[j]), ovs[j + 1], 10, 20)
            mods.append(mcls(make_record(rseq, "rc{}".format(it), "circ")))
        RNG.shuffle(mods)
        kwargs = RNG.choice([{}, {"name": "n{}".format(it)}, {"id": "i{}".format(it)},
                             {"name": "n", "id": "i", "ignored": 1}])
        vec = vcls(vrec)
        if RNG.random() < 0.3:
            # warm the caches first
            attempt(vec.is_valid)
            for m in mods:
                attempt(m.is_valid)
        for rnd in range(2):   # twice: records must come back re-referenced
            res = attempt(vec.assemble, *mods, **kwargs) if mods else attempt(vec.assemble)
            emit("assembly", it, rnd, scenario, c.__name__, level, k, sorted(kwargs), res)
            emit("assembly-records", it, rnd, ser(vrec), [ser(m.record) for m in mods])
        emit("assembly-post", it, probe(vec, vector=True), [probe(m) for m in mods[:2]])


# --- 5. the YTK kit on its registry -----------------------------------------

def section_ytk():
    from moclo.registry.ytk import YTKRegistry
    from moclo.kits import ytk

    reg = YTKRegistry()
    items = {key: reg[key] for key in sorted(reg)}
    by_type = {}
    for key, item in items.items():
        ent = item.entity
        by_type.setdefault(type(ent).__name__, []).append(key)
        emit("ytk-item", key, type(ent).__name__,
             probe(ent, vector=isinstance(ent, AbstractVector)))
    keys = sorted(items)
    # characterisation of rotated records, through the kit's base part class
    for key in RNG.sample(keys, 30):
        rec = items[key].entity.record
        rot = rec >> pick_rotation(len(rec))
        emit("ytk-characterize", key, attempt(ytk.YTKPart.characterize, rot))
        emit("ytk-structure", key, attempt(type(items[key].entity).structure))

    def pick(tname):
        return type(items[by_type[tname][0]].entity)(
            copy.deepcopy(items[RNG.choice(by_type[tname])].entity.record))

    plans = [
        ["YTKPart1", "YTKPart2", "YTKPart3", "YTKPart4", "YTKPart5", "YTKPart6", "YTKPart7"],
        ["YTKPart1", "YTKPart2", "YTKPart3a", "YTKPart3b", "YTKPart4a", "YTKPart4b", "YTKPart5",
         "YTKPart6", "YTKPart7"],
        ["YTKPart1", "YTKPart234", "YTKPart5", "YTKPart6", "YTKPart7"],
        ["YTKPart1", "YTKPart2", "YTKPart3", "YTKPart4", "YTKPart5"],
    ]
    vectors = {"YTKPart8": plans[:3], "YTKPart8a": [], "YTKPart678": [plans[3]]}
    n = 0
    for vname in sorted(vectors):
        for plan in vectors[vname]:
            for faulty in (None, "drop", "dup", "extra"):
                if vname not in by_type:
                    continue
                vec = pick(vname)
                mods = [pick(t) for t in plan if t in by_type]
                if faulty == "drop":
                    del mods[RNG.randrange(len(mods))]
                elif faulty == "dup":
                    mods.append(pick(plan[RNG.randrange(len(plan))]))
                elif faulty == "extra":
                    mods.append(pick("YTKPart3a" if "YTKPart3" in plan else "YTKPart3"))
                RNG.shuffle(mods)
                res = attempt(vec.assemble, *mods, id="ytk{}".format(n), name="ytk")
                emit("ytk-assembly", n, vname, faulty, [m.record.id for m in mods], res)
                emit("ytk-assembly-records", n, ser(vec.record), [ser(m.record) for m in mods])
                n += 1


def main():
    section_structures()
    section_parts()
    section_characterize()
    section_entities()
    section_stale()
    section_assemblies()
    section_ytk()
    blob = "\n".join(OUT).encode("utf-8")
    kinds = {}
    for line in OUT:
        tag = line.split("'")[1]
        kinds[tag] = kinds.get(tag, 0) + 1
    sys.stderr.write("focus: {}\nobservations: {} {}\n".format(FOCUS, len(OUT), sorted(kinds.items())))
    print(hashlib.sha256(blob).hexdigest())


if __name__ == "__main__":
    main()
