# coding: utf-8
"""Differential test for the C09 refactorings.

Runs a few hundred generated assemblies (three enzymes, plasmids rotated so the
match wraps the origin, mixed letter case, annotated inputs with citations,
products re-used as modules, failing assemblies, unused modules, plain
``SeqRecord`` vs ``CircularRecord`` inputs) plus direct calls of the helpers
involved, and prints a digest of everything observable: results, exception
types and messages, warnings, and the state of the inputs afterwards.  The
digest must be identical before and after a behaviour-preserving refactoring.
"""
import hashlib
import io
import random
import re
import sys
import warnings

sys.path.insert(0, "/tmp/agents6/C09")
warnings.simplefilter("ignore")
import tests  # noqa: E402,F401

from Bio import SeqIO  # noqa: E402
from Bio.Restriction import BpiI, BsaI, BsmBI, EcoRV, BseRI  # noqa: E402
from Bio.Seq import Seq  # noqa: E402
from Bio.SeqFeature import SeqFeature, FeatureLocation, CompoundLocation, Reference  # noqa: E402
from Bio.SeqRecord import SeqRecord  # noqa: E402

from moclo import errors  # noqa: E402,F401
from moclo.core import _utils as core_utils  # noqa: E402
from moclo.core import _assembly  # noqa: E402
from moclo.core.modules import AbstractModule, Entry, Product  # noqa: E402
from moclo.core.vectors import AbstractVector, EntryVector  # noqa: E402
from moclo.core.parts import AbstractPart  # noqa: E402
from moclo.record import CircularRecord  # noqa: E402
from moclo.regex import DNARegex  # noqa: E402

ENZYMES = {
    "BpiI": (BpiI, "GAAGAC", 2),
    "BsaI": (BsaI, "GGTCTC", 1),
    "BsmBI": (BsmBI, "CGTCTC", 1),
}
FORBIDDEN = []
for _, (_, _site, _) in sorted(ENZYMES.items()):
    FORBIDDEN += [_site, str(Seq(_site).reverse_complement())]

CLASSES = {}
for _name, (_enz, _, _) in ENZYMES.items():
    CLASSES[_name] = (
        type(str("V" + _name), (AbstractVector,), {"cutter": _enz}),
        type(str("M" + _name), (AbstractModule,), {"cutter": _enz}),
    )


def rc(s):
    return str(Seq(s).reverse_complement())


def clean(s):
    u = s.upper() * 2
    return not any(site in u for site in FORBIDDEN)


def rand_dna(rng, n):
    while True:
        s = "".join(rng.choice("ACGT") for _ in range(n))
        if clean(s):
            return s


def rand_case(rng, s):
    return "".join(c.lower() if rng.random() < 0.4 else c for c in s)


def overhangs(rng, n):
    out = []
    while len(out) < n:
        o = rand_dna(rng, 4)
        if o in out or rc(o) in out or rc(o) == o:
            continue
        out.append(o)
    return out


def module_plasmid(rng, enz, oh1, oh2, tlen=30, blen=40, inner=""):
    _, site, k = ENZYMES[enz]
    while True:
        target = rand_dna(rng, tlen) + inner + rand_dna(rng, 3)
        backbone = rand_dna(rng, blen)
        s = site + rand_dna(rng, k) + oh1 + target + oh2 + rand_dna(rng, k) + rc(site) + backbone
        u = s.upper() * 2
        if sum(u.count(f) for f in FORBIDDEN) == 4 + 2 * sum(inner.count(f) for f in FORBIDDEN):
            return s


def vector_plasmid(rng, enz, oh_end, oh_start, dlen=20, blen=50):
    _, site, k = ENZYMES[enz]
    while True:
        left = rand_dna(rng, blen // 2 + 1)
        right = rand_dna(rng, blen // 2 + 1)
        drop = rand_dna(rng, dlen)
        s = (
            left + oh_end + rand_dna(rng, k) + rc(site) + drop + site
            + rand_dna(rng, k) + oh_start + right
        )
        u = s.upper() * 2
        if sum(u.count(f) for f in FORBIDDEN) == 4:
            return s


def make_reference(rng, tag):
    ref = Reference()
    ref.title = "title {} {}".format(tag, rng.randrange(1000))
    ref.authors = "A. {}".format(tag)
    ref.journal = "J. Irreproducible Results {}".format(rng.randrange(50))
    return ref


def record(rng, seq, id_, shift=0, mixed=False, annotate=True, cite=False, cls=CircularRecord,
           topology="circular"):
    if mixed:
        seq = rand_case(rng, seq)
    rec = cls(Seq(seq), id=id_, name=id_, description="plasmid " + id_)
    rec.annotations["molecule_type"] = "DNA"
    n = len(seq)
    if annotate:
        for j in range(4):
            a = rng.randrange(0, n - 6)
            b = rng.randrange(a + 3, min(n, a + 30))
            rec.features.append(
                SeqFeature(
                    FeatureLocation(a, b, strand=rng.choice([1, -1, None])),
                    type=rng.choice(["misc_feature", "CDS", "promoter"]),
                    id="{}_feat{}".format(id_, j),
                    qualifiers={"label": ["{}_f{}".format(id_, j)]},
                )
            )
        # a feature spanning the origin and a whole-length source feature
        rec.features.append(
            SeqFeature(
                CompoundLocation([FeatureLocation(n - 5, n, strand=1), FeatureLocation(0, 4, strand=1)]),
                type="misc_feature",
                qualifiers={"label": ["{}_wrap".format(id_)]},
            )
        )
        rec.features.append(
            SeqFeature(FeatureLocation(0, n), type="source", qualifiers={"organism": ["E. coli"]})
        )
    if cite:
        refs = [make_reference(rng, "{}r{}".format(id_, j)) for j in range(rng.randrange(1, 4))]
        rec.annotations["references"] = refs
        for f in rec.features:
            if rng.random() < 0.7:
                f.qualifiers["citation"] = [
                    "[{}]".format(rng.randrange(1, len(refs) + 1)) for _ in range(rng.randrange(1, 3))
                ]
    if shift and cls is CircularRecord:
        rec = rec >> (shift % len(rec))
    if topology is not None:
        rec.annotations["topology"] = topology
    return rec


# --- descriptions -------------------------------------------------------------


def d_value(v):
    if isinstance(v, Reference):
        return ("Reference", v.title, v.authors, v.journal, [str(loc) for loc in v.location])
    if isinstance(v, (list, tuple)):
        return [d_value(x) for x in v]
    if isinstance(v, dict):
        return [(k, d_value(x)) for k, x in v.items()]
    return repr(v)


def d_feature(f):
    return (f.type, f.id, repr(f.location), [(k, d_value(v)) for k, v in f.qualifiers.items()])


def d_record(rec):
    if rec is None:
        return None
    return (
        type(rec).__name__,
        str(rec.seq),
        rec.id,
        rec.name,
        rec.description,
        list(rec.dbxrefs),
        [(k, d_value(v)) for k, v in rec.annotations.items()],
        [d_feature(f) for f in rec.features],
        [(k, d_value(v)) for k, v in rec.letter_annotations.items()],
    )


def d_sharing(product, inputs):
    """How the product's features alias each other / the inputs (by identity)."""
    in_feats = set()
    in_quals = set()
    for rec in inputs:
        for f in rec.features:
            in_feats.add(id(f))
            in_quals.add(id(f.qualifiers))
    feats = product.features
    return (
        len(feats),
        len(set(id(f) for f in feats)),
        len(set(id(f.qualifiers) for f in feats)),
        len(set(id(f.location) for f in feats)),
        sum(1 for f in feats if id(f) in in_feats),
        sum(1 for f in feats if id(f.qualifiers) in in_quals),
    )


def genbank(rec):
    try:
        buf = io.StringIO()
        SeqIO.write([rec], buf, "genbank")
        return buf.getvalue()
    except Exception as exc:  # noqa
        return "genbank failed: {}: {}".format(type(exc).__name__, exc)


def observe(fn):
    """Run fn, return (result-or-exception description, warnings)."""
    with warnings.catch_warnings(record=True) as caught:
        warnings.simplefilter("always")
        try:
            out = ("ok", fn())
        except Exception as exc:  # noqa
            extra = []
            for attr in ("details", "start_overhang"):
                if hasattr(exc, attr):
                    extra.append((attr, repr(getattr(exc, attr))))
            if hasattr(exc, "duplicates"):
                extra.append(("duplicates", [d.record.id for d in exc.duplicates]))
            if hasattr(exc, "sequence"):
                what = exc.sequence
                if hasattr(what, "record"):
                    what = (type(what).__name__, what.record.id)
                elif hasattr(what, "id"):
                    what = (type(what).__name__, what.id)
                else:
                    what = (type(what).__name__, str(what))
                extra.append(("sequence", what))
            message = re.sub(r"0x[0-9a-fA-F]+", "0x?", str(exc))
            out = ("raise", type(exc).__name__, message, extra)
    warns = []
    for w in caught:
        if w.category.__module__.startswith("moclo"):
            warns.append((w.category.__name__, str(w.message)))
    return out, warns


class Log(object):
    def __init__(self):
        self.sections = []
        self.current = None
        self.counts = {}

    def section(self, name):
        self.current = (name, hashlib.sha256(), [0])
        self.sections.append(self.current)

    def add(self, *things):
        blob = repr(things).encode("utf-8")
        self.current[1].update(blob)
        self.current[2][0] += 1

    def tally(self, key):
        self.counts[key] = self.counts.get(key, 0) + 1

    def report(self):
        total = hashlib.sha256()
        for name, h, n in self.sections:
            print("{:<28} {:>5} entries  {}".format(name, n[0], h.hexdigest()[:32]))
            total.update(h.digest())
        for key in sorted(self.counts):
            print("  {:<40} {}".format(key, self.counts[key]))
        print("DIGEST " + total.hexdigest())


LOG = Log()


def run_assembly(vec, mods, label, **kwargs):
    inputs = [m.record for m in mods] + [vec.record]
    out, warns = observe(lambda: vec.assemble(*mods, **kwargs))
    if out[0] == "ok":
        product = out[1]
        LOG.tally("assembled")
        LOG.add(label, "product", d_record(product), d_sharing(product, inputs), genbank(product), warns)
    else:
        product = None
        LOG.tally("raised " + out[1])
        LOG.add(label, out, warns)
    if warns:
        LOG.tally("warned " + warns[0][0])
    LOG.add(label, "inputs after", [d_record(r) for r in inputs])
    return product


def build(rng, enz, n_modules, shift, mixed, cite, tag, extra_ohs=0):
    vcls, mcls = CLASSES[enz]
    ohs = overhangs(rng, n_modules + 1 + extra_ohs)
    vec = vcls(record(rng, vector_plasmid(rng, enz, ohs[0], ohs[n_modules]), tag + "_vec",
                      shift=rng.randrange(300) if shift else 0, mixed=mixed, cite=cite))
    mods = []
    for i in range(n_modules):
        seq = module_plasmid(rng, enz, ohs[i], ohs[i + 1], tlen=rng.randrange(8, 40))
        mods.append(mcls(record(rng, seq, "{}_mod{}".format(tag, i + 1),
                                shift=rng.randrange(300) if shift else 0, mixed=mixed, cite=cite)))
    return vec, mods, ohs


def section_assemblies(rng):
    LOG.section("assemblies")
    n = 0
    for rep in range(3):
        for enz in sorted(ENZYMES):
            for n_modules in (1, 2, 3, 5):
                for shift in (False, True):
                    for mixed in (False, True):
                        n += 1
                        cite = (n % 3) != 0
                        tag = "a{}".format(n)
                        vec, mods, _ = build(rng, enz, n_modules, shift, mixed, cite, tag)
                        rng.shuffle(mods)
                        kwargs = {}
                        if n % 2:
                            kwargs["id"] = "ID{}".format(n)
                        if n % 5:
                            kwargs["name"] = "name{}".format(n)
                        product = run_assembly(vec, mods, tag, **kwargs)
                        if n % 7 == 0:  # the same objects assembled a second time
                            run_assembly(vec, mods, tag + "/again", id="again")
                        if product is not None and n % 4 == 0:
                            # the individual fragments, as handed to the assembly
                            for e in mods + [vec]:
                                LOG.add(tag, "fragment", d_record(e.target_sequence()))
                                LOG.add(tag, "overhangs", str(e.overhang_start()), str(e.overhang_end()),
                                        type(e.overhang_start()).__name__)
                            LOG.add(tag, "placeholder", d_record(vec.placeholder_sequence()))


def section_multilevel(rng):
    LOG.section("multi-level")
    vcls1, mcls1 = CLASSES["BsaI"]
    vcls2, mcls2 = CLASSES["BpiI"]
    for n in range(12):
        tag = "t{}".format(n)
        a, b, c, x, y = overhangs(rng, 5)
        while True:
            right = rand_dna(rng, 10) + y + rand_dna(rng, 2) + "GTCTTC" + rand_dna(rng, 25)
            left = rand_dna(rng, 12) + "GAAGAC" + rand_dna(rng, 2) + x + rand_dna(rng, 9)
            s = (left + a + rand_dna(rng, 1) + rc("GGTCTC") + rand_dna(rng, 18) + "GGTCTC"
                 + rand_dna(rng, 1) + c + right)
            u = s.upper() * 2
            if (u.count("GGTCTC"), u.count("GAGACC"), u.count("GAAGAC"), u.count("GTCTTC"),
                    u.count("CGTCTC"), u.count("GAGACG")) == (2, 2, 2, 2, 0, 0):
                break
        cite = n % 2 == 0
        vec1 = vcls1(record(rng, s, tag + "_v1", shift=rng.randrange(100), cite=cite, mixed=n % 3 == 0))
        mods1 = [
            mcls1(record(rng, module_plasmid(rng, "BsaI", o1, o2), "{}_in{}".format(tag, i + 1),
                         shift=rng.randrange(100), cite=cite))
            for i, (o1, o2) in enumerate([(a, b), (b, c)])
        ]
        p1 = run_assembly(vec1, mods1, tag + "/1", id=tag + "_L1", name=tag + "_L1")
        vec2 = vcls2(record(rng, vector_plasmid(rng, "BpiI", x, y), tag + "_v2",
                            shift=rng.randrange(100), cite=cite))
        if n % 4 == 3:
            p1 = p1 >> rng.randrange(1, len(p1))
        mod2 = mcls2(p1)
        run_assembly(vec2, [mod2], tag + "/2", id=tag + "_L2", name=tag + "_L2")


def section_failures(rng):
    LOG.section("failing assemblies")
    for n in range(40):
        enz = sorted(ENZYMES)[n % 3]
        vcls, mcls = CLASSES[enz]
        tag = "f{}".format(n)
        kind = n % 10
        cite = (n // 10) % 2 == 0 if kind == 9 else n % 2 == 0
        vec, mods, ohs = build(rng, enz, 3, n % 4 == 1, n % 3 == 1, cite, tag, extra_ohs=2)
        if kind == 0:  # vector with twice the same overhang
            seq = vector_plasmid(rng, enz, ohs[0], ohs[0])
            vec = vcls(record(rng, seq, tag + "_vec", cite=cite))
        elif kind == 1:  # vector overhangs equal up to letter case
            seq = vector_plasmid(rng, enz, ohs[0].lower(), ohs[0])
            vec = vcls(record(rng, seq, tag + "_vec"))
        elif kind == 2:  # two modules with the same start overhang
            seq = module_plasmid(rng, enz, ohs[1].lower(), ohs[4])
            mods.append(mcls(record(rng, seq, tag + "_dup", cite=cite)))
        elif kind == 3:  # reverse-complementing overhangs
            seq = module_plasmid(rng, enz, rc(ohs[1]), ohs[4])
            mods.append(mcls(record(rng, seq, tag + "_rc", cite=cite)))
        elif kind == 4:  # missing module
            del mods[1]
        elif kind == 5:  # unused modules: a warning, and a product
            seq = module_plasmid(rng, enz, ohs[4], ohs[5])
            mods.append(mcls(record(rng, seq, tag + "_spare", cite=cite)))
        elif kind == 6:  # a module with an additional (illegal) site
            _, site, _ = ENZYMES[enz]
            seq = module_plasmid(rng, enz, ohs[1], ohs[2], inner=site)
            mods[1] = mcls(record(rng, seq, tag + "_illegal", cite=cite))
        elif kind == 7:  # a module that does not have the structure at all
            mods[1] = mcls(record(rng, rand_dna(rng, 90), tag + "_nomatch", cite=cite))
        elif kind == 8:  # an invalid citation on one input
            mods[2].record.features[0].qualifiers["citation"] = ["(1)"]
            vec.record.annotations.setdefault("references", [make_reference(rng, "x")])
            vec.record.features[0].qualifiers["citation"] = ["[1]"]
        elif kind == 9:  # the same module object supplied twice
            mods.append(mods[0])
        if n % 2:
            rng.shuffle(mods)
        run_assembly(vec, mods, tag, id=tag)
        if kind in (2, 4, 5):  # and once more with the very same objects
            run_assembly(vec, mods, tag + "/again", id=tag, name="second")


def section_records(rng):
    LOG.section("structured records")
    for n in range(60):
        enz = sorted(ENZYMES)[n % 3]
        vcls, mcls = CLASSES[enz]
        tag = "r{}".format(n)
        a, b = overhangs(rng, 2)
        rcls = [CircularRecord, SeqRecord][n % 2]
        topology = ["circular", "linear", None, "CIRCULAR"][(n // 2) % 4]
        if n % 4 < 2:
            seq = module_plasmid(rng, enz, a, b)
            ent = mcls(record(rng, seq, tag, mixed=n % 5 == 0, cls=rcls, topology=topology,
                              shift=(n * 7) % 90))
        else:
            seq = vector_plasmid(rng, enz, a, b)
            ent = vcls(record(rng, seq, tag, mixed=n % 5 == 0, cls=rcls, topology=topology,
                              shift=(n * 7) % 90))
        before = d_record(ent.record)
        LOG.add(tag, observe(ent.is_valid))
        LOG.add(tag, observe(lambda: str(ent.overhang_start())), observe(lambda: str(ent.overhang_end())))
        LOG.add(tag, observe(lambda: d_record(ent.target_sequence())))
        LOG.add(tag, observe(lambda: d_record(ent.target_sequence())))
        if hasattr(ent, "placeholder_sequence"):
            LOG.add(tag, observe(lambda: d_record(ent.placeholder_sequence())))
        LOG.add(tag, observe(lambda: (ent._match.span(0), ent._match.span(1), ent._match.span(2),
                                      ent._match.span(3), d_record(ent._match.group(0)))))
        LOG.add(tag, "unchanged", before == d_record(ent.record))
    # records with an illegal site / without the structure, asked twice
    for n in range(12):
        enz = sorted(ENZYMES)[n % 3]
        vcls, mcls = CLASSES[enz]
        _, site, _ = ENZYMES[enz]
        a, b = overhangs(rng, 2)
        if n % 2:
            ent = mcls(record(rng, module_plasmid(rng, enz, a, b, inner=rc(site)), "i{}".format(n)))
        else:
            ent = vcls(record(rng, rand_dna(rng, 70), "i{}".format(n)))
        for _ in range(2):
            LOG.add("illegal", n, observe(ent.is_valid), observe(lambda: str(ent.overhang_start())),
                    observe(lambda: d_record(ent.target_sequence())))


def section_helpers(rng):
    LOG.section("helpers")
    # add_as_source: with and without location, on both record types
    for n in range(40):
        src = record(rng, rand_dna(rng, 40), "src{}".format(n), annotate=n % 2 == 0)
        cls = [SeqRecord, CircularRecord][n % 2]
        dst = record(rng, rand_dna(rng, rng.randrange(1, 50)), "dst{}".format(n), annotate=False, cls=cls)
        if n % 8 == 7:
            dst = SeqRecord(Seq(""), id="empty")
        loc = None
        if n % 3 == 0:
            loc = FeatureLocation(1, max(2, len(dst) // 2), strand=[1, -1, None][n % 3])
        before_src = d_record(src)
        out = core_utils.add_as_source(src, dst, loc) if n % 2 else core_utils.add_as_source(src, dst, location=loc)
        LOG.add("add_as_source", n, out is dst, d_record(dst), before_src == d_record(src),
                loc is None or dst.features[-1].location is loc)
        out2 = core_utils.add_as_source(dst, dst)
        LOG.add("add_as_source twice", n, out2 is dst, d_record(dst),
                dst.features[-1].qualifiers is not dst.features[-2].qualifiers if len(dst.features) > 1 else None)
        dst.features[-1].qualifiers["plasmid"] = "edited"
        LOG.add("add_as_source after edit", d_record(core_utils.add_as_source(src, SeqRecord(Seq("ACGT"), id="z"))))
    # cutter_check
    for cutter, name in [(NotImplemented, "Thing"), (EcoRV, "Blunt"), (BsaI, "Fine"), (BseRI, "Three")]:
        LOG.add("cutter_check", name, observe(lambda: core_utils.cutter_check(cutter, name)))
    for cls in (AbstractModule, AbstractVector, Entry, EntryVector, Product, AbstractPart):
        LOG.add("abstract", cls.__name__, observe(lambda: cls(SeqRecord(Seq("ACGT")))))
    blunt = type(str("BluntModule"), (AbstractModule,), {"cutter": EcoRV})
    LOG.add("blunt", observe(lambda: blunt(SeqRecord(Seq("ACGT")))))
    # structures
    for enz in sorted(ENZYMES):
        vcls, mcls = CLASSES[enz]
        LOG.add("structure", enz, vcls.structure(), mcls.structure())
    three_v = type(str("V3"), (AbstractVector,), {"cutter": BseRI})
    three_m = type(str("M3"), (AbstractModule,), {"cutter": BseRI})
    LOG.add("structure 3'", three_v.structure(), three_m.structure())
    part = type(str("P1"), (AbstractPart, Entry), {"cutter": BsaI, "signature": ("ATGC", "ATTC")})
    vpart = type(str("P2"), (AbstractPart, EntryVector), {"cutter": BsaI, "signature": ("ATGC", "ATTC")})
    LOG.add("part structure", part.structure(), vpart.structure())
    seq = "GGTCTCAATGC" + rand_dna(rng, 20) + "ATTCAGAGACC" + rand_dna(rng, 30)
    p = part(record(rng, seq, "part1"))
    LOG.add("part", observe(p.is_valid), observe(lambda: d_record(p.target_sequence())))
    LOG.add("characterize", observe(lambda: type(part.characterize(record(rng, seq, "part2"))).__name__))
    # regex
    rx = DNARegex("GGTCTCN(NNNN)(NN*N)(NNNN)NGAGACC")
    for n in range(30):
        body = "ggtctcAatgc" + rand_dna(rng, 12) + "ATTCaGAGACC" + rand_dna(rng, 15)
        k = rng.randrange(len(body))
        rot = body[k:] + body[:k]
        for obj, kw in [
            (Seq(rot), {}),
            (Seq(rot), {"linear": False}),
            (SeqRecord(Seq(rot), id="s"), {}),
            (SeqRecord(Seq(rot), id="s"), {"linear": False}),
            (CircularRecord(Seq(rot), id="c"), {}),
            (CircularRecord(Seq(rot), id="c"), {"pos": 3, "endpos": 20}),
            (rot, {}),
        ]:
            def go():
                m = rx.search(obj, **kw)
                if m is None:
                    return None
                groups = []
                for i in range(4):
                    g = m.group(i)
                    groups.append((type(g).__name__, str(g.seq) if hasattr(g, "seq") else str(g)))
                return (m.start(), m.end(), [m.span(i) for i in range(4)], groups)

            LOG.add("regex", n, type(obj).__name__, sorted(kw.items()), observe(go))
    LOG.add("transcribe", DNARegex("ACGTNRYSWKMBDHVN*?()x").regex.pattern, DNARegex("ACGT").pattern)


def section_citations(rng):
    LOG.section("citations")
    mgr_cls = _assembly.AssemblyManager
    for n in range(30):
        enz = sorted(ENZYMES)[n % 3]
        vec, mods, _ = build(rng, enz, 2, n % 2 == 0, False, True, "c{}".format(n))
        if n % 5 == 0:  # the same reference listed twice, cited by both numbers
            refs = mods[0].record.annotations["references"]
            refs.append(refs[0])
            mods[0].record.features[0].qualifiers["citation"] = ["[{}]".format(len(refs)), "[1]"]
        if n % 6 == 0:  # an equal reference in two inputs
            mods[1].record.annotations["references"].append(vec.record.annotations["references"][0])
            mods[1].record.features[1].qualifiers["citation"] = [
                "[{}]".format(len(mods[1].record.annotations["references"]))]
        mgr = mgr_cls(vec, mods, id_="cid{}".format(n), name="cname{}".format(n))
        LOG.add("manager", n, mgr.id, mgr.name, [e.record.id for e in mgr.elements],
                mgr.vector is vec, mgr.modules is mods)
        out, warns = observe(mgr.assemble)
        LOG.add("manager result", n, (out[0], d_record(out[1])) if out[0] == "ok" else out, warns)
        LOG.add("manager inputs", n, [d_record(e.record) for e in mgr.elements])


def section_registry(rng):
    LOG.section("yeast toolkit")
    try:
        from moclo.kits import ytk
        from moclo.registry.ytk import YTKRegistry

        reg = YTKRegistry()
        ids = ["pYTK008", "pYTK047", "pYTK073", "pYTK074", "pYTK086", "pYTK092"]
        mods = [reg[i].entity for i in ids]
        vec = reg["pYTK095"].entity
        LOG.add("classes", [type(m).__name__ for m in mods], type(vec).__name__)
        run_assembly(vec, mods, "ytk", id="integration", name="integration")
        for i in ("pYTK002", "pYTK009", "pYTK033", "pYTK052"):
            e = reg[i].entity
            LOG.add(i, type(e).__name__, observe(lambda: d_record(e.target_sequence())),
                    str(e.overhang_start()), str(e.overhang_end()))
        LOG.tally("registry used")
    except Exception as exc:  # noqa
        LOG.add("registry unavailable", type(exc).__name__, str(exc))
        LOG.tally("registry unavailable " + type(exc).__name__)


def section_classes(rng):
    LOG.section("classes")
    import importlib
    import inspect

    from moclo._utils import isabstract
    from moclo.core._structured import StructuredRecord

    def doc(obj):
        return hashlib.sha256((inspect.getdoc(obj) or "").encode("utf-8")).hexdigest()[:12]

    for cls in (AbstractModule, AbstractVector, AbstractPart, Entry, EntryVector, Product):
        LOG.add(
            "core", cls.__name__, isabstract(cls), repr(cls.cutter), cls._level if hasattr(cls, "_level") else None,
            issubclass(cls, StructuredRecord), doc(cls),
            [(n, doc(getattr(cls, n))) for n in ("structure", "overhang_start", "overhang_end",
                                                 "target_sequence", "placeholder_sequence", "assemble",
                                                 "is_valid", "characterize") if hasattr(cls, n)],
        )
    for kit in ("ytk", "cidar", "ecoflex", "moclo", "plant"):
        try:
            mod = importlib.import_module("moclo.kits." + kit)
        except Exception as exc:  # noqa
            LOG.add("kit unavailable", kit, type(exc).__name__)
            continue
        for name in sorted(vars(mod)):
            cls = getattr(mod, name)
            if not (inspect.isclass(cls) and issubclass(cls, StructuredRecord)):
                continue
            LOG.add(
                kit, name, isabstract(cls), repr(getattr(cls, "cutter", None)),
                issubclass(cls, AbstractModule), issubclass(cls, AbstractVector), issubclass(cls, AbstractPart),
                observe(cls.structure), doc(cls.target_sequence) if hasattr(cls, "target_sequence") else None,
                observe(lambda: type(cls(SeqRecord(Seq("ACGT"), id="x"))).__name__),
            )
            LOG.tally("kit classes")
    # unusual ways of putting the classes together
    vcls, mcls = CLASSES["BsaI"]
    a, b = overhangs(rng, 2)
    mrec = record(rng, module_plasmid(rng, "BsaI", a, b), "weird_m", shift=17)
    vrec = record(rng, vector_plasmid(rng, "BsaI", a, b), "weird_v", shift=23)
    shadow = type(str("Shadowed"), (AbstractPart, vcls), {"signature": (a, b)})
    LOG.add("part before a vector with a cutter", repr(shadow.cutter), observe(lambda: shadow(vrec)))
    both = type(str("Both"), (AbstractModule, AbstractVector), {"cutter": BsaI})
    for rec in (mrec, vrec):
        ent = both(rec)
        LOG.add("module and vector", rec.id, observe(ent.is_valid), observe(lambda: d_record(ent.target_sequence())),
                observe(lambda: str(ent.overhang_start())), observe(lambda: d_record(ent.placeholder_sequence())))
    both = type(str("Both2"), (AbstractVector, AbstractModule), {"cutter": BsaI})
    for rec in (mrec, vrec):
        ent = both(rec)
        LOG.add("vector and module", rec.id, observe(ent.is_valid), observe(lambda: d_record(ent.target_sequence())),
                observe(lambda: str(ent.overhang_start())))

    class Trimmed(mcls):
        """A user-defined module that post-processes the inherited fragment."""

        def target_sequence(self):
            fragment = super(Trimmed, self).target_sequence()
            fragment.description = "trimmed"
            return fragment

    class Loud(vcls):
        def overhang_start(self):
            return super(Loud, self).overhang_start().lower()

    ohs = overhangs(rng, 3)
    vec = Loud(record(rng, vector_plasmid(rng, "BsaI", ohs[0], ohs[2]), "loud_vec", shift=11))
    mods = [Trimmed(record(rng, module_plasmid(rng, "BsaI", ohs[i], ohs[i + 1]), "trim{}".format(i), shift=9))
            for i in range(2)]
    run_assembly(vec, mods, "user subclasses", id="subclassed")
    late = type(str("Late"), (AbstractModule,), {})
    LOG.add("cutter set later", observe(lambda: late(mrec)))
    late.cutter = BsaI
    LOG.add("cutter set later", observe(lambda: d_record(late(mrec).target_sequence())))


def main():
    rng = random.Random(90909)
    section_assemblies(rng)
    section_multilevel(rng)
    section_failures(rng)
    section_records(rng)
    section_helpers(rng)
    section_citations(rng)
    section_registry(rng)
    section_classes(rng)
    LOG.report()


if __name__ == "__main__":
    main()
