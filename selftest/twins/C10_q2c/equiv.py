# coding: utf-8
"""Differential test for the refactored assembly / citation / rotation code.

Run as: cd /tmp/agents6/C10 && /venv/bin/python pairs_out/C10_q2/equiv.py
Prints a digest over a few hundred generated scenarios; the digest must be the
same on the pristine tree and with clean.diff applied.
"""
import sys

sys.path.insert(0, "/tmp/agents6/C10")
import tests  # noqa: F401,E402

import copy  # noqa: E402
import hashlib  # noqa: E402
import random  # noqa: E402
import re  # noqa: E402
import warnings  # noqa: E402

from Bio.Restriction import BpiI, BsaI, BsmBI, BseRI  # noqa: E402
from Bio.Seq import Seq  # noqa: E402
from Bio.SeqFeature import (  # noqa: E402
    CompoundLocation,
    FeatureLocation,
    Reference,
    SeqFeature,
)
from Bio.SeqRecord import SeqRecord  # noqa: E402

from moclo.core import (  # noqa: E402
    AbstractModule,
    AbstractVector,
    Cassette,
    CassetteVector,
    Entry,
    EntryVector,
)
from moclo.record import CircularRecord  # noqa: E402

FORBIDDEN = []
for enz in (BpiI, BsaI, BsmBI, BseRI):
    FORBIDDEN.append(enz.site)
    FORBIDDEN.append(str(Seq(enz.site).reverse_complement()))


def revcomp(s):
    return str(Seq(s).reverse_complement())


def clean_dna(rng, n):
    while True:
        s = "".join(rng.choice("ACGT") for _ in range(n))
        if not any(site in s + s for site in FORBIDDEN):
            return s


def joined_ok(*chunks):
    s = "".join(chunks)
    return s


# --- classes under test --------------------------------------------------


class BpiModule(AbstractModule):
    cutter = BpiI


class BpiVector(AbstractVector):
    cutter = BpiI


class BsaEntry(Entry):
    cutter = BsaI


class BsaEntryVector(EntryVector):
    cutter = BsaI


class BsmCassette(Cassette):
    cutter = BsmBI


class BsmCassetteVector(CassetteVector):
    cutter = BsmBI


class ThreeModule(AbstractModule):
    """A module cut with a 3' overhang enzyme (custom structure)."""

    cutter = BseRI

    @classmethod
    def structure(cls):
        return "GAGGAGNNNNNNNN(NN)(NN*N)(NN)NNNNNNNNCTCCTC"


class ThreeVector(AbstractVector):
    cutter = BseRI

    @classmethod
    def structure(cls):
        return "(NN)(NNNNNNNNCTCCTCN*GAGGAGNNNNNNNN)(NN)"


FAMILIES = [
    (BpiI, BpiModule, BpiVector, 4, 2),
    (BsaI, BsaEntry, BsaEntryVector, 4, 1),
    (BsmBI, BsmCassette, BsmCassetteVector, 4, 1),
    (BseRI, ThreeModule, ThreeVector, 2, 8),
]


# --- references ------------------------------------------------------------


def make_reference(rng, n):
    ref = Reference()
    ref.authors = "Author %d, A." % (n % 7)
    ref.title = "Title number %d" % (n % 5)
    ref.journal = "J. Irreproducible Res. %d" % (n % 3)
    ref.pubmed_id = str(1000 + n % 11) if n % 2 else ""
    ref.comment = "" if n % 4 else "c%d" % n
    if n % 6 == 0:
        ref.location = [FeatureLocation(0, 10 + n % 3)]
    return ref


def render(value):
    if isinstance(value, Reference):
        return "REF<%s|%s|%s|%s|%s|%r>" % (
            value.authors,
            value.title,
            value.journal,
            value.pubmed_id,
            value.comment,
            [str(x) for x in value.location],
        )
    if isinstance(value, (list, tuple)):
        return type(value).__name__ + "(" + ", ".join(render(v) for v in value) + ")"
    if isinstance(value, dict):
        return "{" + ", ".join("%r: %s" % (k, render(value[k])) for k in sorted(value)) + "}"
    if isinstance(value, Seq):
        return "Seq(%s)" % str(value)
    return repr(value)


def dump_record(rec):
    out = [type(rec).__name__, str(rec.seq), rec.id, rec.name, rec.description]
    out.append(render(dict(rec.annotations)))
    out.append(render(list(rec.dbxrefs)))
    out.append(render(dict(rec.letter_annotations)))
    for f in rec.features:
        out.append(
            "F %s %s %r %s" % (f.type, f.id, f.location, render(dict(f.qualifiers)))
        )
    return "\n".join(out)


def identity_shape(rec):
    """Which citation slots / reference slots hold the very same objects."""
    seen = {}
    shape = []
    for ref in rec.annotations.get("references", []):
        shape.append(seen.setdefault(id(ref), len(seen)))
    shape.append("|")
    for f in rec.features:
        cit = f.qualifiers.get("citation", ())
        if isinstance(cit, (list, tuple)):
            for c in cit:
                if not isinstance(c, str):
                    shape.append(seen.setdefault(id(c), len(seen)))
                else:
                    shape.append(c)
    return repr(shape)


# --- building plasmids ------------------------------------------------------


def random_case(rng, s, mode):
    if mode == 0:
        return s
    if mode == 1:
        return s.lower()
    return "".join(c.lower() if rng.random() < 0.5 else c for c in s)


def overhangs(rng, n, size):
    """n distinct overhangs, none the reverse complement of another or itself."""
    result = []
    while len(result) < n:
        o = "".join(rng.choice("ACGT") for _ in range(size))
        if o == revcomp(o):
            continue
        if any(o == p or o == revcomp(p) for p in result):
            continue
        result.append(o)
    return result


def citing_features(rng, region_start, region_end, nrefs, tag, count):
    feats = []
    for k in range(count):
        if region_end - region_start < 3:
            break
        a = rng.randrange(region_start, region_end - 1)
        b = rng.randrange(a + 1, region_end + 1)
        quals = {"label": ["%s-%d" % (tag, k)]}
        ncit = rng.choice([0, 0, 1, 1, 1, 2, 3])
        if nrefs and ncit:
            quals["citation"] = [
                "[%d]" % rng.randrange(1, nrefs + 1) for _ in range(ncit)
            ]
        strand = rng.choice([1, -1, None])
        feats.append(
            SeqFeature(
                FeatureLocation(a, b, strand), type=rng.choice(["CDS", "misc_feature", "promoter"]), qualifiers=quals
            )
        )
    return feats


def site_count(family, seq):
    site = family[0].site
    doubled = (seq + seq[: len(site) - 1]).upper()
    total = 0
    for pattern in {site, revcomp(site)}:
        start = doubled.find(pattern)
        while start >= 0:
            total += 1
            start = doubled.find(pattern, start + 1)
    return total


def build_module(rng, family, o_start, o_end, name, nrefs, case_mode, sites=2):
    while True:
        seq, feats = _build_module(rng, family, o_start, o_end, name, nrefs, case_mode)
        if site_count(family, seq) == sites:
            return seq, feats


def build_vector(rng, family, o_start, o_end, name, nrefs, case_mode):
    while True:
        seq, feats = _build_vector(rng, family, o_start, o_end, name, nrefs, case_mode)
        if site_count(family, seq) == 2:
            return seq, feats


def _build_module(rng, family, o_start, o_end, name, nrefs, case_mode):
    enz, _mcls, _vcls, _osize, spacer_len = family
    site = enz.site
    bb1 = clean_dna(rng, rng.randrange(5, 30))
    bb2 = clean_dna(rng, rng.randrange(5, 30))
    insert = clean_dna(rng, rng.randrange(6, 40))
    if name == "illegal":
        insert = insert[:3] + site + insert[3:]
    sp1 = clean_dna(rng, spacer_len)
    sp2 = clean_dna(rng, spacer_len)
    left = bb1 + site + sp1
    core = o_start + insert + o_end
    right = sp2 + revcomp(site) + bb2
    seq = left + core + right
    feats = []
    # inside the retained fragment
    feats += citing_features(rng, len(left), len(left) + len(core), nrefs, name + "-in", rng.randrange(0, 4))
    # in the backbone (discarded)
    feats += citing_features(rng, 0, len(bb1), nrefs, name + "-bb", rng.randrange(0, 2))
    feats += citing_features(
        rng, len(seq) - len(bb2), len(seq), nrefs, name + "-bb2", rng.randrange(0, 2)
    )
    # straddling the cut (discarded)
    if rng.random() < 0.5:
        feats += citing_features(rng, len(left) - 3, len(left) + 6, nrefs, name + "-x", 1)
    rng.shuffle(feats)
    return random_case(rng, seq, case_mode), feats


def _build_vector(rng, family, o_start, o_end, name, nrefs, case_mode):
    """Vector: ... (o_end)(site' N* site)(o_start) ... ; overhang_end() is group 1."""
    enz, _mcls, _vcls, _osize, spacer_len = family
    site = enz.site
    bb = clean_dna(rng, rng.randrange(12, 60))
    placeholder = clean_dna(rng, rng.randrange(0, 25))
    sp1 = clean_dna(rng, spacer_len)
    sp2 = clean_dna(rng, spacer_len)
    half = len(bb) // 2
    bb1, bb2 = bb[:half], bb[half:]
    # group1 = the overhang the first module starts with, group3 = where the
    # last module ends
    seq = bb1 + o_start + sp1 + revcomp(site) + placeholder + site + sp2 + o_end + bb2
    feats = []
    feats += citing_features(rng, 0, len(bb1), nrefs, name + "-bb1", rng.randrange(0, 3))
    feats += citing_features(
        rng, len(seq) - len(bb2), len(seq), nrefs, name + "-bb2", rng.randrange(0, 3)
    )
    ph_a = len(bb1) + len(o_start) + len(sp1) + len(site)
    feats += citing_features(rng, ph_a, ph_a + len(placeholder), nrefs, name + "-ph", rng.randrange(0, 2))
    rng.shuffle(feats)
    return random_case(rng, seq, case_mode), feats


def make_record(rng, seq, feats, rid, refs, kind, rotate):
    annotations = {}
    if refs is not None:
        annotations["references"] = refs
    if rng.random() < 0.5:
        annotations["molecule_type"] = "DNA"
    if rng.random() < 0.3:
        annotations["topology"] = "circular"
    if kind == "circular":
        rec = CircularRecord(Seq(seq), id=rid, name=rid, features=feats, annotations=annotations)
        if rotate:
            rec = rec >> rng.randrange(1, len(seq))
    elif kind == "linear-annot":
        annotations["topology"] = "linear"
        rec = SeqRecord(Seq(seq), id=rid, name=rid, features=feats, annotations=annotations)
    else:
        rec = SeqRecord(Seq(seq), id=rid, name=rid, features=feats, annotations=annotations)
    return rec


# --- scenarios ----------------------------------------------------------------


def scenario(seed):
    rng = random.Random(seed)
    family = FAMILIES[seed % len(FAMILIES)]
    _enz, mcls, vcls, osize, _sp = family
    nmod = rng.randrange(1, 5)
    ovs = overhangs(rng, nmod + 1, osize)
    case_mode = rng.randrange(3)
    rotate = rng.random() < 0.7
    mutation = rng.choice(
        [None] * 8
        + [
            "missing",
            "unused",
            "duplicate",
            "revdup",
            "bad-citation",
            "empty-citation",
            "out-of-range",
            "zero-citation",
            "junk-after",
            "plain-seqrecord",
            "linear-annot",
            "same-overhangs",
            "tuple-citation",
            "no-reflist",
            "shared-record",
            "illegal-site",
        ]
    )

    pool = [make_reference(rng, rng.randrange(40)) for _ in range(6)]

    def pick_refs():
        n = rng.randrange(0, 5)
        refs = []
        for _ in range(n):
            r = rng.choice(pool)
            mode = rng.random()
            if mode < 0.4:
                refs.append(r)  # very same object, possibly in several records
            elif mode < 0.8:
                refs.append(copy.deepcopy(r))  # equal copy
            else:
                refs.append(make_reference(rng, 100 + rng.randrange(1000)))
        return refs

    records = []
    names = []
    for k in range(nmod):
        refs = pick_refs()
        if mutation == "illegal-site" and k == nmod - 1:
            seq, feats = build_module(rng, family, ovs[k], ovs[k + 1], "illegal", len(refs), case_mode, sites=3)
        else:
            seq, feats = build_module(rng, family, ovs[k], ovs[k + 1], "m%d" % k, len(refs), case_mode)
        kind = "circular"
        if mutation == "plain-seqrecord" and k == 0:
            kind = "plain"
        if mutation == "linear-annot" and k == 0:
            kind = "linear-annot"
        rec = make_record(rng, seq, feats, "mod%d" % k, refs, kind, rotate)
        records.append(rec)
        names.append("mod%d" % k)
    vrefs = pick_refs()
    v_start, v_end = ovs[0], ovs[nmod]
    if mutation == "same-overhangs":
        v_end = v_start
    vseq, vfeats = build_vector(rng, family, v_start, v_end, "v", len(vrefs), case_mode)
    vrec = make_record(rng, vseq, vfeats, "vec", vrefs, "circular", rotate)

    if mutation == "no-reflist":
        for rec in records + [vrec]:
            rec.annotations.pop("references", None)
            for f in rec.features:
                f.qualifiers.pop("citation", None)
    if mutation == "shared-record" and records:
        # two inputs share the same reference list object
        records[-1].annotations["references"] = vrec.annotations.get("references", [])
        n = len(records[-1].annotations["references"])
        for f in records[-1].features:
            if "citation" in f.qualifiers:
                if n:
                    f.qualifiers["citation"] = ["[%d]" % rng.randrange(1, n + 1)]
                else:
                    del f.qualifiers["citation"]

    def first_citing():
        for rec in records + [vrec]:
            for f in rec.features:
                if f.qualifiers.get("citation"):
                    return rec, f
        # make one
        rec = records[0]
        rec.annotations.setdefault("references", []).append(make_reference(rng, 3))
        f = rec.features[0] if rec.features else None
        if f is None:
            f = SeqFeature(FeatureLocation(0, 2), type="misc_feature", qualifiers={})
            rec.features.append(f)
        f.qualifiers["citation"] = ["[1]"]
        return rec, f

    if mutation == "bad-citation":
        _r, f = first_citing()
        f.qualifiers["citation"][-1] = "ref 1"
    elif mutation == "empty-citation":
        _r, f = first_citing()
        f.qualifiers["citation"][-1] = "[]"
    elif mutation == "out-of-range":
        r, f = first_citing()
        f.qualifiers["citation"][-1] = "[%d]" % (len(r.annotations.get("references", [])) + 2)
    elif mutation == "zero-citation":
        _r, f = first_citing()
        f.qualifiers["citation"][0] = "[0]"
    elif mutation == "junk-after":
        _r, f = first_citing()
        f.qualifiers["citation"][0] = f.qualifiers["citation"][0] + " and more"
    elif mutation == "tuple-citation":
        _r, f = first_citing()
        f.qualifiers["citation"] = tuple(f.qualifiers["citation"])

    modules = [mcls(rec) for rec in records]
    vector = vcls(vrec)

    if mutation == "missing" and len(modules) > 0:
        del modules[rng.randrange(len(modules))]
    elif mutation == "unused":
        extra_ovs = overhangs(rng, 2, osize)
        seq, feats = build_module(rng, family, extra_ovs[0], extra_ovs[1], "extra", 2, case_mode)
        refs = [make_reference(rng, 7), make_reference(rng, 8)]
        modules.append(mcls(make_record(rng, seq, feats, "extra", refs, "circular", rotate)))
    elif mutation == "duplicate":
        seq, feats = build_module(rng, family, ovs[0], ovs[1], "dup", 1, case_mode)
        modules.append(mcls(make_record(rng, seq, feats, "dup", [make_reference(rng, 9)], "circular", rotate)))
    elif mutation == "revdup":
        seq, feats = build_module(rng, family, revcomp(ovs[0]), ovs[1], "rev", 1, case_mode)
        modules.append(mcls(make_record(rng, seq, feats, "rev", [make_reference(rng, 9)], "circular", rotate)))
    rng.shuffle(modules)
    return mutation, vector, modules


def run_assembly(out, vector, modules, kwargs):
    everything = [vector] + list(modules)
    with warnings.catch_warnings(record=True) as caught:
        warnings.simplefilter("always")
        try:
            product = vector.assemble(*modules, **kwargs) if modules else vector.assemble(None)
        except Exception as exc:  # noqa
            out.append("EXC %s: %s" % (type(exc).__name__, exc))
            tag = type(exc).__name__
        else:
            out.append("PRODUCT\n" + dump_record(product))
            out.append("PSHAPE " + identity_shape(product))
            tag = "ok"
    for w in caught:
        out.append("WARN %s: %s" % (w.category.__name__, w.message))
    for elem in everything:
        out.append("INPUT\n" + dump_record(elem.record))
        out.append("ISHAPE " + identity_shape(elem.record))
    return tag


def assembly_scenarios(out, tally):
    for seed in range(360):
        mutation, vector, modules = scenario(seed)
        out.append("=== scenario %d %s" % (seed, mutation))
        if not modules:
            out.append("no modules")
            continue
        kwargs = {} if seed % 3 else {"id": "prod%d" % seed, "name": "name%d" % seed}
        for call in range(2 + (seed % 2)):
            tag = run_assembly(out, vector, modules, kwargs)
            tally[tag] = tally.get(tag, 0) + 1
        # structure accessors
        for elem in [vector] + modules:
            try:
                out.append("valid %s" % elem.is_valid())
                out.append("ovh %s %s" % (elem.overhang_start(), elem.overhang_end()))
                out.append("TARGET\n" + dump_record(elem.target_sequence()))
                if hasattr(elem, "placeholder_sequence"):
                    out.append("PLACEHOLDER\n" + dump_record(elem.placeholder_sequence()))
            except Exception as exc:  # noqa
                out.append("EXC %s: %s" % (type(exc).__name__, exc))


def rotation_scenarios(out, tally):
    for seed in range(150):
        rng = random.Random(10000 + seed)
        n = rng.randrange(4, 40)
        seq = "".join(rng.choice("ACGTacgt") for _ in range(n))
        feats = []
        for k in range(rng.randrange(0, 5)):
            a = rng.randrange(0, n - 1)
            b = rng.randrange(a + 1, n + 1)
            loc = FeatureLocation(a, b, rng.choice([1, -1, None]))
            if rng.random() < 0.3 and b < n:
                c = rng.randrange(0, a + 1)
                loc = CompoundLocation([FeatureLocation(a, n, 1), FeatureLocation(0, c + 1, 1)]) if c + 1 <= a else loc
            ftype = rng.choice(["source", "CDS", "misc_feature"])
            if ftype == "source" and rng.random() < 0.6:
                loc = FeatureLocation(0, n)
            feats.append(SeqFeature(loc, type=ftype, id="f%d" % k, qualifiers={"citation": ["[1]"], "k": [k]}))
        if rng.random() < 0.2:
            f = SeqFeature(None, type="misc_feature")
            feats.append(f)
        rec = CircularRecord(
            Seq(seq),
            id="r%d" % seed,
            name="n",
            features=feats,
            annotations={"references": [make_reference(rng, seed)]},
            letter_annotations={"q": list(range(n))} if seed % 4 == 0 else None,
        )
        out.append("=== rotation %d" % seed)
        for shift in (0, 1, n - 1, n, n + 3, -2, rng.randrange(-3 * n, 3 * n), rng.randrange(1, n)):
            try:
                r1 = rec >> shift
                out.append(">> %d\n%s" % (shift, dump_record(r1)))
                out.append("same-object %s quals-shared %s" % (
                    r1 is rec,
                    [a.qualifiers is b.qualifiers for a, b in zip(r1.features, rec.features)],
                ))
                r2 = rec << shift
                out.append("<< %d\n%s" % (shift, dump_record(r2)))
                r3 = (rec >> shift) >> rng.randrange(0, n)
                out.append("twice\n%s" % dump_record(r3))
            except Exception as exc:  # noqa
                out.append("EXC %s: %s" % (type(exc).__name__, exc))
            tally["rot"] = tally.get("rot", 0) + 1
        # membership
        doubled = seq + seq
        probes = ["", seq, seq + "A", doubled[n - 2 : n + 2], doubled[1 : n + 1], doubled[n - 1 : 2 * n - 1]]
        for _ in range(6):
            a = rng.randrange(0, n)
            ln = rng.randrange(0, n + 2)
            probes.append(doubled[a : a + ln])
            probes.append("".join(rng.choice("ACGTacgt") for _ in range(rng.randrange(1, 5))))
        for probe in probes:
            try:
                out.append("in %r %s" % (probe, probe in rec))
            except Exception as exc:  # noqa
                out.append("EXC %s: %s" % (type(exc).__name__, exc))
        for probe in (Seq(seq[:3]), rec, 3, None):
            try:
                out.append("in %s %s" % (type(probe).__name__, probe in rec))
            except Exception as exc:  # noqa
                out.append("EXC %s: %s" % (type(exc).__name__, exc))
        out.append("AFTER\n" + dump_record(rec))


def class_scenarios(out, tally):
    """Every structured class of the core and of the kits: how it is built,
    what it says about itself, what it does with a few records."""
    import inspect

    from Bio.Restriction import EcoRV, BsaI as _BsaI
    from moclo._utils import isabstract
    from moclo.core import parts as core_parts, modules as core_modules, vectors as core_vectors
    from moclo.core._structured import StructuredRecord
    from moclo.kits import ytk, cidar, ecoflex, moclo as moclo_kit, plant

    class BluntModule(AbstractModule):
        cutter = EcoRV

    class BluntVector(AbstractVector):
        cutter = EcoRV

    class NoCutterEntry(Entry):
        pass

    class SignedPart(core_parts.AbstractPart, Entry):
        cutter = _BsaI
        signature = ("ATGC", "ATTC")

    class SignedVectorPart(core_parts.AbstractPart, EntryVector):
        cutter = _BsaI
        signature = ("ATGC", "ATTC")

    class UnsignedPart(core_parts.AbstractPart, Entry):
        cutter = _BsaI

    classes = [BluntModule, BluntVector, NoCutterEntry, SignedPart, SignedVectorPart, UnsignedPart]
    classes += [BpiModule, BpiVector, BsaEntry, BsaEntryVector, BsmCassette, BsmCassetteVector, ThreeModule, ThreeVector]
    for mod in (core_modules, core_vectors, core_parts, ytk, cidar, ecoflex, moclo_kit, plant):
        found = [
            obj
            for _name, obj in sorted(vars(mod).items())
            if inspect.isclass(obj) and issubclass(obj, StructuredRecord) and obj.__module__ == mod.__name__
        ]
        classes += found

    rng = random.Random(4242)
    probes = []
    for k in range(4):
        family = FAMILIES[k % 3]
        ovs = overhangs(rng, 2, 4)
        seq, feats = build_module(rng, family, ovs[0], ovs[1], "p%d" % k, 0, 0)
        probes.append(CircularRecord(Seq(seq), id="probe-m%d" % k, features=feats))
        seq, feats = build_vector(rng, family, ovs[0], ovs[1], "q%d" % k, 0, 0)
        probes.append(CircularRecord(Seq(seq), id="probe-v%d" % k, features=feats))
    probes.append(SeqRecord(Seq("ACGT" * 10), id="probe-none"))

    for cls in classes:
        out.append("=== class %s.%s" % (cls.__module__, cls.__name__))
        out.append("abstract %s level %r" % (isabstract(cls), getattr(cls, "_level", "n/a")))
        out.append("cutter %r" % (cls.cutter,))
        try:
            out.append("structure %s" % cls.structure())
        except Exception as exc:  # noqa
            out.append("EXC %s: %s" % (type(exc).__name__, exc))
        for probe in probes:
            try:
                entity = cls(probe)
            except Exception as exc:  # noqa
                out.append("EXC %s: %s" % (type(exc).__name__, exc))
                break
            try:
                valid = entity.is_valid()
                out.append("%s valid %s %s" % (probe.id, valid, entity.is_valid()))
                if valid:
                    out.append("ovh %s %s" % (entity.overhang_start(), entity.overhang_end()))
                    out.append("TARGET\n" + dump_record(entity.target_sequence()))
                else:
                    entity.target_sequence()
            except Exception as exc:  # noqa
                out.append("EXC %s: %s" % (type(exc).__name__, exc))
            tally["cls"] = tally.get("cls", 0) + 1
        if hasattr(cls, "characterize"):
            for probe in probes[:3]:
                try:
                    out.append("characterize %s" % type(cls.characterize(probe)).__name__)
                except Exception as exc:  # noqa
                    out.append("EXC %s: %s" % (type(exc).__name__, exc))


def main():
    out = []
    tally = {}
    assembly_scenarios(out, tally)
    rotation_scenarios(out, tally)
    class_scenarios(out, tally)
    text = re.sub(r" at 0x[0-9a-fA-F]+", " at 0x?", "\n".join(out))
    print("outcomes:", sorted(tally.items()))
    print("lines:", len(text.splitlines()))
    print("digest:", hashlib.sha256(text.encode("utf-8")).hexdigest())
    if len(sys.argv) > 1:
        with open(sys.argv[1], "w") as handle:
            handle.write(text)


main()
