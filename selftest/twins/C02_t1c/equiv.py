# coding: utf-8
"""Differential test for the code the rotation-invariance property (C02) depends on.

Run as:  cd /tmp/agents9/C02 && /venv/bin/python pairs_out/C02_t1/equiv.py [--dump FILE]

Exercises ``moclo.regex``, ``moclo.record``, ``moclo.core`` (modules, vectors,
parts, assembly), ``moclo.errors`` and every kit / registry through the public
API on generated inputs, and prints a digest of every result, exception
(type, message, args), warning and of the state of the inputs afterwards.
"""
from __future__ import print_function

import hashlib
import random
import re
import sys
import warnings

sys.path.insert(0, "/tmp/agents9/C02")
import tests  # noqa: E402,F401  (splices the kits into the moclo namespace)

from Bio import BiopythonWarning  # noqa: E402
from Bio.Restriction import (  # noqa: E402
    BsaI, BpiI, BsmBI, SapI, BtsI, BsrDI, BseRI, MlyI, FokI,
)
from Bio.Seq import Seq  # noqa: E402
from Bio.SeqFeature import (  # noqa: E402
    SeqFeature, FeatureLocation, CompoundLocation, Reference,
)
from Bio.SeqRecord import SeqRecord  # noqa: E402

from moclo import errors  # noqa: E402
from moclo.core import (  # noqa: E402
    AbstractModule, AbstractVector, AbstractPart, Product, Entry, Cassette,
    Device, EntryVector, CassetteVector, DeviceVector,
)
from moclo.core._assembly import AssemblyManager  # noqa: E402
from moclo.record import CircularRecord  # noqa: E402
from moclo.regex import DNARegex, SeqMatch  # noqa: E402

warnings.simplefilter("ignore", BiopythonWarning)

LINES = []
RNG = random.Random(20260927)


# --- description of values ----------------------------------------------------

def d_loc(loc):
    if loc is None:
        return "None"
    parts = []
    for p in loc.parts:
        parts.append(
            "%s:%d..%d/%s/%s/%s"
            % (type(p).__name__, int(p.start), int(p.end), p.strand, p.ref, p.ref_db)
        )
    return "%s[%s]" % (type(loc).__name__, ";".join(parts))


def d_val(v):
    """Describe a value without addresses."""
    if isinstance(v, Reference):
        return "Ref(%s|%s)" % (v.title, v.authors)
    if isinstance(v, (list, tuple)):
        return "%s[%s]" % (type(v).__name__, ",".join(d_val(x) for x in v))
    if isinstance(v, dict):
        return "{%s}" % ",".join(
            "%s=%s" % (k, d_val(v[k])) for k in sorted(v, key=str)
        )
    if isinstance(v, Seq):
        return "Seq(%s)" % str(v)
    if isinstance(v, SeqRecord):
        return d_rec(v)
    if isinstance(v, SeqMatch):
        return "SeqMatch"
    if isinstance(v, (AbstractModule, AbstractVector, AbstractPart)):
        return "<%s %s>" % (type(v).__name__, v.record.id)
    if isinstance(v, BaseException):
        return d_exc(v)
    if isinstance(v, (str, int, float, bool)) or v is None:
        return "%s:%r" % (type(v).__name__, v)
    if isinstance(v, type):
        return "type:%s" % v.__name__
    if type(v).__str__ is object.__str__:
        # no textual form of its own (a default or a debugging repr): name only
        return "<%s>" % type(v).__name__
    return "%s:%s" % (type(v).__name__, str(v))


def d_feat(f):
    return "F(%s|%s|%s|%s)" % (f.type, d_loc(f.location), f.id, d_val(dict(f.qualifiers)))


def d_rec(r):
    return "%s(seq=%s,id=%s,name=%s,desc=%s,dbx=%s,ann=%s,feat=[%s],let=%s)" % (
        type(r).__name__,
        str(r.seq),
        r.id,
        r.name,
        r.description,
        d_val(list(r.dbxrefs)),
        d_val(dict(r.annotations)),
        ";".join(d_feat(f) for f in r.features),
        d_val(dict(r.letter_annotations)),
    )


def d_exc(e):
    attrs = {}
    for k in sorted(vars(e)):
        attrs[k] = vars(e)[k]
    try:
        text = str(e)
    except Exception as e2:  # noqa
        text = "STR-RAISED %s %s" % (type(e2).__name__, e2)
    return "EXC %s|%s|args=%s|attrs=%s|cause=%s|supp=%s" % (
        type(e).__name__,
        text,
        d_val(list(e.args)),
        d_val(attrs),
        type(e.__cause__).__name__,
        e.__suppress_context__,
    )


_ADDR = re.compile(r" at 0x[0-9a-fA-F]+")


def emit(tag, value):
    text = value if isinstance(value, str) else d_val(value)
    LINES.append("%s => %s" % (tag, _ADDR.sub(" at 0x?", text)))


def attempt(tag, fn, *args, **kwargs):
    """Call fn, record result or exception as well as warnings."""
    with warnings.catch_warnings(record=True) as caught:
        warnings.simplefilter("always")
        warnings.simplefilter("ignore", BiopythonWarning)
        warnings.simplefilter("ignore", DeprecationWarning)
        try:
            result = fn(*args, **kwargs)
        except Exception as e:  # noqa
            emit(tag, d_exc(e))
            result = None
        else:
            emit(tag, result)
    for w in caught:
        emit(tag + " !warn", "%s|%s|%s" % (w.category.__name__, str(w.message),
                                            d_val(list(w.message.args))))
    return result


# --- generators ---------------------------------------------------------------

SITES = ["GGTCTC", "GAGACC", "GAAGAC", "GTCTTC", "CGTCTC", "GAGACG", "GCTCTTC",
         "GAAGAGC", "GCAGTG", "CACTGC", "GCAATG", "CATTGC", "GAGGAG", "CTCCTC",
         "GGATG", "CATCC", "GAGTC", "GACTC"]


def clean_dna(n, rng=RNG):
    """Random DNA free of every recognition site used here (also circularly)."""
    while True:
        s = "".join(rng.choice("ACGT") for _ in range(n))
        if not any(site in (s + s) for site in SITES):
            return s


def rc(s):
    return str(Seq(s).reverse_complement())


def mixcase(s, rng):
    return "".join(c.lower() if rng.random() < 0.4 else c for c in s)


def features_for(n, rng):
    feats = []
    a = rng.randrange(0, n - 6)
    feats.append(SeqFeature(FeatureLocation(a, a + 5, strand=1), type="misc_feature",
                            id="f1", qualifiers={"label": ["f1"], "citation": ["[1]"]}))
    b = rng.randrange(0, n - 9)
    feats.append(SeqFeature(FeatureLocation(b, b + 8, strand=-1), type="CDS",
                            qualifiers={"label": ["f2"], "citation": ["[2]", "[1]"]}))
    feats.append(SeqFeature(CompoundLocation([FeatureLocation(n - 4, n, strand=1),
                                              FeatureLocation(0, 3, strand=1)]),
                            type="rep_origin", qualifiers={"label": ["wrap"]}))
    feats.append(SeqFeature(FeatureLocation(0, n, strand=1), type="source",
                            qualifiers={"organism": ["x"]}))
    feats.append(SeqFeature(FeatureLocation(0, n, strand=1), type="misc_feature",
                            qualifiers={"label": ["whole"]}))
    return feats


def refs():
    r1, r2 = Reference(), Reference()
    r1.title, r1.authors = "first", "A"
    r2.title, r2.authors = "second", "B"
    return [r1, r2]


def circ(seq, id_, rich=False, rng=RNG):
    if not rich:
        return CircularRecord(Seq(seq), id=id_, name=id_ + "_n")
    n = len(seq)
    return CircularRecord(
        Seq(seq), id=id_, name=id_ + "_n", description="d " + id_,
        dbxrefs=["db:" + id_],
        features=features_for(n, rng),
        annotations={"topology": "circular", "molecule_type": "DNA", "references": refs()},
        letter_annotations={"q": list(range(n))},
    )


# --- A. regex -----------------------------------------------------------------

def section_regex():
    rng = random.Random(1)
    patterns = ["AA(NN)", "GGTCTCN(NNNN)(NN*N)(NNNN)NGAGACC", "(R)(Y)N*(W)", "ATG", "(N*)",
                "GAAGACNN(NNNN)(NN*N)(NNNN)NNGTCTTC", "A(C)?(G)", "(B)(D)(H)(K)(M)(S)(V)"]
    subjects = []
    for i in range(14):
        n = rng.randrange(4, 40)
        subjects.append("".join(rng.choice("ACGTacgtN") for _ in range(n)))
    subjects += ["ATGCAGCATA", "ATGCAAGCAATA", "A", "AA", "TCAAGGTCTCAATGCCCCCCCGTATTGAGACCTT",
                 "CCGTATTGAGACCTTTCAAGGTCTCAATGCCCC", "GTCTCAATGCCCCCCCGTATTGAGACCTTTCAAG"]
    for pi, p in enumerate(patterns):
        rx = attempt("rx%d.new" % pi, DNARegex, p)
        emit("rx%d.attrs" % pi, "%s|%s" % (rx.pattern, rx.regex.pattern))
        for si, s in enumerate(subjects):
            for kind in ("seq", "rec", "circ", "str", "rec_lin"):
                if kind == "seq":
                    subj = Seq(s)
                elif kind == "rec":
                    subj = SeqRecord(Seq(s), id="s%d" % si)
                elif kind == "rec_lin":
                    subj = SeqRecord(Seq(s), id="s%d" % si, annotations={"topology": "linear"})
                elif kind == "circ":
                    subj = CircularRecord(Seq(s), id="s%d" % si)
                else:
                    subj = s
                calls = [
                    ((), {}), ((), {"linear": False}), ((), {"linear": True}),
                    ((2,), {}), ((0, 5), {"linear": False}), ((1, 10 ** 6, False), {}),
                    ((), {"pos": 3, "endpos": 4}),
                ]
                for ci, (a, kw) in enumerate(calls):
                    tag = "rx%d.s%d.%s.c%d" % (pi, si, kind, ci)
                    with warnings.catch_warnings():
                        warnings.simplefilter("ignore")
                        try:
                            m = rx.search(subj, *a, **kw)
                        except Exception as e:  # noqa
                            emit(tag, d_exc(e))
                            continue
                    if m is None:
                        emit(tag, "None")
                        continue
                    out = ["%d-%d" % (m.start(), m.end()), "shift=%r" % (m.shift,),
                           "same=%s" % (m.rec is subj), type(m.match).__name__]
                    for g in range(rx.regex.groups + 1):
                        sp = m.span(g)
                        out.append("g%d:%d,%d,%s" % (g, sp[0], sp[1], sp == (sp[0], sp[1])))
                        try:
                            grp = m.group(g)
                            out.append(d_val(grp))
                        except Exception as e:  # noqa
                            out.append(d_exc(e))
                    out.append("span()=%d,%d" % tuple(m.span()))
                    emit(tag, "|".join(out))
    # SeqMatch built by hand
    mm = re.compile("(A+)(C)").search("TTAACG" * 2, 2)
    for rec_ in (Seq("TTAACG"), SeqRecord(Seq("TTAACG"), id="x"), CircularRecord(Seq("TTAACG"), id="x")):
        for args in ((mm, rec_), (mm, rec_, 3)):
            sm = SeqMatch(*args)
            emit("seqmatch.hand", "%s|%s|%s|%s|%s|%s" % (
                sm.start(), sm.end(), tuple(sm.span(1)), d_val(sm.group(2)), sm.shift, sm.rec is rec_))
    attempt("seqmatch.noargs", SeqMatch)
    attempt("seqmatch.kw", lambda: SeqMatch(match=mm, rec=Seq("TTAACG"), shift=1).shift)
    attempt("transcribe", DNARegex._transcribe, "GGTCTCN(NNNN)RYKMSWBDHV")
    attempt("lettermap", lambda: dict(DNARegex._lettermap))


# --- B. record ----------------------------------------------------------------

def section_record():
    rng = random.Random(2)
    for i in range(6):
        n = rng.randrange(12, 30)
        s = "".join(rng.choice("ACGT") for _ in range(n))
        r = circ(s, "r%d" % i, rich=(i % 2 == 0), rng=rng)
        if i == 4:
            r.features.append(SeqFeature(None, type="nowhere"))
        before = d_rec(r)
        for k in list(range(-n - 2, 2 * n + 3)):
            attempt("rec%d>>%d" % (i, k), lambda: r >> k)
            attempt("rec%d<<%d" % (i, k), lambda: r << k)
        emit("rec%d.same0" % i, "%s|%s" % ((r >> 0) is r, (r << n) is r))
        attempt("rec%d>>>>" % i, lambda: (r >> 5) >> (n - 5))
        for sub in (s[:3], s[-2:] + s[:2], s + s[:1], s, "", s.lower()):
            attempt("rec%d.in(%s)" % (i, sub), lambda: sub in r)
        for idx in (0, -1, slice(2, 7), slice(None, None), slice(5, 2), slice(None, None, -1), n + 3):
            attempt("rec%d[%s]" % (i, idx), lambda: r[idx])
        attempt("rec%d.rc" % i, r.reverse_complement)
        attempt("rec%d.rc(id)" % i, lambda: r.reverse_complement(id=True, name="nn", annotations=True))
        attempt("rec%d+" % i, lambda: r + r)
        attempt("rec%d+seq" % i, lambda: r + Seq("A"))
        attempt("rec%dr+" % i, lambda: Seq("A") + r)
        attempt("rec%dr+str" % i, lambda: "A" + r)
        attempt("rec%d.copyctor" % i, lambda: CircularRecord(r))
        attempt("rec%d.fromseqrec" % i, lambda: CircularRecord(r[:]))
        emit("rec%d.after" % i, "%s" % (d_rec(r) == before))
    attempt("rec.linear", lambda: CircularRecord(SeqRecord(Seq("ATGC"), id="l", annotations={"topology": "linear"})))
    attempt("rec.linear2", lambda: CircularRecord(Seq("ATGC"), annotations={"topology": "LINEAR"}))
    attempt("rec.circ", lambda: CircularRecord(Seq("ATGC"), annotations={"topology": "Circular"}))
    attempt("rec.defaults", lambda: CircularRecord(Seq("ATGC")))
    attempt("rec.kw", lambda: CircularRecord(seq=Seq("ATGC"), id="i", name="n", description="d",
                                             dbxrefs=["x"], features=[], annotations={}, letter_annotations={}))


# --- C. core classes on generated records ---------------------------------------

class BsaModule(AbstractModule):
    cutter = BsaI


class BpiProduct(Product):
    cutter = BpiI


class BsmCassette(Cassette):
    cutter = BsmBI


class SapEntry(Entry):
    cutter = SapI


class FokDevice(Device):
    cutter = FokI


class BsaVector(AbstractVector):
    cutter = BsaI


class BpiEntryVector(EntryVector):
    cutter = BpiI


class BsmCassetteVector(CassetteVector):
    cutter = BsmBI


class SapDeviceVector(DeviceVector):
    cutter = SapI


class BtsModule(AbstractModule):
    """3' overhang enzyme, default structure."""
    cutter = BtsI


class BtsModuleS(AbstractModule):
    """3' overhang enzyme with a hand-written structure."""
    cutter = BtsI

    @classmethod
    def structure(cls):
        return "GCAGTG(NN)(NN*N)(NN)CACTGC"


class BsrDVectorS(AbstractVector):
    cutter = BsrDI

    @classmethod
    def structure(cls):
        return "(NN)(CATTGCN*GCAATG)(NN)"


class BtsVector(AbstractVector):
    cutter = BtsI


class BseRModule(Entry):
    cutter = BseRI


class BluntModule(AbstractModule):
    cutter = MlyI


class NoCutterVector(AbstractVector):
    pass


class PartBase(AbstractPart):
    cutter = BsaI
    signature = NotImplemented


class PartA(PartBase, BsaModule):
    signature = ("ATGC", "CGTA")


class PartB(PartBase, BsaModule):
    signature = ("CGTA", "TTAG")


class PartV(PartBase, BsaVector):
    signature = ("TTAG", "ATGC")


class PartN(AbstractPart, BsaModule):
    cutter = BsaI


class PartOrphan(AbstractPart):
    cutter = BsaI
    signature = ("AAAA", "CCCC")

    @classmethod
    def structure(cls):
        return super(PartOrphan, cls).structure()


class SapPartM(AbstractPart, SapEntry):
    cutter = SapI
    signature = ("ATG", "GGT")


class BtsPart(AbstractPart, BtsModuleS):
    cutter = BtsI
    signature = ("AT", "GG")


MODULE_CLASSES = [BsaModule, BpiProduct, BsmCassette, SapEntry, FokDevice, BtsModule, BtsModuleS,
                  BseRModule, PartA, PartB, PartN, SapPartM, BtsPart]
VECTOR_CLASSES = [BsaVector, BpiEntryVector, BsmCassetteVector, SapDeviceVector, BsrDVectorS,
                  BtsVector, PartV]
OTHER_CLASSES = [BluntModule, NoCutterVector, PartBase, PartOrphan, AbstractModule, AbstractVector,
                 AbstractPart]


def module_seq(cutter, up, target, down, backbone, custom=None):
    """Build a plasmid holding exactly one module structure for the cutter."""
    site = cutter.site
    gap = cutter.fst5 - len(site) if cutter.is_5overhang() else (cutter.fst5 - len(site) - len(cutter.ovhgseq))
    gap = max(gap, 0)
    sp1 = "ACTGACTGACTGACTGAC"[:gap]
    sp2 = "TGACTCAGTCAGTCAGTC"[:gap]
    return backbone + site + sp1 + up + target + down + sp2 + rc(site)


def vector_seq(cutter, up, down, placeholder, backbone):
    site = cutter.site
    gap = cutter.fst5 - len(site) if cutter.is_5overhang() else (cutter.fst5 - len(site) - len(cutter.ovhgseq))
    gap = max(gap, 0)
    sp1 = "ACTGACTGACTGACTGAC"[:gap]
    sp2 = "TGACTCAGTCAGTCAGTC"[:gap]
    # backbone | down-overhang | spacer | revsite | placeholder | site | spacer | up-overhang | backbone
    return "T" + down + sp1 + rc(site) + placeholder + site + sp2 + up + "A" + backbone


def observe(tag, entity, want_placeholder):
    attempt(tag + ".valid", entity.is_valid)
    attempt(tag + ".ovs", entity.overhang_start)
    attempt(tag + ".ove", entity.overhang_end)
    attempt(tag + ".target", entity.target_sequence)
    if want_placeholder:
        attempt(tag + ".placeholder", entity.placeholder_sequence)
    attempt(tag + ".valid2", entity.is_valid)


def section_core():
    rng = random.Random(3)
    for cls in MODULE_CLASSES + VECTOR_CLASSES + OTHER_CLASSES:
        attempt("cls.%s.structure" % cls.__name__, cls.structure)
        attempt("cls.%s.new" % cls.__name__, lambda: type(cls(CircularRecord(Seq("ATGC"), id="tiny"))).__name__)
        emit("cls.%s.level" % cls.__name__, "%r" % (getattr(cls, "_level", "n/a"),))

    for ci, cls in enumerate(MODULE_CLASSES):
        k = len(cls.cutter.ovhgseq)
        sig = getattr(cls, "signature", None)
        if isinstance(sig, tuple):
            up, down = sig
        else:
            up, down = "ATGCA"[:k], "CGTAC"[:k]
        for variant in range(3):
            bb = clean_dna(rng.randrange(8, 20), rng)
            tg = clean_dna(rng.randrange(2, 14), rng)
            s = module_seq(cls.cutter, up, tg, down, bb)
            if variant == 1:
                s = mixcase(s, rng)
            rich = variant == 2
            base = circ(s, "m%d_%d" % (ci, variant), rich=rich, rng=rng)
            n = len(s)
            before = d_rec(base)
            for rot in range(n):
                r = base >> rot
                observe("mod.%s.v%d.rot%d" % (cls.__name__, variant, rot), cls(r), False)
            emit("mod.%s.v%d.untouched" % (cls.__name__, variant), str(d_rec(base) == before))
            # plain SeqRecord flavours of a few rotations
            for rot in (0, 3, n // 2, n - 2):
                rs = str((base >> rot).seq)
                for ann in (None, {"topology": "circular"}, {"topology": "linear"}, {"topology": "Circular"}):
                    rec_ = SeqRecord(Seq(rs), id="plain", annotations=ann)
                    observe("mod.%s.v%d.plain%d.%s" % (cls.__name__, variant, rot, d_val(ann)), cls(rec_), False)

    for ci, cls in enumerate(VECTOR_CLASSES):
        k = len(cls.cutter.ovhgseq)
        sig = getattr(cls, "signature", None)
        if isinstance(sig, tuple):
            up, down = sig
        else:
            up, down = "ATGCA"[:k], "CGTAC"[:k]
        for variant in range(3):
            bb = clean_dna(rng.randrange(8, 20), rng)
            ph = clean_dna(rng.randrange(0, 10), rng)
            s = vector_seq(cls.cutter, up, down, ph, bb)
            if variant == 1:
                s = mixcase(s, rng)
            base = circ(s, "v%d_%d" % (ci, variant), rich=(variant == 2), rng=rng)
            n = len(s)
            before = d_rec(base)
            for rot in range(n):
                observe("vec.%s.v%d.rot%d" % (cls.__name__, variant, rot), cls(base >> rot), True)
            emit("vec.%s.v%d.untouched" % (cls.__name__, variant), str(d_rec(base) == before))
            for rot in (0, 2, n // 2, n - 3):
                rs = str((base >> rot).seq)
                for ann in (None, {"topology": "linear"}):
                    rec_ = SeqRecord(Seq(rs), id="plain", annotations=ann)
                    observe("vec.%s.v%d.plain%d.%s" % (cls.__name__, variant, rot, d_val(ann)), cls(rec_), True)

    # records that must be rejected / illegal sites / several structures
    bb = clean_dna(15, rng)
    bad = {
        "nosite": clean_dna(40, rng),
        "onesite": bb + "GGTCTCA" + clean_dna(12, rng),
        "illegal": module_seq(BsaI, "ATGC", "AAGGTCTCTT", "CGTA", bb),
        "illegal_rc": module_seq(BsaI, "ATGC", "AAGAGACCTT", "CGTA", bb),
        "two": module_seq(BsaI, "ATGC", "AAA", "CGTA", bb) + module_seq(BsaI, "ATGC", "CCC", "CGTA", bb),
        "outer_site": module_seq(BsaI, "ATGC", "AAA", "CGTA", bb + "GGTCTC" + "TTT"),
        "short": "GGTCTC",
        "empty_target": module_seq(BsaI, "ATGC", "", "CGTA", bb),
    }
    for name, s in sorted(bad.items()):
        base = CircularRecord(Seq(s), id=name)
        for rot in range(0, len(s), max(1, len(s) // 9)):
            for cls in (BsaModule, BsaVector, PartA, PartV):
                observe("bad.%s.%s.rot%d" % (name, cls.__name__, rot), cls(base >> rot), cls in (BsaVector, PartV))

    # characterize
    pa = circ(module_seq(BsaI, "ATGC", "AAACCC", "CGTA", clean_dna(12, rng)), "pa")
    pb = circ(module_seq(BsaI, "CGTA", "GGGTTT", "TTAG", clean_dna(12, rng)), "pb")
    pv = circ(vector_seq(BsaI, "TTAG", "ATGC", "CC", clean_dna(14, rng)), "pv")
    for nm, rec_ in (("pa", pa), ("pb", pb), ("pv", pv), ("none", circ(clean_dna(30, rng), "none"))):
        for rot in (0, 5, len(rec_) // 2, len(rec_) - 4):
            for base_cls in (PartBase, PartA, AbstractPart):
                attempt("characterize.%s.%s.rot%d" % (nm, base_cls.__name__, rot),
                        lambda: base_cls.characterize(rec_ >> rot))


# --- D. assemblies --------------------------------------------------------------

def state(*entities):
    return "|".join(d_rec(e.record) for e in entities)


def section_assembly():
    rng = random.Random(4)
    ovs = ["ATGC", "CGTA", "TTAG", "GGCA"]
    for case in range(6):
        rich = case % 2 == 0
        nmods = 1 + case % 3
        vec_s = vector_seq(BsaI, ovs[nmods], ovs[0], clean_dna(6, rng), clean_dna(18, rng))
        mods_s = [module_seq(BsaI, ovs[i], clean_dna(rng.randrange(3, 12), rng), ovs[i + 1],
                             clean_dna(rng.randrange(10, 18), rng)) for i in range(nmods)]
        if case == 3:
            mods_s = [mixcase(m, rng) for m in mods_s]
            vec_s = mixcase(vec_s, rng)
        vec_r = circ(vec_s, "vec%d" % case, rich=rich, rng=rng)
        mod_r = [circ(m, "mod%d_%d" % (case, i), rich=rich, rng=rng) for i, m in enumerate(mods_s)]
        lens = [len(vec_r)] + [len(m) for m in mod_r]
        for trial in range(40):
            if trial == 0:
                rots = [0] * len(lens)
            else:
                rots = [rng.randrange(n) for n in lens]
            v = BsaVector(vec_r >> rots[0])
            ms = [BsaModule(m >> k) for m, k in zip(mod_r, rots[1:])]
            order = list(ms)
            rng.shuffle(order)
            tag = "asm%d.t%d(%s)" % (case, trial, ",".join(map(str, rots)))
            before = state(v, *ms)
            kwargs = {} if trial % 3 else {"id": "ID%d" % trial, "name": "NM%d" % trial}
            attempt(tag, lambda: v.assemble(*order, **kwargs))
            emit(tag + ".inputs", str(state(v, *ms) == before))
            emit(tag + ".inputs2", state(v, *ms))
    # parts assemblies
    pa = circ(module_seq(BsaI, "ATGC", "AAACCC", "CGTA", clean_dna(12, rng)), "pa", rich=True, rng=rng)
    pb = circ(module_seq(BsaI, "CGTA", "GGGTTT", "TTAG", clean_dna(12, rng)), "pb", rich=True, rng=rng)
    pv = circ(vector_seq(BsaI, "TTAG", "ATGC", "CC", clean_dna(14, rng)), "pv", rich=True, rng=rng)
    for trial in range(30):
        ks = [rng.randrange(len(x)) for x in (pv, pa, pb)]
        v, a, b = PartV(pv >> ks[0]), PartA(pa >> ks[1]), PartB(pb >> ks[2])
        attempt("asmparts.t%d(%s)" % (trial, ks), lambda: v.assemble(b, a))
    # failing assemblies
    bb = clean_dna(14, rng)
    vec_ok = circ(vector_seq(BsaI, "TTAG", "ATGC", "CCC", bb), "vok", rich=True, rng=rng)
    vec_same = circ(vector_seq(BsaI, "ATGC", "ATGC", "CCC", bb), "vsame")
    vec_same_case = circ(vector_seq(BsaI, "ATGC", "atgc", "CCC", bb), "vsamecase")
    m_ab = circ(module_seq(BsaI, "ATGC", "AAA", "CGTA", bb), "m_ab", rich=True, rng=rng)
    m_ab2 = circ(module_seq(BsaI, "atgc", "TTT", "CGTA", bb), "m_ab2")
    m_bc = circ(module_seq(BsaI, "CGTA", "GGG", "TTAG", bb), "m_bc")
    m_bx = circ(module_seq(BsaI, "CGTA", "GGG", "GGCA", bb), "m_bx")
    m_rc = circ(module_seq(BsaI, "GCAT", "GGG", "TTAG", bb), "m_rc")
    m_xy = circ(module_seq(BsaI, "AAAA", "GGG", "CCCC", bb), "m_xy")
    m_bad = circ(clean_dna(30, rng), "m_bad")
    m_badcite = circ(module_seq(BsaI, "CGTA", "GGG", "TTAG", bb), "m_badcite", rich=True, rng=rng)
    m_badcite.features[0].qualifiers["citation"] = ["one"]
    m_lin = SeqRecord(Seq(module_seq(BsaI, "CGTA", "GGG", "TTAG", bb)), id="m_lin")
    cases = {
        "ok": (vec_ok, [m_ab, m_bc]),
        "same": (vec_same, [m_ab]),
        "samecase": (vec_same_case, [m_ab]),
        "dup": (vec_ok, [m_ab, m_ab2, m_bc]),
        "dup_same": (vec_ok, [m_ab, m_ab, m_bc]),
        "rc": (vec_ok, [m_ab, m_rc, m_bc]),
        "missing": (vec_ok, [m_ab]),
        "missing2": (vec_ok, [m_ab, m_bx]),
        "missing_first": (vec_ok, [m_bc]),
        "unused": (vec_ok, [m_ab, m_bc, m_xy]),
        "invalid_mod": (vec_ok, [m_ab, m_bad]),
        "invalid_vec": (m_bad, [m_ab, m_bc]),
        "zbadcite": (vec_ok, [m_ab, m_badcite]),
        "linear_mod": (vec_ok, [m_ab, m_lin]),
    }
    # manager used directly
    v = BsaVector(vec_ok >> 7)
    ms = [BsaModule(m_ab >> 3), BsaModule(m_bc >> 11)]
    attempt("mgr.default", lambda: AssemblyManager(v, ms).assemble())
    attempt("mgr.kw", lambda: AssemblyManager(vector=v, modules=ms, id_="i", name="n").assemble())
    attempt("mgr.attrs", lambda: [(k, d_val(x)) for k, x in sorted(vars(AssemblyManager(v, ms, "i", "n")).items())])
    attempt("mgr.same", lambda: AssemblyManager(BsaVector(vec_same), ms))
    for name in sorted(cases):
        vr, mrs = cases[name]
        for trial in range(5):
            kv = 0 if trial == 0 else rng.randrange(len(vr))
            v = BsaVector(vr >> kv) if isinstance(vr, CircularRecord) else BsaVector(vr)
            ms = []
            for mr in mrs:
                km = 0 if trial == 0 else rng.randrange(len(mr))
                ms.append(BsaModule(mr >> km) if isinstance(mr, CircularRecord) else BsaModule(mr))
            tag = "fail.%s.t%d" % (name, trial)
            attempt(tag, lambda: v.assemble(*ms))
            emit(tag + ".inputs", state(v, *ms))
            attempt(tag + ".again", lambda: v.assemble(*ms, name="again"))


# --- E. kits and registries -----------------------------------------------------

def section_kits():
    import inspect
    from moclo.kits import ytk, cidar, ecoflex, plant
    from moclo.kits import moclo as moclo_kit
    from moclo.registry.ytk import YTKRegistry, PTKRegistry
    from moclo.registry.cidar import CIDARRegistry
    from moclo.registry.ecoflex import EcoFlexRegistry
    from moclo.registry.plant import PlantRegistry

    for kit in (ytk, cidar, ecoflex, plant, moclo_kit):
        for name, cls in sorted(vars(kit).items()):
            if inspect.isclass(cls) and issubclass(cls, (AbstractModule, AbstractVector, AbstractPart)):
                attempt("kit.%s.%s.structure" % (kit.__name__, name), cls.structure)
                emit("kit.%s.%s.mro" % (kit.__name__, name), ",".join(c.__name__ for c in cls.__mro__))

    rng = random.Random(5)
    for reg_cls in (YTKRegistry, PTKRegistry, CIDARRegistry, EcoFlexRegistry, PlantRegistry):
        reg = reg_cls()
        for key in sorted(reg):
            item = reg[key]
            ent = item.entity
            cls = type(ent)
            n = len(ent.record)
            tag = "reg.%s.%s" % (reg_cls.__name__, key)
            emit(tag + ".item", "%s|%s|%s|%s" % (item.id, item.name, cls.__name__, item.resistance))
            is_vec = isinstance(ent, AbstractVector)
            m = ent._match if ent.is_valid() else None
            rots = [0]
            if m is not None:
                rots += [(-(m.span(1)[0] + 2)) % n, (-(m.span(3)[0] + 1)) % n, (-(m.span(2)[0] + 5)) % n,
                         (-(m.span(0)[0] + 3)) % n, (-(m.span(0)[1] - 2)) % n, rng.randrange(n)]
            for rot in rots:
                e2 = cls(ent.record >> rot)
                out = []
                for fn in ("is_valid", "overhang_start", "overhang_end", "target_sequence") + (
                        ("placeholder_sequence",) if is_vec else ()):
                    try:
                        v = getattr(e2, fn)()
                        if isinstance(v, SeqRecord):
                            v = "%s:%s:%d" % (type(v).__name__,
                                              hashlib.md5(d_rec(v).encode()).hexdigest(), len(v))
                        out.append("%s=%s" % (fn, v))
                    except Exception as e:  # noqa
                        out.append("%s=%s" % (fn, d_exc(e)[:300]))
                emit(tag + ".rot%d" % rot, "|".join(out))

    # kit assemblies with rotated inputs
    reg = YTKRegistry()
    vec = reg["pYTK095"].entity
    mods = [reg[x].entity for x in ("pYTK002", "pYTK047", "pYTK072")]
    for trial in range(6):
        v = type(vec)(vec.record >> (0 if trial == 0 else rng.randrange(len(vec.record))))
        ms = [type(m)(m.record >> (0 if trial == 0 else rng.randrange(len(m.record)))) for m in mods]

        def run():
            a = v.assemble(*ms)
            return "%s:%s:%d" % (type(a).__name__, hashlib.md5(d_rec(a).encode()).hexdigest(), len(a))
        attempt("ytk.asm.t%d" % trial, run)
    creg = CIDARRegistry()
    vec = creg["DVK_AE"].entity
    mods = [creg[x].entity for x in ("J23102_AB", "BCD2_BC", "E1010m_CD", "B0015_DE")]
    for trial in range(6):
        v = type(vec)(vec.record >> (0 if trial == 0 else rng.randrange(len(vec.record))))
        ms = [type(m)(m.record >> (0 if trial == 0 else rng.randrange(len(m.record)))) for m in mods]

        def run():
            a = v.assemble(*ms)
            return "%s:%s:%d" % (type(a).__name__, hashlib.md5(d_rec(a).encode()).hexdigest(), len(a))
        attempt("cidar.asm.t%d" % trial, run)


# --- F. errors ------------------------------------------------------------------

def section_errors():
    class Fake(object):
        def __init__(self, id_):
            self.record = SeqRecord(Seq("A"), id=id_)

        def overhang_start(self):
            return Seq("ATGC")

    f1, f2 = Fake("one"), Fake("two")
    makers = [
        lambda: errors.MocloError("x", 1),
        lambda: errors.InvalidSequence(Seq("ATGC")),
        lambda: errors.InvalidSequence(Seq("ATGC"), ValueError("inner")),
        lambda: errors.InvalidSequence(Seq("ATGC"), details="why"),
        lambda: errors.InvalidSequence(sequence="ATGC", exc=None, details="why {}"),
        lambda: errors.InvalidSequence("{}"),
        lambda: errors.IllegalSite(Seq("GGTCTC")),
        lambda: errors.IllegalSite(Seq("GGTCTC"), details="here"),
        lambda: errors.AssemblyError("a", "b"),
        lambda: errors.DuplicateModules(f1, f2),
        lambda: errors.DuplicateModules(f1, f2, details="same"),
        lambda: errors.DuplicateModules(),
        lambda: errors.DuplicateModules(f1, other=3),
        lambda: errors.MissingModule("ATGC"),
        lambda: errors.MissingModule(Seq("ATGC"), details="d"),
        lambda: errors.MissingModule(start_overhang="ATGC"),
        lambda: errors.MissingModule(),
        lambda: errors.AssemblyWarning("w"),
        lambda: errors.UnusedModules(f1),
        lambda: errors.UnusedModules(f1, f2, details=5),
        lambda: errors.UnusedModules(),
        lambda: errors.InvalidSequence(),
        lambda: errors.InvalidSequence(Seq("ATGC"), details=5),
        lambda: errors.DuplicateModules(f1, details=5),
        lambda: errors.MissingModule("ATGC", details=5),
        lambda: errors.MissingModule("ATGC", "CGTA"),
        lambda: errors.IllegalSite(Seq("ATGC"), None, "d"),
    ]
    for i, mk in enumerate(makers):
        e = attempt("err%d" % i, mk)
        if e is not None:
            emit("err%d.mro" % i, ",".join(c.__name__ for c in type(e).__mro__))
            attempt("err%d.repr" % i, lambda: repr(e) if not any(isinstance(a, Fake) for a in e.args) else "fake")
    emit("err.all", ",".join(sorted(k for k, v in vars(errors).items()
                                     if isinstance(v, type) and issubclass(v, BaseException))))


def main():
    section_regex()
    section_record()
    section_core()
    section_assembly()
    section_kits()
    section_errors()
    blob = "\n".join(LINES).encode("utf-8")
    if "--dump" in sys.argv:
        with open(sys.argv[sys.argv.index("--dump") + 1], "wb") as fh:
            fh.write(blob)
    print("results: %d" % len(LINES))
    print("digest: %s" % hashlib.sha256(blob).hexdigest())


if __name__ == "__main__":
    main()
