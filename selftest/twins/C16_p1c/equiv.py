# coding: utf-8
"""Differential test for the C16 refactoring (pair 1).

Exercises ``moclo.regex`` (pattern transcription, search, group extraction),
the ``StructuredRecord`` matching built on it and the module / vector helpers
that read the match, on generated inputs, and prints a digest of everything
observable: results, exception types and messages, warnings, and the state of
the inputs afterwards.  The digest must be identical before / after a
behaviour-preserving change.
"""
import sys

sys.path.insert(0, "/tmp/agents5/C16")
import tests  # noqa: F401,E402  (splices the kits in the moclo namespace)

import hashlib  # noqa: E402
import random  # noqa: E402
import re  # noqa: E402
import warnings  # noqa: E402

from Bio.Restriction import BsaI, BsmBI, BbsI, BseRI, BtsI, SapI  # noqa: E402
from Bio.Seq import Seq, MutableSeq  # noqa: E402
from Bio.SeqFeature import SeqFeature, FeatureLocation  # noqa: E402
from Bio.SeqRecord import SeqRecord  # noqa: E402

from moclo.core import (  # noqa: E402
    AbstractModule,
    AbstractVector,
    AbstractPart,
    Entry,
    EntryVector,
    Product,
    Cassette,
    CassetteVector,
)
from moclo.core._structured import StructuredRecord  # noqa: E402
from moclo.record import CircularRecord  # noqa: E402
from moclo.regex import DNARegex, SeqMatch  # noqa: E402

LINES = []
STATS = {"results": 0, "exceptions": 0, "warnings": 0}


def emit(*fields):
    LINES.append(" | ".join(str(f) for f in fields))


def describe(obj):
    """A deterministic, address-free description of a result."""
    if obj is None or isinstance(obj, (bool, int, str)):
        return repr(obj)
    if isinstance(obj, tuple):
        return "(" + ", ".join(describe(o) for o in obj) + ")"
    if isinstance(obj, Seq):
        return "{}({!r})".format(type(obj).__name__, str(obj))
    if isinstance(obj, SeqRecord):
        feats = [
            (f.type, str(f.location), f.id, sorted((k, str(v)) for k, v in f.qualifiers.items()))
            for f in obj.features
        ]
        return "{}(seq={!r}, id={!r}, name={!r}, desc={!r}, dbxrefs={!r}, feats={!r}, annot={!r}, letters={!r})".format(
            type(obj).__name__,
            str(obj.seq),
            obj.id,
            obj.name,
            obj.description,
            obj.dbxrefs,
            feats,
            sorted((k, repr(v)) for k, v in obj.annotations.items()),
            sorted((k, repr(v)) for k, v in obj.letter_annotations.items()),
        )
    if isinstance(obj, SeqMatch):
        return "SeqMatch(span={!r}, rec_is_same={})".format(obj.match.span(), True)
    if isinstance(obj, (list, set, frozenset, dict, float, bytes)):
        return repr(obj)
    if isinstance(obj, StructuredRecord):
        return "<{} on {}>".format(type(obj).__name__, obj.record.id)
    return "<{}>".format(type(obj).__name__)


def observe(label, func, *args, **kwargs):
    """Run func, record its result / exception / warnings."""
    with warnings.catch_warnings(record=True) as caught:
        warnings.simplefilter("always")
        try:
            result = func(*args, **kwargs)
        except Exception as err:  # noqa: B902
            STATS["exceptions"] += 1
            emit(label, "EXC", type(err).__name__, str(err))
            result = None
        else:
            STATS["results"] += 1
            emit(label, "OK", describe(result))
    for w in caught:
        STATS["warnings"] += 1
        emit(label, "WARN", w.category.__name__, str(w.message))
    return result


def observe_match(label, match, ngroups):
    if match is None:
        emit(label, "no match")
        return
    observe(label + " start", match.start)
    observe(label + " end", match.end)
    observe(label + " span", match.span)
    emit(label, "type of span", type(match.span()).__name__, "shift", match.shift)
    for index in range(0, ngroups + 2):
        observe(label + " span%d" % index, match.span, index)
        observe(label + " group%d" % index, match.group, index)


# --- generators -------------------------------------------------------------

RNG = random.Random(0xC16)
CODES = "ACGTBDHKMNRSVWY"
NUCS = "ACGT"


def rand_dna(n, alphabet="ACGT", mixed=False):
    s = "".join(RNG.choice(alphabet) for _ in range(n))
    if mixed:
        s = "".join(c.lower() if RNG.random() < 0.5 else c for c in s)
    return s


def rand_pattern():
    """A pattern over IUPAC letters, with groups and wildcard runs."""
    parts = []
    ngroups = 0
    for _ in range(RNG.randint(1, 4)):
        kind = RNG.random()
        if kind < 0.45:
            atom = rand_dna(RNG.randint(1, 3), alphabet="ACGT")
        elif kind < 0.7:
            atom = rand_dna(RNG.randint(1, 2), alphabet=CODES)
        elif kind < 0.8:
            atom = "N*"
        elif kind < 0.87:
            atom = "N*?"
        elif kind < 0.93:
            atom = "NN*N"
        else:
            atom = "N+?"
        if RNG.random() < 0.5:
            atom = "(" + atom + ")"
            ngroups += 1
        parts.append(atom)
    return "".join(parts), ngroups


def make_target(kind, text):
    if kind == "seq":
        return Seq(text)
    feats = []
    n = len(text)
    if n >= 2:
        a = RNG.randrange(0, n - 1)
        b = RNG.randrange(a + 1, n + 1)
        feats.append(
            SeqFeature(FeatureLocation(a, b, strand=1), type="misc_feature", qualifiers={"label": ["f1"]})
        )
        feats.append(SeqFeature(FeatureLocation(0, n), type="source", qualifiers={"organism": ["x"]}))
    annotations = {"topology": "circular" if kind == "circ" else "linear", "molecule_type": "DNA"}
    letters = {"phred_quality": list(range(n))}
    cls = CircularRecord if kind == "circ" else SeqRecord
    return cls(
        Seq(text),
        id="id_" + kind,
        name="name_" + kind,
        description="desc " + kind,
        dbxrefs=["db:1"],
        features=feats,
        annotations=annotations,
        letter_annotations=letters,
    )


# --- 1. transcription -------------------------------------------------------


def section_transcription():
    for code in CODES + "acgtnbx.*+?()[]^$|\\d":
        observe("transcribe %r" % code, lambda c=code: DNARegex(c).regex.pattern)
    for pattern in [
        "",
        "GGTCTCN(NNNN)(NN*N)(NNNN)NGAGACC",
        "ggtctcn(nnnn)",
        "A{2,3}(N)",
        "(?P<x>RY)K",
        "[BD]",
        "(",
        "N)",
        b"ACGT",
        ["A", "N"],
        ["A", 1],
        [1],
        ("N", "N"),
        None,
        12,
    ]:
        observe("compile %r" % (pattern,), lambda p=pattern: DNARegex(p).regex.pattern)
        observe("pattern attr %r" % (pattern,), lambda p=pattern: DNARegex(p).pattern == p)
    emit("flags", DNARegex("N").regex.flags)
    emit("lettermap", sorted(DNARegex._lettermap.items()))


# --- 2. letter x nucleotide x case ------------------------------------------


def section_letters():
    for code in CODES:
        rx = DNARegex(code)
        for nuc in "ACGTNacgtnXx-":
            for linear in (True, False):
                m = rx.search(Seq(nuc), linear=linear)
                emit("letter", code, nuc, linear, None if m is None else (m.span(), str(m.group())))


# --- 3. random searches -----------------------------------------------------


def section_search():
    for case in range(420):
        pattern, ngroups = rand_pattern()
        n = RNG.choice([0, 1, 2, 3, 4, 5, 6, 8, 10, 13, 17, 24])
        alphabet = RNG.choice(["ACGT", "ACGT", "AC", "ACGTN"])
        text = rand_dna(n, alphabet, mixed=RNG.random() < 0.4)
        # plant the literal part of the pattern at a random (maybe wrapping) offset
        if n and RNG.random() < 0.7:
            literal = re.sub(r"[^ACGT]", "", pattern)[:n]
            off = RNG.randrange(n)
            chars = list(text)
            for k, c in enumerate(literal):
                chars[(off + k) % n] = c
            text = "".join(chars)
        kind = RNG.choice(["seq", "rec", "circ"])
        target = make_target(kind, text)
        before = describe(target)
        kwargs = {}
        r = RNG.random()
        if r < 0.3:
            kwargs["pos"] = RNG.randint(-2, n + 2)
        if 0.2 < r < 0.5:
            kwargs["endpos"] = RNG.randint(-2, n + 2)
        r = RNG.random()
        if r < 0.4:
            kwargs["linear"] = False
        elif r < 0.6:
            kwargs["linear"] = True
        label = "search#%d %r on %s %r %r" % (case, pattern, kind, text, sorted(kwargs.items()))
        try:
            rx = DNARegex(pattern)
        except re.error as err:
            emit(label, "bad pattern", err)
            continue
        with warnings.catch_warnings(record=True) as caught:
            warnings.simplefilter("always")
            try:
                match = rx.search(target, **kwargs)
            except Exception as err:  # noqa: B902
                emit(label, "EXC", type(err).__name__, err)
                STATS["exceptions"] += 1
                continue
        for w in caught:
            emit(label, "WARN", w.category.__name__, w.message)
        if match is not None:
            emit(label, "rec identity", match.rec is target, type(match.match).__name__)
        observe_match(label, match, ngroups)
        emit(label, "input unchanged", describe(target) == before)

    # positional arguments, and the full sweep of starts on a small plasmid
    rx = DNARegex("AA(NN)")
    for text in ("ATGCAGCATA", "TGCCGGAA", "AATG", "AAAA", "CAA", "AA", "A"):
        for kind in ("seq", "rec", "circ"):
            target = make_target(kind, text)
            for linear in (True, False):
                for pos in range(-1, len(text) + 2):
                    for endpos in (0, 1, len(text) - 1, len(text), len(text) + 5):
                        m = rx.search(target, pos, endpos, linear)
                        emit(
                            "sweep", text, kind, linear, pos, endpos,
                            None if m is None else (m.span(0), m.span(1), describe(m.group(1)), describe(m.group(0))),
                        )


# --- 4. type errors, hand-made matches ---------------------------------------


def section_misc():
    rx = DNARegex("NN")
    for bad in ["ATGC", b"ATGC", None, 3, ["A"], MutableSeq("ATGC"), object]:
        observe("type %s" % type(bad).__name__, rx.search, bad)
        observe("type nl %s" % type(bad).__name__, rx.search, bad, linear=False)
    observe("pos type", rx.search, Seq("ATGC"), "a")
    observe("endpos type", rx.search, Seq("ATGC"), 0, None)
    observe("float pos", rx.search, Seq("ATGC"), 1.0)

    # SeqMatch built by hand on arbitrary spans
    for text in ("", "A", "ACGT", "ACGTACGTAC"):
        for kind in ("seq", "rec", "circ"):
            rec = make_target(kind, text)
            doubled = (text * 3) + "TTTT"
            for pat in ["(A)?(C)", "(ACGT)*", "(N*)(T)", "()", "(?:X)?()", "C(GTA)(C*)"]:
                raw = re.compile(DNARegex._transcribe(pat))
                for start in range(0, len(doubled)):
                    m = raw.match(doubled, start)
                    if m is None:
                        continue
                    sm = SeqMatch(m, rec, shift=start)
                    label = "handmade %r %s %r @%d" % (pat, kind, text, start)
                    observe_match(label, sm, raw.groups)


# --- 5. structured records ---------------------------------------------------


class BsaIModule(Entry):
    cutter = BsaI


class BsmBIModule(Cassette):
    cutter = BsmBI


class BsaIVector(EntryVector):
    cutter = BsaI


class BsmBIVector(CassetteVector):
    cutter = BsmBI


class BbsIProduct(Product):
    cutter = BbsI


class BseRIModule(Entry):  # 3' overhang cutter
    cutter = BseRI


class BseRIVector(EntryVector):
    cutter = BseRI


class BtsIModule(Entry):  # 3' overhang cutter
    cutter = BtsI


class SapIVector(EntryVector):
    cutter = SapI


class SigPart(AbstractPart, BsaIModule):
    cutter = BsaI
    signature = ("ATGC", "TTAC")


class SigVectorPart(AbstractPart, BsaIVector):
    cutter = BsaI
    signature = ("ATGC", "TTAC")


class NoStructure(StructuredRecord):
    @classmethod
    def structure(cls):
        return "AC(GT)"


def site_pair(cutter, insert, up_ovhg, down_ovhg, vector=False):
    """A sequence laid out the way the cutter's module (or vector) expects."""
    up = cutter.elucidate()
    down = str(Seq(up).reverse_complement())

    def lay(site, ovhg):
        head, rest = site.replace("_", "^").split("^", 1)
        body, tail = rest.split("^", 1)
        fill = lambda t: "".join(RNG.choice("AT") if c == "N" else c for c in t)  # noqa: E731
        return fill(head), (ovhg if len(ovhg) == len(body) else fill(body)), fill(tail)

    u_head, u_ovhg, u_tail = lay(up, up_ovhg)
    d_head, d_ovhg, d_tail = lay(down, down_ovhg)
    if not vector:
        return u_head + u_ovhg + u_tail + insert + d_head + d_ovhg + d_tail
    return d_head + d_ovhg + d_tail + insert + u_head + u_ovhg + u_tail


def section_structured():
    classes = [
        BsaIModule, BsmBIModule, BsaIVector, BsmBIVector, BbsIProduct,
        BseRIModule, BseRIVector, BtsIModule, SapIVector, SigPart, SigVectorPart,
    ]
    for cls in classes:
        observe("structure %s" % cls.__name__, cls.structure)
        observe("regex cached %s" % cls.__name__, lambda c=cls: c._get_regex() is c._get_regex())
        observe("regex pattern %s" % cls.__name__, lambda c=cls: c._get_regex().pattern)
    observe("structure NoStructure", lambda: NoStructure(SeqRecord(Seq("ACGT"))).is_valid())
    observe("abstract module", lambda: AbstractModule(SeqRecord(Seq("ACGT"))))
    observe("abstract vector", lambda: AbstractVector(SeqRecord(Seq("ACGT"))))

    topologies = [None, "circular", "linear", "Circular", "LINEAR", "weird", 3]
    for case in range(260):
        cls = RNG.choice(classes)
        cutter = cls.cutter
        olen = abs(cutter.ovhg)
        up, down = rand_dna(olen), rand_dna(olen)
        if cls in (SigPart, SigVectorPart) and RNG.random() < 0.7:
            up, down = cls.signature
        insert = rand_dna(RNG.randint(0, 14))
        is_vector = issubclass(cls, AbstractVector)
        core = site_pair(cutter, insert, up, down, vector=is_vector)
        r = RNG.random()
        if r < 0.1:
            core = core[: len(core) // 2]  # broken structure
        elif r < 0.2:
            insert2 = cutter.site + rand_dna(3)
            core = site_pair(cutter, insert + insert2 + insert, up, down, vector=is_vector)  # illegal site
        backbone = rand_dna(RNG.randint(0, 12), "AT")
        text = core + backbone
        if RNG.random() < 0.6 and text:
            k = RNG.randrange(len(text))
            text = text[k:] + text[:k]  # rotate: the match wraps the origin
        if RNG.random() < 0.3:
            text = "".join(c.lower() if RNG.random() < 0.5 else c for c in text)
        kind = RNG.choice(["rec", "circ"])
        record = make_target(kind, text)
        topo = RNG.choice(topologies)
        if topo is None:
            record.annotations.pop("topology", None)
        else:
            record.annotations["topology"] = topo
        before = describe(record)
        label = "structured#%d %s %s %r topo=%r" % (case, cls.__name__, kind, text, topo)
        entity = observe(label + " new", cls, record)
        if entity is None:
            continue
        observe(label + " is_valid", entity.is_valid)
        observe(label + " is_valid again", entity.is_valid)
        observe(label + " ovhg start", entity.overhang_start)
        observe(label + " ovhg end", entity.overhang_end)
        observe(label + " target", entity.target_sequence)
        if is_vector:
            observe(label + " placeholder", entity.placeholder_sequence)
        observe(label + " match spans", lambda e=entity: [e._match.span(i) for i in range(4)])
        observe(label + " match groups", lambda e=entity: [describe(e._match.group(i)) for i in range(4)])
        emit(label, "input unchanged", describe(record) == before)

    # assemblies, good and failing
    for case in range(60):
        olen = 4
        n = RNG.randint(1, 3)
        ovhgs = []
        while len(ovhgs) < n + 1:
            o = rand_dna(olen)
            if o not in ovhgs and str(Seq(o).reverse_complement()) != o:
                ovhgs.append(o)
        mods = []
        for i in range(n):
            text = site_pair(BsaI, rand_dna(RNG.randint(3, 9), "AT"), ovhgs[i], ovhgs[i + 1]) + rand_dna(5, "AT")
            k = RNG.randrange(len(text))
            text = text[k:] + text[:k]
            mods.append(BsaIModule(make_target(RNG.choice(["rec", "circ", "circ", "circ"]), text)))
            mods[-1].record.id = "mod%d" % i
        vtext = site_pair(BsaI, rand_dna(6, "AT"), ovhgs[n], ovhgs[0], vector=True) + rand_dna(7, "AT")
        k = RNG.randrange(len(vtext))
        vtext = vtext[k:] + vtext[:k]
        vec = BsaIVector(make_target("circ", vtext))
        r = RNG.random()
        if r < 0.2 and len(mods) > 1:
            mods.pop(RNG.randrange(len(mods)))  # missing module
        elif r < 0.35:
            mods.append(mods[0])  # duplicate
        elif r < 0.45:
            vec = BsmBIVector(make_target("circ", vtext))  # wrong enzyme
        RNG.shuffle(mods)
        label = "assembly#%d n=%d" % (case, n)
        observe(label, lambda v=vec, m=mods: v.assemble(*m))
        observe(label + " named", lambda v=vec, m=mods: v.assemble(*m, id="x", name="y"))


def main():
    section_transcription()
    section_letters()
    section_search()
    section_misc()
    section_structured()
    digest = hashlib.sha256("\n".join(LINES).encode("utf-8")).hexdigest()
    print("lines: %d  results: %d  exceptions: %d  warnings: %d" % (
        len(LINES), STATS["results"], STATS["exceptions"], STATS["warnings"]))
    print("digest: %s" % digest)
    if "--dump" in sys.argv:
        with open(sys.argv[sys.argv.index("--dump") + 1], "w") as out:
            out.write("\n".join(LINES))


if __name__ == "__main__":
    main()
