# coding: utf-8
"""Differential test for C15: exercise the touched code through the API that
exists on the pristine tree and print a digest of everything observable.

Valid and invalid inputs alike: the pull request only modernises the code, so
results, exception types and messages, warnings and input states must all stay.
"""
import copy
import hashlib
import itertools
import random
import re
import sys
import warnings

sys.path.insert(0, "/tmp/agents7/C15")
import tests  # noqa: F401,E402

from Bio.Restriction import BpiI, BsaI, BsmBI  # noqa: E402
from Bio.Seq import Seq, MutableSeq  # noqa: E402
from Bio.SeqFeature import SeqFeature, FeatureLocation, CompoundLocation, Reference  # noqa: E402
from Bio.SeqRecord import SeqRecord  # noqa: E402

from moclo.core.modules import AbstractModule  # noqa: E402
from moclo.core.vectors import AbstractVector  # noqa: E402
from moclo.record import CircularRecord  # noqa: E402
from moclo.regex import DNARegex, SeqMatch  # noqa: E402

LOG = []
COUNT = [0]


def state(obj, depth=0):
    """A stable, printable description of a value."""
    if isinstance(obj, SeqRecord):
        return (
            type(obj).__name__,
            None if obj.seq is None else (type(obj.seq).__name__, str(obj.seq)),
            obj.id,
            obj.name,
            obj.description,
            list(obj.dbxrefs),
            [state(f) for f in obj.features],
            sorted((k, state(v)) for k, v in obj.annotations.items()),
            sorted((k, repr(v)) for k, v in obj.letter_annotations.items()),
        )
    if isinstance(obj, SeqFeature):
        return (
            "F",
            obj.type,
            repr(obj.location),
            obj.id,
            sorted((k, state(v)) for k, v in obj.qualifiers.items()),
        )
    if isinstance(obj, Reference):
        return ("Ref", obj.title, obj.authors, [repr(l) for l in obj.location])
    if isinstance(obj, (Seq, MutableSeq)):
        return (type(obj).__name__, str(obj))
    if isinstance(obj, SeqMatch):
        groups = obj.match.re.groups
        return (
            "SeqMatch",
            obj.start(),
            obj.end(),
            [obj.span(i) for i in range(groups + 1)],
            [state(obj.group(i)) for i in range(groups + 1)],
            obj.shift,
            obj.rec is not None,
        )
    if isinstance(obj, (list, tuple)):
        return [state(x) for x in obj]
    if isinstance(obj, dict):
        return sorted((repr(k), state(v)) for k, v in obj.items())
    return repr(obj)


def run(label, func, *inputs):
    """Call ``func``; log result or exception, warnings and the inputs' state."""
    COUNT[0] += 1
    with warnings.catch_warnings(record=True) as caught:
        warnings.simplefilter("always")
        try:
            outcome = ("ok", state(func()))
        except Exception as err:  # noqa
            outcome = ("exc", type(err).__name__, str(err), type(err).__mro__[1].__name__)
    warned = [(w.category.__name__, str(w.message)) for w in caught]
    LOG.append(repr((label, outcome, warned, [state(i) for i in inputs])))


def random_text(rng, alphabet, lo, hi):
    return "".join(rng.choice(alphabet) for _ in range(rng.randint(lo, hi)))


def rich_record(text, cls=SeqRecord, topology="circular", wrap=False):
    n = len(text)
    features = []
    if n >= 6:
        features = [
            SeqFeature(FeatureLocation(0, n, 1), type="source", qualifiers={"organism": ["x"]}),
            SeqFeature(FeatureLocation(1, 4, 1), type="promoter", qualifiers={"label": ["p"], "citation": ["[1]"]}),
            SeqFeature(FeatureLocation(n - 3, n, -1), type="CDS", qualifiers={"label": ["c"]}),
            SeqFeature(
                CompoundLocation([FeatureLocation(n - 2, n, 1), FeatureLocation(0, 2, 1)]),
                type="misc_feature",
                qualifiers={"label": ["wrap"], "citation": ["[2]", "[1]"]},
            ),
        ]
    ref1, ref2 = Reference(), Reference()
    ref1.title, ref1.authors = "first", "A"
    ref2.title, ref2.authors = "second", "B"
    annotations = {
        "molecule_type": "DNA",
        "keywords": ["k1"],
        "references": [ref1, ref2],
        "comment": "c",
    }
    if topology is not None:
        annotations["topology"] = topology
    record = SeqRecord(
        Seq(text),
        id="id_" + text[:4],
        name="name",
        description="desc",
        dbxrefs=["db:1"],
        features=features,
        annotations=annotations,
        letter_annotations={"q": list(range(n))},
    )
    return record


def membership(rng):
    texts = ["", "A", "a", "ATGC", "atgc", "AtGc", "ATGCATGCATGC", "GAAGACttATGC", "NNNN"]
    texts += [random_text(rng, a, 1, 10) for a in ["ACGT", "ACGTacgt", "acgtn", "AT"] for _ in range(8)]
    for text in texts:
        record = CircularRecord(Seq(text), id="m")
        plain = SeqRecord(Seq(text), id="m")
        mutable = CircularRecord(MutableSeq(text), id="m")
        queries = ["", text, text.lower(), text.upper(), text + "A", text * 2]
        doubled = text * 2
        queries += [doubled[i : i + w] for i in range(len(text)) for w in (1, 2, len(text) - 1, len(text))]
        queries += [random_text(rng, "ACGTacgt", 0, len(text) + 2) for _ in range(6)]
        # things that are not strings: too long ones are simply not contained,
        # the others are refused exactly as ``in`` on a string refuses them
        others = [
            Seq(text + "AC"),
            SeqRecord(Seq(text + "AC")),
            MutableSeq(text + "ACG"),
            list(text + "A"),
            list(text),
            tuple(text[:1]),
            5,
            None,
            b"A" * (len(text) + 1),
            text.encode()[:1],
            Seq(text[:1]),
            Seq(text),
            SeqRecord(Seq(text[:2])),
            MutableSeq(text[1:]),
            CircularRecord(Seq(text)),
        ]
        for query in queries + others:
            run(("in", text, repr(query)), lambda: query in record, record)
            run(("in-mutable", text, repr(query)), lambda: query in mutable, mutable)
        for query in queries[:8]:
            run(("in-plain", text, query), lambda: query in plain, plain)
        for shift in range(-2, len(text) + 2):
            if text:
                run(("rot-in", text, shift), lambda: [q in (record >> shift) for q in queries], record)
                run(("lrot", text, shift), lambda: record << shift, record)


def construction(rng):
    for topology in [None, "circular", "Circular", "CIRCULAR", "linear", "Linear", "LINEAR", "other", ""]:
        for text in ["", "ATGC", "ATGCATGCAT"]:
            original = rich_record(text, topology=topology)
            run(("wrap", topology, text), lambda: CircularRecord(original), original)
            run(
                ("wrap-ignored-args", topology, text),
                lambda: CircularRecord(original, "other", "other", "other", ["x"], [], {"topology": "linear"}, {}),
                original,
            )
            annotations = {} if topology is None else {"topology": topology}
            run(
                ("direct", topology, text),
                lambda: CircularRecord(Seq(text), "i", "n", "d", ["x"], [], annotations, {"q": "x" * len(text)}),
                annotations,
            )
            run(("direct-kw", topology, text), lambda: CircularRecord(seq=Seq(text), annotations=annotations))
    run("defaults", lambda: CircularRecord(Seq("ATGC")))
    run("mutable", lambda: CircularRecord(MutableSeq("ATGC"), id="m"))
    run("none", lambda: CircularRecord(None))
    run("bad-seq-int", lambda: CircularRecord(5))
    run("bad-seq-str", lambda: CircularRecord("ATGC"))
    run("bad-seq-str-kw", lambda: CircularRecord(seq="ATGC", id="x", annotations={"topology": "linear"}))
    run("bad-seq-list", lambda: CircularRecord(["A"]))
    run("bad-seq-bytes", lambda: CircularRecord(b"ATGC"))
    run("bad-id", lambda: CircularRecord(Seq("A"), id=5))
    run("bad-annotations", lambda: CircularRecord(Seq("A"), annotations=[("topology", "linear")]))
    run("bad-topology", lambda: CircularRecord(Seq("A"), annotations={"topology": None}))
    run("bad-letters", lambda: CircularRecord(Seq("AT"), letter_annotations={"q": [1]}))
    # wrapping copies, both ways
    original = rich_record("ATGCATGCAT")
    wrapped = CircularRecord(original)
    wrapped.annotations["keywords"].append("k2")
    wrapped.annotations["references"].pop()
    wrapped.features[1].qualifiers["label"].append("x")
    wrapped.features.pop()
    wrapped.dbxrefs.append("db:2")
    wrapped.letter_annotations["q"][0] = 99
    run("wrap-edit-copy", lambda: wrapped, original)
    again = CircularRecord(wrapped)
    original.annotations["keywords"].append("k3")
    original.features[0].qualifiers["organism"][0] = "y"
    run("wrap-edit-original", lambda: again, original, wrapped)
    run("same-seq", lambda: (wrapped.seq is original.seq, again.seq is wrapped.seq))
    run("shared-annotations-on-shift", lambda: (wrapped >> 1).annotations is wrapped.annotations)


def concatenation():
    record = CircularRecord(rich_record("ATGCATGCAT"))
    operands = ["", "ATG", Seq("ATG"), MutableSeq("AT"), SeqRecord(Seq("ATG"), id="x"), record, 5, None, ["A"]]
    for operand in operands:
        run(("add", repr(operand)), lambda: record + operand, record)
        run(("radd", repr(operand)), lambda: operand + record, record)

        def inplace():
            target = CircularRecord(Seq("ATGC"))
            target += operand
            return target

        run(("iadd", repr(operand)), inplace)
    run("add-name", lambda: (CircularRecord.__add__.__name__, CircularRecord.__radd__.__name__))
    run("add-doc", lambda: (CircularRecord.__add__.__doc__, CircularRecord.__radd__.__doc__))
    run("add-kw", lambda: record.__add__(other="A"))
    run("sum", lambda: sum([record, record]))


def slicing(rng):
    for text in ["", "A", "ATGC", "atGCatgcAT"]:
        for topology in [None, "circular"]:
            record = CircularRecord(rich_record(text, topology=topology))
            n = len(text)
            bounds = [None] + list(range(-n - 1, n + 2))
            for a, b in itertools.product(bounds, bounds):
                run(("slice", text, topology, a, b), lambda: record[a:b], record)
            for step in [2, -1, -2, 0]:
                run(("stride", text, topology, step), lambda: record[::step], record)
                run(("stride2", text, topology, step), lambda: record[1:-1:step], record)
            for index in list(range(-n - 1, n + 1)) + ["a", None, 1.5, (1, 2)]:
                run(("item", text, topology, repr(index)), lambda: record[index], record)
    record = CircularRecord(rich_record("ATGCATGCAT"))
    piece = record[0:6]
    piece.features[0].qualifiers["label"].append("edited")
    piece.annotations["molecule_type"] = "RNA"
    piece.letter_annotations["q"][0] = 99
    run("slice-edit", lambda: piece, record)
    run("slice-type", lambda: (type(piece).__name__, type(record[1]).__name__, type(record[:]).__name__))


def rotation_and_revcomp(rng):
    for text in ["ATGCATGCAT", "atgcNNgatc", "GAAGACTTATGCCACAATGCTTGTCTTC"]:
        record = CircularRecord(rich_record(text))
        for shift in [0, 1, 3, len(text) - 1, len(text), len(text) + 4, -1, -7, 5 * len(text)]:
            run(("rshift", text, shift), lambda: record >> shift, record)
            run(("lshift", text, shift), lambda: record << shift, record)
        run(("revcomp", text), lambda: record.reverse_complement(), record)
        run(
            ("revcomp-all", text),
            lambda: record.reverse_complement(
                id=True, name=True, description=True, annotations=True, dbxrefs=True
            ),
            record,
        )
        run(
            ("revcomp-str", text),
            lambda: record.reverse_complement(id="new", name="nn", description="dd", features=False),
            record,
        )
    run("empty-rshift", lambda: CircularRecord(Seq("")) >> 1)
    run("empty-lshift", lambda: CircularRecord(Seq("")) << 1)


def regex(rng):
    patterns = ["AA(NN)", "(GAAGAC)(NN)(NNNN)", "N", "ATG", "(A)(T)?", "GGTCTCN(NNNN)(N*)(NNNN)NGAGACC", "R(Y)K", "A*"]
    texts = ["ATGCAAGCAATA", "ATGCAGCATA", "atgcaagcaata", "AtGcAaGcAaTa", "", "A", "TTTT", "CATAGAAGACTTATGC"]
    texts += [random_text(rng, "ACGTacgt", 2, 14) for _ in range(6)]
    for pattern in patterns:
        regex = DNARegex(pattern)
        run(("pattern", pattern), lambda: (regex.pattern, regex.regex.pattern, regex.regex.flags))
        for text in texts:
            subjects = [
                ("seq", Seq(text)),
                ("record", SeqRecord(Seq(text), id="r")),
                ("circular", CircularRecord(Seq(text), id="c")),
            ]
            for kind, subject in subjects:
                for linear in [True, False]:
                    run(("search", pattern, text, kind, linear), lambda: regex.search(subject, linear=linear), subject)
            circular = CircularRecord(Seq(text), id="c")
            for pos, endpos in [(0, 3), (2, 100), (3, 2), (len(text), len(text) + 3)]:
                run(("search-pos", pattern, text, pos, endpos), lambda: regex.search(circular, pos, endpos), circular)
                run(
                    ("search-pos-seq", pattern, text, pos, endpos),
                    lambda: regex.search(Seq(text), pos=pos, endpos=endpos, linear=False),
                )
    regex = DNARegex("NN")
    for bad in ["ATGC", b"ATGC", None, 5, MutableSeq("ATGC"), ["A"]]:
        run(("search-bad", repr(bad)), lambda: regex.search(bad))
        run(("search-bad-circular", repr(bad)), lambda: regex.search(bad, linear=False))
    run("search-sig", lambda: regex.search(Seq("ATGC"), 0, 4, False))
    rich = CircularRecord(rich_record("GCAATAATGCAA"))
    run("search-rich", lambda: DNARegex("AA(NN)(N*)AT").search(rich), rich)
    run("search-rich-wrap", lambda: DNARegex("CAA(GC)(N*)AT").search(rich), rich)


class Vector(AbstractVector):
    cutter = BpiI


class Module(AbstractModule):
    cutter = BpiI


class BsaVector(AbstractVector):
    cutter = BsaI


class BsaModule(AbstractModule):
    cutter = BsaI


class BsmVector(AbstractVector):
    cutter = BsmBI


class BsmModule(AbstractModule):
    cutter = BsmBI


def annotate(record, label, cite=None):
    n = len(record.seq)
    qualifiers = {"label": [label]}
    if cite:
        qualifiers["citation"] = list(cite)
    record.features.append(SeqFeature(FeatureLocation(2, n - 2, 1), type="misc_feature", qualifiers=qualifiers))
    record.features.append(
        SeqFeature(
            CompoundLocation([FeatureLocation(n - 3, n, 1), FeatureLocation(0, 3, 1)]),
            type="misc_feature",
            qualifiers={"label": [label + "-origin"]},
        )
    )
    return record


def references(*titles):
    refs = []
    for title in titles:
        ref = Reference()
        ref.title = title
        ref.authors = "someone"
        refs.append(ref)
    return refs


def assemblies(rng):
    cases = {
        "vector": "CCATGCTTGTCTTCCACAGAAGACTTCGTAGG",
        "bad_vector": "CCATGCTTGTCTTCCACAGAAGACTTATGCGG",
        "mod_full": "GAAGACTTATGCTATACGTATTGTCTTC",
        "mod_a": "GAAGACTTATGCCACAGGTTTTGTCTTC",
        "mod_b": "GAAGACTTGGTTCTCTCGTATTGTCTTC",
        "mod_dup": "GAAGACTTATGCCACACGTATTGTCTTC",
        "mod_unused": "GAAGACTTAAAACACACCCCTTGTCTTC",
        "mod_missing": "GAAGACTTATGACACACGTATTGTCTTC",
        "mod_lower": "gaagacttatgctatacgtattgtcttc",
        "mod_mixed": "GAAGACttatgcTATAcgtaTTGTCTTC",
        "not_a_module": "ATGCATGCATGCATGCATGC",
        "illegal": "GAAGACTTATGCGAAGACTACGTATTGTCTTC",
    }

    def build(cls, name, shift=0, plain=False, cite=None, refs=None, topology=None):
        base = SeqRecord(Seq(cases[name]), id=name, name=name, description=name)
        annotate(base, name, cite)
        if refs is not None:
            base.annotations["references"] = refs
        if topology is not None:
            base.annotations["topology"] = topology
        record = CircularRecord(base)
        if shift:
            record = record >> shift
        if plain:
            record = SeqRecord(
                record.seq, record.id, record.name, record.description,
                features=record.features, annotations=record.annotations,
            )
        return cls(record)

    def assemble(vector_args, *module_args, **kwargs):
        entities = []

        def call():
            vector = build(Vector, **vector_args)
            entities.append(vector)
            modules = [build(Module, **args) for args in module_args]
            entities.extend(modules)
            result = vector.assemble(*modules, **kwargs)
            return (result, result << 3, "GTCTTC" in result, result[2:9])

        label = ("assemble", repr(vector_args), repr(module_args), repr(kwargs))
        COUNT[0] += 1
        with warnings.catch_warnings(record=True) as caught:
            warnings.simplefilter("always")
            try:
                outcome = ("ok", state(call()))
            except Exception as err:  # noqa
                outcome = ("exc", type(err).__name__, str(err), type(err).__mro__[1].__name__)
        warned = [(w.category.__name__, str(w.message)) for w in caught]
        LOG.append(repr((label, outcome, warned, [state(e.record) for e in entities])))

    shifts = [0, 1, 5, 13, 27, 31]
    for shift in shifts:
        assemble({"name": "vector", "shift": shift}, {"name": "mod_full"})
        assemble({"name": "vector"}, {"name": "mod_full", "shift": shift})
        assemble({"name": "vector", "shift": shift}, {"name": "mod_a", "shift": shift + 2}, {"name": "mod_b"})
        assemble({"name": "vector", "shift": shift}, {"name": "mod_b"}, {"name": "mod_a", "shift": 9})
    for plain in [False, True]:
        for topology in [None, "circular", "linear"]:
            assemble({"name": "vector", "plain": plain, "topology": topology}, {"name": "mod_full", "plain": plain, "topology": topology})
            assemble({"name": "vector", "shift": 30, "plain": plain, "topology": topology}, {"name": "mod_full", "shift": 25, "plain": plain, "topology": topology})
    assemble({"name": "vector"}, {"name": "mod_lower"})
    assemble({"name": "vector"}, {"name": "mod_mixed", "shift": 7})
    assemble({"name": "vector"}, {"name": "mod_full"}, id="custom", name="custom_name")
    assemble({"name": "bad_vector"}, {"name": "mod_full"})
    assemble({"name": "vector"}, {"name": "mod_full"}, {"name": "mod_dup"})
    assemble({"name": "vector"}, {"name": "mod_a"}, {"name": "mod_dup"})
    assemble({"name": "vector"}, {"name": "mod_full"}, {"name": "mod_unused"})
    assemble({"name": "vector"}, {"name": "mod_missing"})
    assemble({"name": "vector"}, {"name": "mod_a"})
    assemble({"name": "vector"}, {"name": "not_a_module"})
    assemble({"name": "vector"}, {"name": "illegal"})
    assemble({"name": "not_a_module"}, {"name": "mod_full"})
    # citations
    assemble(
        {"name": "vector", "cite": ["[1]"], "refs": references("v1")},
        {"name": "mod_a", "cite": ["[2]", "[1]"], "refs": references("a1", "a2")},
        {"name": "mod_b", "cite": ["[1]"], "refs": references("v1")},
    )
    assemble(
        {"name": "vector", "shift": 9, "cite": ["[1]"], "refs": references("v1", "v2")},
        {"name": "mod_full", "shift": 3, "cite": ["[2]"], "refs": references("m1", "m2")},
    )
    assemble({"name": "vector", "cite": ["nope"], "refs": references("v1")}, {"name": "mod_full"})
    assemble({"name": "vector"}, {"name": "mod_full", "cite": ["[3]"], "refs": references("m1")})
    assemble({"name": "vector", "cite": ["[1]"], "refs": references("v1")}, {"name": "mod_missing", "cite": ["[1]"], "refs": references("x")})

    # other enzymes, entity accessors
    others = [
        (BsaVector, BsaModule, "CCATGCTGAGACCCACAGGTCTCTCGTAGG", "GGTCTCTATGCTATACGTATGAGACC"),
        (BsmVector, BsmModule, "CCATGCTGAGACGCACACGTCTCTCGTAGG", "CGTCTCTATGCTATACGTATGAGACG"),
    ]
    for vcls, mcls, vtext, mtext in others:
        for shift in [0, 4, len(vtext) - 2]:
            vector = vcls(CircularRecord(annotate(SeqRecord(Seq(vtext), id="v"), "v")) >> shift)
            module = mcls(CircularRecord(annotate(SeqRecord(Seq(mtext), id="m"), "m")) >> (shift % len(mtext)))
            run(
                ("entity", vcls.__name__, shift),
                lambda: (
                    vector.is_valid(), module.is_valid(),
                    vector.overhang_start(), vector.overhang_end(),
                    module.overhang_start(), module.overhang_end(),
                    vector.placeholder_sequence(), vector.target_sequence(), module.target_sequence(),
                    vector.structure(), module.structure(),
                ),
                vector.record, module.record,
            )
            run(("assemble-other", vcls.__name__, shift), lambda: vector.assemble(module), vector.record, module.record)
    run("abstract-vector", lambda: AbstractVector(CircularRecord(Seq("ATGC"))))
    run("abstract-module", lambda: AbstractModule(CircularRecord(Seq("ATGC"))))
    invalid = Module(CircularRecord(Seq("ATGCATGC"), id="inv"))
    run("invalid", lambda: (invalid.is_valid(), invalid.is_valid()))
    run("invalid-overhang", lambda: invalid.overhang_start())
    run("invalid-target", lambda: invalid.target_sequence())


def kits():
    from moclo.kits import ytk
    from moclo.registry.ytk import YTKRegistry

    registry = YTKRegistry()
    names = sorted(registry)[:12]
    for name in names:
        item = registry[name]
        entity = item.entity
        run(
            ("ytk", name),
            lambda: (
                item.id, item.name, item.resistance, type(entity).__name__, entity.is_valid(),
                hashlib.sha1(repr(state(item.record)).encode()).hexdigest(),
                entity.overhang_start(), entity.overhang_end(),
                hashlib.sha1(repr(state(entity.target_sequence())).encode()).hexdigest(),
                "GGTCTC" in item.record, "ggtctc" in item.record, str(item.record.seq[-3:] + item.record.seq[:3]) in item.record,
            ),
        )
    vector = registry["pYTK089"].entity
    modules = [registry[x].entity for x in ("pYTK008", "pYTK047", "pYTK073", "pYTK074", "pYTK086", "pYTK092")]
    run(
        "ytk-assembly",
        lambda: hashlib.sha1(repr(state(vector.assemble(*modules))).encode()).hexdigest(),
    )
    run("ytk-assembly-missing", lambda: vector.assemble(modules[0], modules[2]))
    run("ytk-characterize", lambda: type(ytk.YTKPart.characterize(registry["pYTK047"].record)).__name__)


def main():
    rng = random.Random(1515)
    membership(rng)
    construction(rng)
    concatenation()
    slicing(rng)
    rotation_and_revcomp(rng)
    regex(rng)
    assemblies(rng)
    kits()
    text = re.sub(r" at 0x[0-9a-fA-F]+", " at 0x?", "\n".join(LOG))
    digest = hashlib.sha256(text.encode("utf-8")).hexdigest()
    if "--dump" in sys.argv:
        print(text)
    failures = sum(1 for line in LOG if "('exc'," in line)
    print("%d calls, %d raised, digest %s" % (COUNT[0], failures, digest))


if __name__ == "__main__":
    main()
