# coding: utf-8
"""Differential test for the rewrite of ``moclo.core.parts.AbstractPart``.

Digests ``structure()`` of many generated part classes (all usable Type IIS
cutters, module and vector flavours, odd signatures) and the outcome of
``characterize()`` on generated and on registry records, for user-defined
class hierarchies as well as for the parts of the official kits.
"""
import hashlib
import random
import re
import sys
import warnings

sys.path.insert(0, "/tmp/agentsR4/R18")
warnings.simplefilter("ignore")
import tests  # noqa: E402,F401

from Bio import Restriction  # noqa: E402
from Bio.Seq import Seq  # noqa: E402
from Bio.SeqRecord import SeqRecord  # noqa: E402

from moclo.record import CircularRecord  # noqa: E402
from moclo.core.parts import AbstractPart  # noqa: E402
from moclo.core.modules import AbstractModule, Entry, Product, Cassette  # noqa: E402
from moclo.core.vectors import AbstractVector, EntryVector, CassetteVector  # noqa: E402
from moclo.core._structured import StructuredRecord  # noqa: E402

rng = random.Random(1804)

# Every generated class is kept alive: ``__subclasses__()`` only lists the
# classes that have not been garbage collected yet, and the moment at which
# the cyclic collector runs is not part of the behaviour under test.
KEEP = []


def new_class(name, bases, attrs):
    cls = type(str(name), bases, attrs)
    KEEP.append(cls)
    return cls



def attempt(fn):
    try:
        return ("ok", fn())
    except Exception as exc:  # noqa: B902
        return ("err", type(exc).__name__, str(exc))


def dna(n, alphabet="ACGT"):
    return "".join(rng.choice(alphabet) for _ in range(n))


def dump_entity(entity):
    return (
        type(entity).__name__,
        [c.__name__ for c in type(entity).__mro__[:4]],
        entity.record.id,
        attempt(lambda: str(entity.overhang_start())),
        attempt(lambda: str(entity.overhang_end())),
        attempt(lambda: str(entity.target_sequence().seq)),
    )


results = []

# 1. structure() over every non-ambiguous Type IIS-like enzyme -----------------------
CUTTERS = []
for name in sorted(Restriction.AllEnzymes.elements()):
    enz = getattr(Restriction, name)
    if attempt(lambda: enz.is_blunt() or enz.is_unknown() or enz.is_ambiguous() is None)[0] == "err":
        continue
    CUTTERS.append(enz)

SIGNATURES = [
    ("ATGC", "ATTC"),
    ("aacg", "GCTT"),
    ("NNNN", "RYKM"),
    ("", ""),
    ["AAT", "GGC"],
    ("A|C", "(T)"),
    (1, 2.5),
    (None, Seq("ACGT")),
    NotImplemented,
    ("ATGC",),
    ("A", "C", "G"),
    "AT",
    "ATGC",
    None,
    42,
]

structured = 0
for enz in CUTTERS:
    for sig in rng.sample(SIGNATURES[:6], 2) + rng.sample(SIGNATURES[6:], 2):
        for base in (Entry, EntryVector, Product, CassetteVector, None, StructuredRecord):
            bases = (AbstractPart,) if base is None else (AbstractPart, base)
            attrs = {"cutter": enz, "signature": sig}

            def build():
                part_cls = new_class("Part", bases, attrs)
                return part_cls.structure()

            res = attempt(build)
            structured += res[0] == "ok"
            results.append((enz.__name__, repr(sig), getattr(base, "__name__", None), res))

# cutter not declared, part with signature only, inherited signature
results.append(attempt(lambda: new_class("NoCutter", (AbstractPart, Entry), {"signature": ("AAAA", "CCCC")}).structure()))
results.append(attempt(lambda: new_class("NoCutter", (AbstractPart, Entry), {"signature": ("AAAA", "CCCC")})(None)))
results.append(attempt(lambda: new_class("NoSig", (AbstractPart, Entry), {"cutter": Restriction.BsaI}).structure()))
results.append(attempt(lambda: AbstractPart.structure()))


# 2. characterize() over user-defined hierarchies ---------------------------------------
def hierarchy(cutter, sigs, vector_sigs, concrete_base):
    """A base part with module subclasses (one per signature) and vector ones."""
    attrs = {"cutter": cutter}
    if concrete_base:
        attrs["signature"] = sigs[0]
    base = new_class("BasePart", (AbstractPart,), attrs)
    if concrete_base:
        base = new_class("BaseEntry", (base, Entry), {})
    subs = []
    for i, sig in enumerate(sigs[1 if concrete_base else 0:]):
        subs.append(new_class("Mod{}".format(i), (base,) if concrete_base else (base, Entry), {"signature": sig}))
    for i, sig in enumerate(vector_sigs):
        if not concrete_base:
            subs.append(new_class("Vec{}".format(i), (base, EntryVector), {"signature": sig}))
    return base, subs


def planted_record(cutter, up, down, kind, idx):
    site = cutter.site
    etis = str(Seq(site).reverse_complement())
    gap = dna(cutter.fst5 - len(site), "AT")
    body = dna(rng.randint(0, 14), "AT")
    pad = dna(rng.randint(0, 9), "AT")
    if kind == "module":
        text = site + gap + up + body + down + gap + etis + pad
    else:
        text = up + gap + etis + body + site + gap + down + pad
    style = rng.random()
    if style < 0.3:
        text = text.lower()
    elif style < 0.45:
        text = "".join(c.lower() if rng.random() < 0.5 else c for c in text)
    k = rng.randint(0, len(text))
    text = text[k:] + text[:k]
    topo = rng.choice(["circular", "linear", None])
    if topo is None:
        rec = SeqRecord(Seq(text), id="rec{}".format(idx))
    elif topo == "linear":
        rec = SeqRecord(Seq(text), id="rec{}".format(idx), annotations={"topology": "linear"})
    else:
        rec = CircularRecord(Seq(text), id="rec{}".format(idx))
    return rec


idx = 0
for cutter in (Restriction.BsaI, Restriction.BpiI, Restriction.BsmBI, Restriction.SapI):
    n = abs(cutter.ovhg)
    for concrete_base in (False, True):
        for _ in range(6):
            pool = []
            while len(pool) < 6:
                o = dna(n)
                if o not in pool:
                    pool.append(o)
            sigs = [(pool[0], pool[1]), (pool[1], pool[2]), (pool[0], pool[2]), (pool[0], pool[1])]
            vsigs = [(pool[2], pool[0]), (pool[3], pool[4])]
            base, subs = hierarchy(cutter, sigs, vsigs, concrete_base)
            results.append((base.__name__, [s.__name__ for s in base.__subclasses__()]))
            for _ in range(14):
                idx += 1
                a, b = rng.sample(range(6), 2)
                if rng.random() < 0.6:
                    a, b = rng.choice(sigs + [(v[1], v[0]) for v in vsigs])
                else:
                    a, b = pool[a], pool[b]
                rec = planted_record(cutter, a, b, rng.choice(["module", "module", "vector"]), idx)
                results.append((cutter.__name__, concrete_base, str(rec.seq),
                                attempt(lambda: dump_entity(base.characterize(rec)))))
                if subs:
                    sub = rng.choice(subs)
                    results.append(attempt(lambda: dump_entity(sub.characterize(rec))))
            results.append(attempt(lambda: base.characterize(None)))
            results.append(attempt(lambda: base.characterize("ATGC")))

# a hierarchy whose first candidate cannot be instantiated / is incomplete
Broken = new_class("BrokenBase", (AbstractPart,), {"cutter": Restriction.BsaI})
new_class("Unsigned", (Broken, Entry), {})
new_class("Signed", (Broken, Entry), {"signature": ("AAAA", "CCCC")})
rec = CircularRecord(Seq("GGTCTCAAAAATTTTCCCCTGAGACCAT"), id="brk")
results.append(attempt(lambda: dump_entity(Broken.characterize(rec))))
Blunt = new_class("BluntBase", (AbstractPart,), {"cutter": Restriction.BsaI})
new_class("BluntSub", (Blunt, Entry), {"cutter": Restriction.SmaI, "signature": ("AAAA", "CCCC")})
results.append(attempt(lambda: dump_entity(Blunt.characterize(rec))))
Leaf = new_class("Leaf", (AbstractPart, Entry), {"cutter": Restriction.BsaI, "signature": ("AAAA", "CCCC")})
results.append(attempt(lambda: dump_entity(Leaf.characterize(rec))))
results.append(attempt(lambda: dump_entity(Leaf.characterize(rec >> 11))))
results.append(attempt(lambda: dump_entity(Leaf.characterize(rec.reverse_complement()))))
results.append(attempt(lambda: dump_entity(AbstractPart.characterize(rec))))

# 3. parts of the official kits, on registry records --------------------------------------
import moclo.kits.ytk as ytk  # noqa: E402
import moclo.kits.cidar as cidar  # noqa: E402
import moclo.kits.ecoflex as ecoflex  # noqa: E402
import moclo.registry.ytk  # noqa: E402
import moclo.registry.cidar  # noqa: E402
import moclo.registry.ecoflex  # noqa: E402

KITS = [
    (ytk.YTKPart, moclo.registry.ytk.YTKRegistry),
    (cidar.CIDARPart, moclo.registry.cidar.CIDARRegistry),
    (ecoflex.EcoFlexPart, moclo.registry.ecoflex.EcoFlexRegistry),
]
for base, registry_cls in KITS:
    for sub in base.__subclasses__():
        results.append((sub.__name__, attempt(sub.structure)))
    registry = registry_cls()
    keys = sorted(registry)
    for key in keys[:: max(1, len(keys) // 40)]:
        record = registry[key].entity.record
        results.append((key, attempt(lambda: dump_entity(base.characterize(record)))))
        other = KITS[(KITS.index((base, registry_cls)) + 1) % len(KITS)][0]
        results.append((key, other.__name__, attempt(lambda: dump_entity(other.characterize(record)))))

blob = re.sub(r" at 0x[0-9a-fA-F]+", " at 0x?", repr(results)).encode("utf-8")
print(len(results), structured, hashlib.sha256(blob).hexdigest())
