# Differential test for R8_1: find_resistance / EmbeddedRegistry._load_resistance
import sys
sys.path.insert(0, "/tmp/agentsR/R8")
import tests  # noqa: F401  (splices the kit packages into the moclo namespace)

import hashlib
import io
import os
import random

import fs
from Bio.Seq import Seq
from Bio.SeqFeature import SeqFeature, FeatureLocation
from Bio.SeqIO import write
from Bio.SeqRecord import SeqRecord

from moclo.record import CircularRecord
from moclo.registry import base, _utils
from moclo.registry._utils import find_resistance
from moclo.kits import ytk


def ensure(kit, *archives):
    from tests._utils import build_registries
    root = "/tmp/agentsR/R8/moclo-{0}/moclo/registry".format(kit)
    if not all(os.path.exists(os.path.join(root, a)) for a in archives):
        build_registries(kit)


def outcome(func, *args):
    try:
        return ("ok", repr(func(*args)))
    except BaseException as err:  # noqa
        return (
            "err",
            type(err).__name__,
            str(err),
            type(err.__cause__).__name__,
            type(err.__context__).__name__,
            err.__suppress_context__,
        )


LABELS = list(_utils._ANTIBIOTICS) + [
    "kanr", "KANR", "AmpR ", "ampR", "CmR promoter", "ori", "GFP", "", "SpecR2", "Kan", "R",
]


def random_record(rng, index):
    length = rng.randint(20, 200)
    seq = "".join(rng.choice("ATGCatgc") for _ in range(length))
    rec = SeqRecord(Seq(seq), id="rec{}".format(index), name="n{}".format(index))
    rec.annotations["molecule_type"] = "DNA"
    for _ in range(rng.choice([0, 0, 1, 2, 3, 5, 8])):
        start = rng.randrange(length)
        end = rng.randint(start, length)
        qualifiers = {}
        mode = rng.random()
        if mode < 0.15:
            pass  # no label qualifier at all
        elif mode < 0.25:
            qualifiers["label"] = []
        elif mode < 0.32:
            qualifiers["label"] = rng.choice(LABELS)  # a bare string, not a list
        else:
            count = rng.choice([1, 1, 1, 2, 2, 3, 4])
            qualifiers["label"] = [rng.choice(LABELS) for _ in range(count)]
        if rng.random() < 0.3:
            qualifiers["note"] = [rng.choice(LABELS)]
        rec.features.append(
            SeqFeature(FeatureLocation(start, end, rng.choice([1, -1])), type="misc_feature", qualifiers=qualifiers)
        )
    return rec


class Bare(object):
    """Something that is not a record at all."""


class DummyRegistry(base.EmbeddedRegistry):
    _module = "moclo.registry.ytk"
    _file = "ytk.tar.gz"

    def _load_entity(self, record):
        return None


def main():
    ensure("ytk", "ytk.tar.gz", "ptk.tar.gz")
    ensure("cidar", "cidar.tar.gz")
    rng = random.Random(8001)
    results = []
    registry = DummyRegistry()

    records = [random_record(rng, i) for i in range(700)]
    # hand-written edge cases
    dup = random_record(rng, 9000)
    dup.features[:] = [
        SeqFeature(FeatureLocation(0, 5, 1), type="CDS", qualifiers={"label": ["KanR", "KanR"]}),
        SeqFeature(FeatureLocation(0, 5, 1), type="CDS", qualifiers={"label": ["AmpR", "CmR"]}),
    ]
    multi = random_record(rng, 9001)
    multi.features[:] = [
        SeqFeature(FeatureLocation(0, 5, 1), type="CDS", qualifiers={"label": ["ori"]}),
        SeqFeature(FeatureLocation(0, 5, 1), type="CDS", qualifiers={"label": ["CmR", "CamR"]}),
        SeqFeature(FeatureLocation(0, 5, 1), type="CDS", qualifiers={"label": ["AmpR"]}),
    ]
    empty = random_record(rng, 9002)
    empty.features[:] = []
    records += [dup, multi, empty]

    for rec in records:
        for wrap in (lambda r: r, CircularRecord):
            target = wrap(rec)
            results.append(outcome(find_resistance, target))
            results.append(outcome(registry._load_resistance, target))
    for bad in (Bare(), None, 42):
        results.append(outcome(find_resistance, bad))
        results.append(outcome(registry._load_resistance, bad))

    # the embedded registries
    from moclo.registry.ytk import YTKRegistry, PTKRegistry
    from moclo.registry.cidar import CIDARRegistry
    for factory in (YTKRegistry, PTKRegistry, CIDARRegistry):
        reg = factory()
        for key in sorted(reg):
            item = reg[key]
            results.append((key, item.resistance, item.name))
            results.append(outcome(find_resistance, item.record))

    # filesystem registry: uses find_resistance without the wrapper
    memfs = fs.open_fs("mem://")
    reg = YTKRegistry()
    names = sorted(reg)[:25]
    for key in names:
        buff = io.StringIO()
        write([reg[key].entity.record], buff, "genbank")
        with memfs.open(key + ".gb", "w") as f:
            f.write(buff.getvalue())
    # records that have no resistance / several ones, written as genbank files
    for idx, rec in enumerate(records[:120]):
        rec = rec[:]
        rec.seq = Seq(str(rec.seq).upper())
        rec.annotations["molecule_type"] = "DNA"
        rec.features = [f for f in rec.features if isinstance(f.qualifiers.get("label", []), list)]
        buff = io.StringIO()
        write([rec], buff, "genbank")
        with memfs.open("syn{}.gbk".format(idx), "w") as f:
            f.write(buff.getvalue())
    fsreg = base.FilesystemRegistry(memfs, ytk.YTKPart)

    def get(key):
        item = fsreg[key]
        return (item.id, item.name, type(item.entity).__name__, item.resistance)

    for key in names + ["syn{}".format(i) for i in range(120)] + ["missing"]:
        results.append(outcome(get, key))
    memfs.close()

    print(len(results), hashlib.sha256(repr(results).encode("utf-8")).hexdigest())


main()
