# coding: utf-8
"""Differential test for the C02 refactorings.

Exercises DNARegex / SeqMatch, CircularRecord (rotation, slicing, `in`,
reverse complement, constructor), the typed records (modules, vectors, parts,
kit classes) and the assembly manager on a few hundred generated inputs, and
prints a digest of every result, exception (type and message), warning and of
the state of the inputs afterwards.  The digest must be identical on the
pristine tree and on a behaviour-preserving refactoring.

Run as:  cd /tmp/agents5/C02 && /venv/bin/python pairs_out/C02_p2/equiv.py [-v]
"""
import copy
import hashlib
import random
import re
import sys
import warnings

sys.path.insert(0, "/tmp/agents5/C02")
with warnings.catch_warnings():
    warnings.simplefilter("ignore")
    import tests  # noqa: F401  (splices the kit packages into the moclo namespace)

    from Bio.Seq import Seq
    from Bio.SeqRecord import SeqRecord
    from Bio.SeqFeature import (
        SeqFeature, FeatureLocation, CompoundLocation, Reference,
        BeforePosition, AfterPosition,
    )
    from Bio.Restriction import BsaI, BsmBI, BpiI, SapI, AarI

    from moclo.regex import DNARegex, SeqMatch
    from moclo.record import CircularRecord
    from moclo.core import (
        AbstractPart, Entry, EntryVector, Product, Cassette, CassetteVector,
    )
    from moclo.kits import ytk, cidar, ecoflex
    from moclo.kits import moclo as moclo_kit

VERBOSE = "-v" in sys.argv
LINES = []
ADDRESS = re.compile(r"0x[0-9a-fA-F]+")


def emit(*parts):
    line = ADDRESS.sub("0x?", " | ".join(str(p) for p in parts))
    LINES.append(line)
    if VERBOSE:
        print(line)


# -- dumping ------------------------------------------------------------------


def dump_location(loc):
    if loc is None:
        return "None"
    parts = [
        "{}:{!r}..{!r}({}){}{}".format(
            type(p).__name__, p.start, p.end, p.strand,
            "" if p.ref is None else "@" + str(p.ref),
            "" if p.ref_db is None else "@@" + str(p.ref_db),
        )
        for p in loc.parts
    ]
    op = getattr(loc, "operator", "")
    return "{}[{}]{{{}}}".format(type(loc).__name__, op, ",".join(parts))


def dump_value(value):
    if isinstance(value, Reference):
        return "Ref<{}|{}|{}>".format(
            value.title, value.authors, ",".join(dump_location(l) for l in value.location)
        )
    if isinstance(value, (list, tuple)):
        return "[" + ", ".join(dump_value(v) for v in value) + "]"
    if isinstance(value, dict):
        return "{" + ", ".join(
            "{}: {}".format(k, dump_value(value[k])) for k in sorted(value)
        ) + "}"
    return "{}:{!r}".format(type(value).__name__, value)


def dump_record(rec):
    if rec is None:
        return "None"
    if isinstance(rec, Seq):
        return "Seq<{}>".format(str(rec))
    if not isinstance(rec, SeqRecord):
        return dump_value(rec)
    feats = [
        "({}|{}|{}|{})".format(
            f.type, dump_location(f.location), f.id, dump_value(dict(f.qualifiers))
        )
        for f in rec.features
    ]
    return "{}<{}|id={}|name={}|desc={}|dbx={}|ann={}|let={}|feats={}>".format(
        type(rec).__name__, str(rec.seq), rec.id, rec.name, rec.description,
        dump_value(list(rec.dbxrefs)), dump_value(dict(rec.annotations)),
        dump_value(dict(rec.letter_annotations)), "".join(feats),
    )


def attempt(label, func, *args, **kwargs):
    """Run func, emit its outcome (result dump / exception / warnings)."""
    with warnings.catch_warnings(record=True) as caught:
        warnings.simplefilter("always")
        try:
            result = func(*args, **kwargs)
            outcome = "ok", result
        except Exception as err:  # noqa
            outcome = "raised", "{}: {}".format(type(err).__name__, err)
            result = None
    shown = outcome[1]
    if outcome[0] == "ok":
        if isinstance(shown, (SeqRecord, Seq)):
            shown = dump_record(shown)
        elif isinstance(shown, SeqMatch):
            shown = dump_match(shown)
        else:
            shown = dump_value(shown)
    emit(label, outcome[0], shown)
    for w in caught:
        if w.category.__module__.startswith(("moclo", "Bio")):
            emit(label, "warning", w.category.__name__, str(w.message))
    return result


def dump_match(match):
    if match is None:
        return "None"
    out = ["start={} end={}".format(match.start(), match.end())]
    for index in range(match.match.re.groups + 1):
        out.append("span{}={}".format(index, match.span(index)))
        out.append("group{}={}".format(index, dump_record(match.group(index))))
    out.append("rec is input: {}".format(type(match.rec).__name__))
    return " ".join(out)


# -- generators -----------------------------------------------------------------

COMPLEMENT = {"A": "T", "C": "G", "G": "C", "T": "A"}


def revcomp(text):
    return "".join(COMPLEMENT[c] for c in reversed(text.upper()))


ENZYMES = {
    "BsaI": (BsaI, "GGTCTC", 1, 4),
    "BsmBI": (BsmBI, "CGTCTC", 1, 4),
    "BpiI": (BpiI, "GAAGAC", 2, 4),
    "SapI": (SapI, "GCTCTTC", 1, 3),
    "AarI": (AarI, "CACCTGC", 4, 4),
}
ALL_SITES = [spec[1] for spec in ENZYMES.values()]
ALL_SITES += [revcomp(site) for site in ALL_SITES]


def dna(rng, size):
    while True:
        text = "".join(rng.choice("ACGT") for _ in range(size))
        if not any(site in text for site in ALL_SITES):
            return text


def count_circular(text, word):
    doubled = (text + text[: len(word) - 1]).upper()
    return sum(1 for i in range(len(text)) if doubled.startswith(word, i))


def only_sites(text, site):
    wanted = (site, revcomp(site))
    return all(count_circular(text, s) == (1 if s in wanted else 0) for s in ALL_SITES)


def module_text(rng, enzyme, up, down, target_size, backbone_size):
    _, site, gap, _ = ENZYMES[enzyme]
    while True:
        text = "".join(
            [site, dna(rng, gap), up, dna(rng, target_size), down, dna(rng, gap),
             revcomp(site), dna(rng, backbone_size)]
        )
        if only_sites(text, site):
            return text


def vector_text(rng, enzyme, ovhg_end, ovhg_start, dropout_size, backbone_size):
    _, site, gap, _ = ENZYMES[enzyme]
    while True:
        text = "".join(
            [dna(rng, 1), ovhg_end, dna(rng, gap), revcomp(site),
             dna(rng, dropout_size), site, dna(rng, gap), ovhg_start, dna(rng, 1),
             dna(rng, backbone_size)]
        )
        if only_sites(text, site):
            return text


def overhangs(rng, count, size):
    chosen = []
    while len(chosen) < count:
        cand = "".join(rng.choice("ACGT") for _ in range(size))
        if cand == revcomp(cand) or any(cand in (c, revcomp(c)) for c in chosen):
            continue
        chosen.append(cand)
    return chosen


def mixed_case(rng, text):
    return "".join(c.lower() if rng.random() < 0.4 else c for c in text)


def rotate_text(text, k):
    k %= len(text)
    return text[-k:] + text[:-k] if k else text


def make_classes(enzyme):
    cutter = ENZYMES[enzyme][0]
    mod = type(str("Eq{}Entry".format(enzyme)), (Entry,), {"cutter": cutter})
    prod = type(str("Eq{}Product".format(enzyme)), (Product,), {"cutter": cutter})
    vec = type(str("Eq{}Vector".format(enzyme)), (EntryVector,), {"cutter": cutter})
    return mod, prod, vec


def decorate(rng, record, references=2, citing=True):
    """Give a record features (simple, compound, wrapping, whole-length source,
    fuzzy), citations, dbxrefs and letter annotations."""
    n = len(record.seq)
    refs = []
    for i in range(references):
        ref = Reference()
        ref.title = "{} paper {}".format(record.id, i)
        ref.authors = "A{}".format(i)
        ref.location = [FeatureLocation(0, n)]
        refs.append(ref)
    if refs:
        record.annotations["references"] = refs
    record.annotations["molecule_type"] = "DNA"
    record.dbxrefs = ["DB:{}".format(record.id)]
    feats = []
    feats.append(SeqFeature(FeatureLocation(0, n, 1), type="source",
                            qualifiers={"organism": ["synthetic"]}))
    for i in range(rng.randrange(2, 6)):
        a = rng.randrange(0, n - 1)
        b = rng.randrange(a + 1, n + 1)
        quals = {"label": ["f{}".format(i)]}
        if citing and refs and rng.random() < 0.6:
            quals["citation"] = ["[{}]".format(rng.randrange(1, len(refs) + 1))]
        feats.append(SeqFeature(FeatureLocation(a, b, rng.choice([1, -1, None])),
                                type=rng.choice(["CDS", "misc_feature", "promoter"]),
                                id="feat{}".format(i), qualifiers=quals))
    a = rng.randrange(1, n // 2)
    b = rng.randrange(n // 2, n - 1)
    feats.append(SeqFeature(
        CompoundLocation([FeatureLocation(b, n, 1), FeatureLocation(0, a, 1)]),
        type="misc_feature", qualifiers={"label": ["wrapping"]}))
    feats.append(SeqFeature(
        FeatureLocation(BeforePosition(a), AfterPosition(b), -1),
        type="misc_feature", qualifiers={"label": ["fuzzy"]}))
    feats.append(SeqFeature(
        CompoundLocation([FeatureLocation(0, a, 1), FeatureLocation(b, n, 1)], "order"),
        type="source", qualifiers={"label": ["two-part source"]}))
    record.features = feats
    record.letter_annotations["phred_quality"] = [rng.randrange(40) for _ in range(n)]
    return record


# -- sections -------------------------------------------------------------------


def section_regex(rng):
    patterns = ["AA(NN)", "GGTCTCN(NNNN)(NN*N)(NNNN)NGAGACC", "(R)(Y)N*?(S)(W)",
                "(A)(C)?(G)", "ACGT", "(NNNN)(N*)(NNNN)", "B(D)H(K)M", "(V)N*(TT)"]
    for pattern in patterns:
        rx = attempt("regex " + pattern, DNARegex, pattern)
        emit("transcribed", pattern, rx.regex.pattern, rx.regex.flags, rx.pattern)
        for case in range(7):
            size = rng.randrange(4, 40)
            text = "".join(rng.choice("ACGT") for _ in range(size))
            if case % 3 == 0:
                text = mixed_case(rng, text)
            if pattern.startswith("GGTCTC"):
                text = rotate_text(
                    module_text(rng, "BsaI", "ACGT", "TTAC", rng.randrange(2, 9), rng.randrange(0, 9)),
                    rng.randrange(0, 40))
                if case == 4:
                    text = text.lower()
            inputs = [
                ("Seq", Seq(text)),
                ("SeqRecord", SeqRecord(Seq(text), id="lin")),
                ("CircularRecord", decorate(rng, CircularRecord(Seq(text), id="circ"), 0)),
            ]
            for kind, obj in inputs:
                for kwargs in ({}, {"linear": False}, {"linear": True},
                               {"pos": rng.randrange(0, size + 2)},
                               {"endpos": rng.randrange(0, size + 2), "linear": False},
                               {"pos": 2, "endpos": size - 1, "linear": False}):
                    label = "search {} {} {} {}".format(pattern, kind, text, sorted(kwargs.items()))
                    before = dump_record(obj)
                    attempt(label, rx.search, obj, **kwargs)
                    if dump_record(obj) != before:
                        emit(label, "INPUT MUTATED")
    rx = DNARegex("AA(NN)")
    for bad in ("ATGC", None, 12, ["A"], b"ACGT"):
        attempt("search bad type {!r}".format(bad), rx.search, bad)
        attempt("search bad type circular {!r}".format(bad), rx.search, bad, linear=False)
    # SeqMatch used on its own, all relative positions of a span and the end
    base = "ACGTTGCAAT"
    for obj in (Seq(base), SeqRecord(Seq(base), id="x"), CircularRecord(Seq(base), id="c")):
        for start in range(0, 20):
            for width in (0, 1, 3, 10):
                m = re.compile("(?:.{%d})(.{%d})" % (start, width)).match(base * 3)
                sm = SeqMatch(m, obj)
                emit("seqmatch", type(obj).__name__, start, width, sm.start(), sm.end(),
                     sm.span(), sm.span(1), dump_record(sm.group(1)), sm.shift)
    m = re.compile("(A)(X)?").match("A")
    emit("seqmatch unmatched group", dump_record(SeqMatch(m, Seq("ACGT")).group(2)))


def section_record(rng):
    for case in range(14):
        n = rng.randrange(6, 40)
        text = "".join(rng.choice("ACGT") for _ in range(n))
        rec = decorate(rng, CircularRecord(Seq(text), id="rec{}".format(case),
                                           name="nm", description="ds"))
        if case % 4 == 0:
            rec.features.append(SeqFeature(None, type="ghost"))
        if case % 5 == 0:
            rec.annotations["topology"] = "circular"
        before = dump_record(rec)
        shifts = [0, 1, 2, n - 1, n, n + 1, 2 * n, 3 * n + 2, -1, -n, -n - 3,
                  rng.randrange(n), rng.randrange(n)]
        for k in shifts:
            out = attempt("rshift {} {}".format(case, k), lambda: rec >> k)
            emit("rshift same object", out is rec,
                 out is not None and out.annotations is rec.annotations,
                 out is not None and out.dbxrefs is rec.dbxrefs,
                 out is not None and len(out.features) and
                 out.features[-1].qualifiers is rec.features[-1].qualifiers)
            out = attempt("lshift {} {}".format(case, k), lambda: rec << k)
            emit("lshift same object", out is rec)
        attempt("double shift", lambda: (rec >> 3) >> (n - 3))
        attempt("there and back", lambda: (rec >> 5) << 5)
        for sl in (slice(0, n), slice(2, 5), slice(None, 3), slice(n - 2, None),
                   slice(None, None, 2), slice(4, 2), slice(-3, None), 0, n - 1, -1):
            out = attempt("getitem {} {}".format(case, sl), lambda: rec[sl])
            if isinstance(out, SeqRecord):
                emit("getitem copies", out.annotations is rec.annotations,
                     out.dbxrefs is rec.dbxrefs)
        attempt("getitem out of range", lambda: rec[n + 3])
        for word in (text[:3], text[-2:] + text[:2], text + text[:1], "", text, "ZZ",
                     text[-1] + text[:-1], text.lower()[:2]):
            attempt("contains {} {}".format(case, word), lambda: word in rec)
        attempt("revcomp", rec.reverse_complement)
        attempt("revcomp keep", lambda: rec.reverse_complement(id=True, name=True,
                description=True, annotations=True, dbxrefs=True))
        attempt("add", lambda: rec + rec)
        attempt("radd", lambda: "ACGT" + rec)
        attempt("add seq", lambda: rec + Seq("A"))
        attempt("from record", CircularRecord, rec)
        attempt("from seqrecord", lambda: CircularRecord(rec[:]))
        emit("input unchanged", dump_record(rec) == before)
    lin = SeqRecord(Seq("ACGTACGT"), id="lin", annotations={"topology": "linear"})
    attempt("linear rejected", CircularRecord, lin)
    attempt("linear kw rejected", lambda: CircularRecord(Seq("ACGT"), annotations={"topology": "Linear"}))
    attempt("circular accepted", lambda: CircularRecord(Seq("ACGT"), annotations={"topology": "CIRCULAR"}))
    circ = SeqRecord(Seq("ACGTACGT"), id="c", annotations={"topology": "circular"})
    out = attempt("slice resets topology", lambda: CircularRecord(circ)[2:6])
    attempt("plain", lambda: CircularRecord(Seq("ACGT")))
    attempt("positional", lambda: CircularRecord(Seq("ACGT"), "i", "n", "d", ["x"], [], {"a": 1}, {}))


def observe(label, cls, record):
    before = dump_record(record)
    entity = attempt(label + " new", cls, record)
    if entity is None:
        return
    emit(label, "record kept", entity.record is record, entity.seq is record.seq)
    attempt(label + " is_valid", entity.is_valid)
    attempt(label + " overhang_start", entity.overhang_start)
    attempt(label + " overhang_end", entity.overhang_end)
    attempt(label + " target", entity.target_sequence)
    attempt(label + " target again", entity.target_sequence)
    if hasattr(entity, "placeholder_sequence"):
        attempt(label + " placeholder", entity.placeholder_sequence)
    attempt(label + " match", lambda: entity._match)
    if dump_record(record) != before:
        emit(label, "INPUT MUTATED")


def boundary_rotations(rng, n, flank):
    ks = set(range(0, min(n, flank)))
    ks.update(range(max(0, n - flank), n))
    ks.update(rng.randrange(n) for _ in range(6))
    return sorted(ks)


def section_typing(rng):
    for enzyme in sorted(ENZYMES):
        mod_cls, prod_cls, vec_cls = make_classes(enzyme)
        emit("structure", enzyme, mod_cls.structure(), vec_cls.structure())
        size = ENZYMES[enzyme][3]
        a, b = overhangs(rng, 2, size)
        mtext = module_text(rng, enzyme, a, b, rng.randrange(2, 12), rng.randrange(3, 15))
        vtext = vector_text(rng, enzyme, a, b, rng.randrange(0, 10), rng.randrange(3, 15))
        for kind, cls, text in (("mod", mod_cls, mtext), ("prod", prod_cls, mtext),
                                ("vec", vec_cls, vtext), ("mod-on-vec", mod_cls, vtext)):
            base = decorate(rng, CircularRecord(Seq(text), id="{}{}".format(enzyme, kind)))
            every = kind in ("mod", "vec") and enzyme in ("BsaI", "BpiI")
            ks = range(len(text)) if every else boundary_rotations(rng, len(text), 6)
            for k in ks:
                observe("typing {} {} >>{}".format(enzyme, kind, k), cls, base >> k)
        # letter case, plain records, topologies
        for k in boundary_rotations(rng, len(mtext), 3):
            rotated = rotate_text(mtext, k)
            observe("case {} {}".format(enzyme, k), mod_cls,
                    CircularRecord(Seq(mixed_case(rng, rotated)), id="mc"))
            observe("lower {} {}".format(enzyme, k), vec_cls,
                    CircularRecord(Seq(rotate_text(vtext, k).lower()), id="lc"))
            for topology in (None, "circular", "Circular", "linear", "LINEAR", "weird"):
                ann = {} if topology is None else {"topology": topology}
                rec = SeqRecord(Seq(rotated), id="plain", annotations=ann)
                observe("plain {} {} {}".format(enzyme, k, topology), mod_cls, rec)
                rec = SeqRecord(Seq(rotate_text(vtext, k)), id="plainv", annotations=dict(ann))
                observe("plainv {} {} {}".format(enzyme, k, topology), vec_cls, rec)
        # illegal internal site, no site, half a structure
        site = ENZYMES[enzyme][1]
        inner = mtext[: len(site) + 8] + site + mtext[len(site) + 8:]
        for k in (0, 3, len(inner) - 2):
            observe("illegal {} {}".format(enzyme, k), mod_cls,
                    CircularRecord(Seq(rotate_text(inner, k)), id="ill"))
        observe("nosite " + enzyme, mod_cls, CircularRecord(Seq(dna(rng, 30)), id="none"))
        observe("nosite vec " + enzyme, vec_cls, CircularRecord(Seq(dna(rng, 30)), id="none"))
        observe("tiny " + enzyme, vec_cls, CircularRecord(Seq("ATG"), id="tiny"))

    # kit classes
    kit_modules = [ytk.YTKPart1, ytk.YTKPart2, ytk.YTKPart3, ytk.YTKPart3a, ytk.YTKPart4,
                   ytk.YTKPart5, ytk.YTKPart6, ytk.YTKPart7, ytk.YTKEntry,
                   cidar.CIDARPromoter, cidar.CIDARRibosomeBindingSite,
                   cidar.CIDARCodingSequence, cidar.CIDARTerminator,
                   ecoflex.EcoFlexPromoter, ecoflex.EcoFlexTerminator,
                   moclo_kit.MoCloPro, moclo_kit.MoCloTer]
    for cls in kit_modules:
        emit("kit structure", cls.__name__, cls.structure())
        sig = getattr(cls, "signature", NotImplemented)
        up, down = sig if sig is not NotImplemented else ("ACTG", "GGAT")
        name = [k for k, v in ENZYMES.items() if v[0] is cls.cutter or v[0] == cls.cutter]
        enzyme = name[0] if name else "BpiI"
        text = module_text(rng, enzyme, up, down, rng.randrange(4, 12), rng.randrange(4, 14))
        base = decorate(rng, CircularRecord(Seq(text), id=cls.__name__))
        for k in boundary_rotations(rng, len(text), 4):
            observe("kit {} >>{}".format(cls.__name__, k), cls, base >> k)
    for enzyme, cls in (("BsmBI", ytk.YTKEntryVector), ("BsaI", ytk.YTKCassetteVector),
                        ("BsmBI", ytk.YTKDeviceVector)):
        emit("kit structure", cls.__name__, cls.structure())
        a, b = overhangs(rng, 2, 4)
        text = vector_text(rng, enzyme, a, b, rng.randrange(2, 10), rng.randrange(4, 14))
        base = decorate(rng, CircularRecord(Seq(text), id=cls.__name__))
        for k in boundary_rotations(rng, len(text), 4):
            observe("kit {} >>{}".format(cls.__name__, k), cls, base >> k)
    # characterize
    text = module_text(rng, "BsaI", "AACG", "TATG", 9, 8)
    for k in (0, 2, len(text) - 3):
        out = attempt("characterize", ytk.YTKPart.characterize, CircularRecord(Seq(text), id="p") >> k)
        emit("characterized as", type(out).__name__)
    attempt("characterize fails", ytk.YTKPart.characterize, CircularRecord(Seq(dna(rng, 40)), id="zz"))

    class NoCutter(Entry):
        pass

    attempt("no cutter", NoCutter, CircularRecord(Seq("ACGT")))

    class NoSignature(AbstractPart, Entry):
        cutter = BsaI

    attempt("no signature", lambda: NoSignature(CircularRecord(Seq("ACGT"))).is_valid())


def section_assembly(rng):
    for enzyme in ("BsaI", "BsmBI", "BpiI", "SapI", "AarI"):
        mod_cls, _, vec_cls = make_classes(enzyme)
        size = ENZYMES[enzyme][3]
        for round_ in range(3):
            a, b, c, d, e = overhangs(rng, 5, size)
            vtext = vector_text(rng, enzyme, a, d, rng.randrange(2, 12), rng.randrange(4, 16))
            mtexts = [module_text(rng, enzyme, up, down, rng.randrange(2, 12), rng.randrange(3, 12))
                      for up, down in ((a, b), (b, c), (c, d))]
            extra = module_text(rng, enzyme, e, a, 5, 6)
            dup = module_text(rng, enzyme, b, c, 6, 6)
            rcdup = module_text(rng, enzyme, revcomp(b), e, 6, 6)
            same = vector_text(rng, enzyme, a, a, 4, 8)

            def rec(text, name, citing=True, lower=False):
                k = rng.randrange(len(text))
                text = rotate_text(text, k)
                if lower:
                    text = mixed_case(rng, text)
                return decorate(rng, CircularRecord(Seq(text), id=name, name=name), citing=citing)

            scenarios = {
                "ok": (rec(vtext, "V"), [rec(t, "M%d" % i) for i, t in enumerate(mtexts)]),
                "ok-shuffled": (rec(vtext, "V"), [rec(t, "M%d" % i) for i, t in reversed(list(enumerate(mtexts)))]),
                "ok-mixedcase": (rec(vtext, "V", lower=True), [rec(t, "M%d" % i, lower=True) for i, t in enumerate(mtexts)]),
                "ok-nocite": (rec(vtext, "V", citing=False), [rec(t, "M%d" % i, citing=False) for i, t in enumerate(mtexts)]),
                "missing": (rec(vtext, "V"), [rec(mtexts[0], "M0"), rec(mtexts[2], "M2")]),
                "unused": (rec(vtext, "V"), [rec(t, "M%d" % i) for i, t in enumerate(mtexts)] + [rec(extra, "X")]),
                "duplicate": (rec(vtext, "V"), [rec(t, "M%d" % i) for i, t in enumerate(mtexts)] + [rec(dup, "D")]),
                "rc-duplicate": (rec(vtext, "V"), [rec(t, "M%d" % i) for i, t in enumerate(mtexts)] + [rec(rcdup, "R")]),
                "bad-vector": (rec(same, "S"), [rec(mtexts[0], "M0")]),
                "invalid-module": (rec(vtext, "V"), [rec(mtexts[0], "M0"), decorate(rng, CircularRecord(Seq(dna(rng, 30)), id="junk"))]),
                "invalid-vector": (decorate(rng, CircularRecord(Seq(dna(rng, 30)), id="junkv")), [rec(mtexts[0], "M0")]),
            }
            for name in sorted(scenarios):
                vrec, mrecs = scenarios[name]
                if name == "ok" and round_ == 1:
                    # a broken citation makes the assembly fail half-way
                    mrecs[1].features[1].qualifiers["citation"] = ["(oops)"]
                label = "assembly {} {} {}".format(enzyme, round_, name)
                kwargs = {"id": "asm", "name": "nm"} if round_ == 2 else {}
                out = attempt(label, lambda: vec_cls(vrec).assemble(*[mod_cls(m) for m in mrecs], **kwargs))
                emit(label, "type", type(out).__name__)
                emit(label, "vector after", dump_record(vrec))
                for m in mrecs:
                    emit(label, "module after", dump_record(m))

    # a YTK cassette from parts made on the spot, every part rotated
    parts = [ytk.YTKPart2, ytk.YTKPart3, ytk.YTKPart4]
    for round_ in range(4):
        texts = [module_text(rng, "BsaI", p.signature[0], p.signature[1], rng.randrange(5, 12), 9)
                 for p in parts]
        vtext = vector_text(rng, "BsaI", parts[0].signature[0], parts[-1].signature[1], 8, 12)
        vrec = decorate(rng, CircularRecord(Seq(vtext), id="ytkv") >> rng.randrange(len(vtext)))
        mrecs = [decorate(rng, CircularRecord(Seq(t), id="ytkp%d" % i) >> rng.randrange(len(t)))
                 for i, t in enumerate(texts)]
        attempt("ytk cassette {}".format(round_),
                lambda: ytk.YTKCassetteVector(vrec).assemble(*[p(m) for p, m in zip(parts, mrecs)]))
        emit("ytk after", dump_record(vrec), [dump_record(m) for m in mrecs])


def main():
    rng = random.Random(2002)
    for section in (section_regex, section_record, section_typing, section_assembly):
        mark = len(LINES)
        section(rng)
        digest = hashlib.sha256("\n".join(LINES[mark:]).encode("utf-8")).hexdigest()
        print("{:<18} {:>6} observations  {}".format(section.__name__, len(LINES) - mark, digest))
    digest = hashlib.sha256("\n".join(LINES).encode("utf-8")).hexdigest()
    print("DIGEST {} ({} observations)".format(digest, len(LINES)))
    if "--dump" in sys.argv:
        with open(sys.argv[sys.argv.index("--dump") + 1], "w") as handle:
            handle.write("\n".join(LINES) + "\n")


if __name__ == "__main__":
    main()
