# coding: utf-8
"""Differential test for the rewrite of CircularRecord.__rshift__."""
import sys

sys.path.insert(0, "/tmp/agentsR4/R15")
import tests  # noqa: E402,F401

import hashlib  # noqa: E402
import random  # noqa: E402
import warnings  # noqa: E402

warnings.simplefilter("ignore")

from Bio.Seq import Seq  # noqa: E402
from Bio.SeqRecord import SeqRecord  # noqa: E402
from Bio.SeqFeature import (  # noqa: E402
    SeqFeature,
    FeatureLocation,
    CompoundLocation,
    BeforePosition,
    AfterPosition,
    ExactPosition,
    Reference,
)
from Bio.Restriction import BsaI, BpiI  # noqa: E402

from moclo.record import CircularRecord  # noqa: E402
from moclo.core.modules import AbstractModule  # noqa: E402
from moclo.core.vectors import AbstractVector  # noqa: E402

rng = random.Random(150002)
results = []


def outcome(fn, *args, **kwargs):
    try:
        return ("ok", fn(*args, **kwargs))
    except Exception as exc:  # noqa
        return ("exc", type(exc).__name__, str(exc))


def show_loc(loc):
    if loc is None:
        return None
    return (
        type(loc).__name__,
        repr(loc),
        [
            (type(p).__name__, type(p.start).__name__, int(p.start), type(p.end).__name__,
             int(p.end), p.strand, p.ref, p.ref_db)
            for p in loc.parts
        ],
        getattr(loc, "operator", None),
    )


def show(rec):
    if not isinstance(rec, SeqRecord):
        return repr(rec)
    return (
        type(rec).__name__,
        str(rec.seq),
        rec.id,
        rec.name,
        rec.description,
        list(rec.dbxrefs),
        [
            (f.type, f.id, show_loc(f.location), sorted((k, repr(v)) for k, v in f.qualifiers.items()))
            for f in rec.features
        ],
        sorted((k, repr(v)) for k, v in rec.annotations.items()),
        sorted((k, repr(v)) for k, v in rec.letter_annotations.items()),
    )


def randseq(n, alphabet="ACGT"):
    return "".join(rng.choice(alphabet) for _ in range(n))


def rand_simple(n):
    a = rng.randint(0, n)
    b = rng.randint(a, n)
    strand = rng.choice([1, -1, None, 0])
    r = rng.random()
    if r < 0.1:
        return FeatureLocation(BeforePosition(a), b, strand)
    if r < 0.2:
        return FeatureLocation(a, AfterPosition(b), strand)
    if r < 0.3:
        return FeatureLocation(ExactPosition(a), ExactPosition(b), strand, ref="X123", ref_db="db")
    if r < 0.4:
        # already beyond the end (as produced by a previous rotation)
        k = rng.randint(1, 3)
        return FeatureLocation(a + k * n, b + k * n, strand)
    if r < 0.5:
        # straddling the end
        return FeatureLocation(a, b + n, strand)
    return FeatureLocation(a, b, strand)


def rand_feature(n):
    r = rng.random()
    quals = {"label": ["f{}".format(rng.randint(0, 99))]}
    if r < 0.08:
        f = SeqFeature(FeatureLocation(0, 1), type="nowhere", qualifiers=quals)
        f.location = None
        return f
    if r < 0.2:
        return SeqFeature(FeatureLocation(0, n), type="source", qualifiers=quals, id="src")
    if r < 0.28:
        return SeqFeature(FeatureLocation(0, n, rng.choice([1, -1])), type=rng.choice(["source", "misc"]))
    if r < 0.34:
        return SeqFeature(FeatureLocation(0, max(n - 1, 0)), type="source")
    if r < 0.4 and n > 2:
        # a source in two parts spanning everything
        k = rng.randint(1, n - 1)
        return SeqFeature(CompoundLocation([FeatureLocation(k, n), FeatureLocation(0, k)]), type="source")
    if r < 0.65:
        parts = [rand_simple(n) for _ in range(rng.randint(2, 4))]
        op = rng.choice(["join", "order"])
        return SeqFeature(CompoundLocation(parts, op), type=rng.choice(["CDS", "misc_feature"]),
                          qualifiers=quals, id="cmp")
    return SeqFeature(rand_simple(n), type=rng.choice(["CDS", "gene", "source", "promoter"]),
                      qualifiers=quals, id=rng.choice(["<unknown id>", "fid"]))


class MyRecord(CircularRecord):
    """A user-defined subclass."""

    def tag(self):
        return "mine"


def rand_record():
    n = rng.choice([0, 1, 2, 3, 5, 8, 13, 21, 40, 77])
    if rng.random() < 0.9 and n == 0:
        n = rng.randint(1, 30)
    seq = randseq(n, rng.choice(["ACGT", "ACGTacgtN"]))
    feats = [rand_feature(n) for _ in range(rng.randint(0, 5))]
    letan = {}
    if rng.random() < 0.4:
        letan["phred_quality"] = [rng.randint(0, 40) for _ in range(n)]
    if rng.random() < 0.2:
        letan["secondary"] = randseq(n, ".()")
    if rng.random() < 0.1:
        letan["tup"] = tuple(range(n))
    ants = rng.choice([None, {}, {"topology": "circular"}, {"topology": "CIRCULAR", "organism": "x"},
                       {"references": [Reference()], "molecule_type": "DNA"}])
    cls = rng.choice([CircularRecord, CircularRecord, MyRecord])
    return cls(
        Seq(seq),
        id="id{}".format(rng.randint(0, 9)),
        name="nm",
        description="desc",
        dbxrefs=rng.choice([None, ["db:1", "db:2"]]),
        features=feats,
        annotations=ants,
        letter_annotations=letan or None,
    )


def shifts(n):
    base = [0, 1, -1, 2, n - 1, n, n + 1, -n, -n - 1, 2 * n, 2 * n + 3, -3 * n + 1, n // 2, 7 * n + n // 3]
    return rng.sample(base, 5) + [rng.randint(-4 * n - 5, 4 * n + 5)]


for case in range(450):
    rec = rand_record()
    before = show(rec)
    n = len(rec)
    for k in shifts(n):
        for opname, op in ((">>", lambda r, k: r >> k), ("<<", lambda r, k: r << k)):
            o = outcome(op, rec, k)
            if o[0] == "ok":
                new = o[1]
                extra = [new is rec, type(new) is type(rec)]
                if new is not rec:
                    extra.append([a.qualifiers is b.qualifiers for a, b in zip(rec.features, new.features)])
                    extra.append(new.annotations is rec.annotations)
                    extra.append(new.dbxrefs is rec.dbxrefs)
                    extra.append([a.location is b.location for a, b in zip(rec.features, new.features)])
                    # extraction of every feature on the rotated record
                    ext = []
                    for f in new.features:
                        if f.location is not None:
                            e = outcome(f.extract, new.seq + new.seq + new.seq)
                            ext.append(str(e[1]) if e[0] == "ok" else e)
                    extra.append(ext)
                    # rotate a second time (locations may now lie past the end)
                    o2 = outcome(op, new, rng.choice([1, n // 2 + 1, k]))
                    extra.append(show(o2[1]) if o2[0] == "ok" else o2)
                results.append(("R", case, opname, k, show(new), extra))
            else:
                results.append(("R", case, opname, k) + o)
    results.append(("unchanged", case, show(rec) == before))

# bad operands
rec = CircularRecord(Seq("ATGCATGC"), id="x", features=[SeqFeature(FeatureLocation(1, 3), type="misc")])
for bad in (None, "2", 1.5, [1], 2.0, True):
    for op in (lambda r, k: r >> k, lambda r, k: r << k):
        o = outcome(op, rec, bad)
        results.append(("bad", repr(bad), show(o[1]) if o[0] == "ok" else o))

# through the structured records: target sequences rotate the record
ENZ = [BsaI, BpiI]
for case in range(150):
    cutter = rng.choice(ENZ)
    site = cutter.site
    rcsite = str(Seq(site).reverse_complement())
    gap = cutter.elucidate().index("^") - len(site)
    o1, o2 = randseq(4), randseq(4)
    inner, outer = randseq(rng.randint(2, 25)), randseq(rng.randint(2, 25))
    if rng.random() < 0.5:
        base = AbstractModule
        s = site + randseq(gap) + o1 + inner + o2 + randseq(gap) + rcsite + outer
    else:
        base = AbstractVector
        s = outer + o1 + randseq(gap) + rcsite + inner + site + randseq(gap) + o2
    n = len(s)
    feats = [rand_feature(n) for _ in range(rng.randint(0, 4))]
    feats = [f for f in feats if f.location is not None]
    rec = CircularRecord(Seq(s), id="p{}".format(case), features=feats) >> rng.randint(0, n)
    cls = type(str("K"), (base,), {"cutter": cutter})
    ent = cls(rec)
    row = ["E", case, ent.is_valid()]
    for meth in ("overhang_start", "overhang_end", "target_sequence", "placeholder_sequence"):
        if hasattr(ent, meth):
            o = outcome(getattr(ent, meth))
            if o[0] == "ok":
                row.append(show(o[1]) if isinstance(o[1], SeqRecord) else str(o[1]))
            else:
                row.append(o)
    results.append(tuple(row))

digest = hashlib.sha256(repr(results).encode("utf-8")).hexdigest()
print(len(results), digest)
