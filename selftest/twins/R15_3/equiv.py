# coding: utf-8
"""Differential test for the rewrite of AssemblyManager._generate_assembly."""
import sys

sys.path.insert(0, "/tmp/agentsR4/R15")
import tests  # noqa: E402,F401

import hashlib  # noqa: E402
import random  # noqa: E402
import re  # noqa: E402
import warnings  # noqa: E402

from Bio.Seq import Seq  # noqa: E402
from Bio.SeqRecord import SeqRecord  # noqa: E402
from Bio.SeqFeature import SeqFeature, FeatureLocation, CompoundLocation, Reference  # noqa: E402
from Bio.Restriction import BsaI, BpiI, BsmBI, SapI, BseRI  # noqa: E402

from moclo import errors  # noqa: E402
from moclo.record import CircularRecord  # noqa: E402
from moclo.core.modules import AbstractModule, Entry  # noqa: E402
from moclo.core.vectors import AbstractVector, EntryVector  # noqa: E402
from moclo.core._assembly import AssemblyManager  # noqa: E402

rng = random.Random(150003)
ADDR = re.compile(r"0x[0-9a-fA-F]+")
results = []


def outcome(fn, *args, **kwargs):
    with warnings.catch_warnings(record=True) as caught:
        warnings.simplefilter("always")
        try:
            res = ("ok", fn(*args, **kwargs))
        except Exception as exc:  # noqa
            res = ("exc", type(exc).__name__, ADDR.sub("0x?", str(exc)), show_exc(exc))
    ws = [
        (type(w.message).__name__, str(w.message),
         [m.record.id for m in getattr(w.message, "remaining", ())])
        for w in caught
        if isinstance(w.message, errors.MocloError)
    ]
    return res, ws


def show_exc(exc):
    out = [type(exc).__mro__[1].__name__, repr(exc.__cause__), exc.__suppress_context__]
    if isinstance(exc, errors.DuplicateModules):
        out.append([d.record.id for d in exc.duplicates])
        out.append(exc.details)
    if isinstance(exc, errors.MissingModule):
        out.append((type(exc.start_overhang).__name__, str(exc.start_overhang), exc.details))
    if isinstance(exc, errors.InvalidSequence):
        out.append((getattr(exc.sequence, "id", None), exc.details))
    return out


def show(rec):
    if isinstance(rec, Seq):
        return str(rec)
    if not isinstance(rec, SeqRecord):
        return repr(rec)
    return (
        type(rec).__name__,
        str(rec.seq),
        rec.id,
        rec.name,
        rec.description,
        [
            (f.type, f.id, repr(f.location), sorted((k, repr(v)) for k, v in f.qualifiers.items()))
            for f in rec.features
        ],
        sorted((k, repr(v)) for k, v in rec.annotations.items()),
    )


def randseq(n, alphabet="ACGT"):
    return "".join(rng.choice(alphabet) for _ in range(n))


FORBIDDEN = ["GGTCTC", "GAGACC", "GAAGAC", "GTCTTC", "CGTCTC", "GAGACG", "GCTCTTC", "GAAGAGC",
             "GAGGAG", "CTCCTC"]


def clean(n):
    while True:
        s = randseq(n)
        if not any(site in s + s for site in FORBIDDEN):
            return s


class Kit(object):
    def __init__(self, cutter, three_prime=False):
        self.cutter = cutter
        self.site = cutter.site
        self.rcsite = str(Seq(cutter.site).reverse_complement())
        self.ov = abs(cutter.ovhg)
        el = cutter.elucidate()
        cutter_ = cutter
        if three_prime:
            self.gap = el.index("_") - len(self.site)
            gap, ov, site, rcsite = "N" * self.gap, "N" * self.ov, self.site, self.rcsite

            class Mod(AbstractModule):
                cutter = cutter_

                @classmethod
                def structure(cls):
                    return "{s}{g}({o})(NN*N)({o}){g}{r}".format(s=site, g=gap, o=ov, r=rcsite)

            class Vec(AbstractVector):
                cutter = cutter_

                @classmethod
                def structure(cls):
                    return "({o})({g}{r}N*{s}{g})({o})".format(s=site, g=gap, o=ov, r=rcsite)

        else:
            self.gap = el.index("^") - len(self.site)
            Mod = type(str("Mod"), (AbstractModule,), {"cutter": cutter})
            Vec = type(str("Vec"), (AbstractVector,), {"cutter": cutter})
        self.Mod, self.Vec = Mod, Vec

    def overhangs(self, k):
        out = []
        while len(out) < k:
            o = randseq(self.ov)
            rc = str(Seq(o).reverse_complement())
            if o not in out and rc not in out and o != rc:
                out.append(o)
        return out

    def finish(self, s, rid, circular=True):
        n = len(s)
        feats = []
        refs = [Reference() for _ in range(rng.randint(0, 3))]
        for i, r in enumerate(refs):
            r.title = "ref {} of {}".format(i, rid)
            r.authors = "A{}".format(i)
        for _ in range(rng.randint(0, 4)):
            a = rng.randint(0, n - 1)
            b = rng.randint(a + 1, n)
            quals = {"label": ["{}:{}-{}".format(rid, a, b)]}
            if refs and rng.random() < 0.6:
                quals["citation"] = ["[{}]".format(rng.randint(1, len(refs))) for _ in range(rng.randint(1, 2))]
            if rng.random() < 0.2 and b < n:
                loc = CompoundLocation([FeatureLocation(b, n, 1), FeatureLocation(0, a + 1, 1)])
            else:
                loc = FeatureLocation(a, b, rng.choice([1, -1]))
            feats.append(SeqFeature(loc, type=rng.choice(["CDS", "misc_feature", "promoter"]), qualifiers=quals))
        r = rng.random()
        if r < 0.15:
            s = s.lower()
        elif r < 0.3:
            s = "".join(rng.choice([c, c.lower()]) for c in s)
        ants = {"topology": "circular"} if rng.random() < 0.5 else {}
        if refs:
            ants["references"] = refs
        rec = CircularRecord(Seq(s), id=rid, name=rid + "_name", features=feats, annotations=ants)
        if circular and rng.random() < 0.6:
            rec = rec >> rng.randint(0, n)
        return rec

    def module(self, o_start, o_end, rid, inner=None):
        inner = clean(rng.randint(2, 30)) if inner is None else inner
        s = (self.site + clean(self.gap) + o_start + inner + o_end + clean(self.gap) + self.rcsite
             + clean(rng.randint(0, 30)))
        return self.Mod(self.finish(s, rid))

    def vector(self, o_end, o_start, rid):
        # group 1 is the vector "end" overhang (where the insert starts)
        s = (clean(rng.randint(1, 20)) + o_end + clean(self.gap) + self.rcsite + clean(rng.randint(0, 20))
             + self.site + clean(self.gap) + o_start + clean(rng.randint(1, 20)))
        return self.Vec(self.finish(s, rid))


KITS = [Kit(BsaI), Kit(BpiI), Kit(BsmBI), Kit(SapI), Kit(BseRI, three_prime=True)]
SCENARIOS = ["ok", "ok", "ok", "missing", "unused", "unused2", "dupstart", "same_twice", "revcomp",
             "cycle", "badvector", "badmodule", "illegal", "missing_first", "tail"]


def snapshot(elements):
    return [show(e.record) for e in elements]


for case in range(420):
    kit = rng.choice(KITS)
    scenario = rng.choice(SCENARIOS)
    k = rng.randint(1, 5 if kit.ov > 2 else 2)
    ovs = kit.overhangs(k + 4)
    chain = ovs[:k + 1]
    spare = ovs[k + 1:]
    vec = kit.vector(chain[0], chain[-1], "vec{}".format(case))
    mods = [kit.module(chain[i], chain[i + 1], "m{}_{}".format(case, i)) for i in range(k)]
    if scenario == "missing":
        del mods[rng.randrange(len(mods))]
    elif scenario == "missing_first":
        del mods[0]
    elif scenario == "unused":
        mods.append(kit.module(spare[0], spare[1], "extra{}".format(case)))
    elif scenario == "unused2":
        mods.append(kit.module(spare[0], spare[1], "extraA{}".format(case)))
        mods.append(kit.module(spare[1], spare[2], "extraB{}".format(case)))
    elif scenario == "dupstart":
        i = rng.randrange(k)
        mods.append(kit.module(chain[i], spare[0], "dup{}".format(case)))
    elif scenario == "same_twice":
        mods.append(rng.choice(mods))
    elif scenario == "revcomp":
        rc = str(Seq(rng.choice(chain[:-1])).reverse_complement())
        mods.append(kit.module(rc, spare[0], "rc{}".format(case)))
    elif scenario == "cycle" and k >= 2:
        # the last module points back to an overhang that was already consumed
        mods[-1] = kit.module(chain[k - 1], chain[rng.randrange(0, k - 1)], "loop{}".format(case))
    elif scenario == "tail":
        # chain continues past the vector start overhang: the rest is unused
        mods.append(kit.module(chain[-1], spare[0], "tail{}".format(case)))
    elif scenario == "badvector":
        vec = kit.vector(chain[0], chain[0].lower() if rng.random() < 0.5 else chain[0], "badvec{}".format(case))
    elif scenario == "badmodule":
        mods.insert(rng.randrange(len(mods) + 1), kit.Mod(kit.finish(clean(40), "junk{}".format(case))))
    elif scenario == "illegal":
        i = rng.randrange(k)
        mods[i] = kit.module(chain[i], chain[i + 1], "ill{}".format(case), inner=clean(5) + kit.site + clean(5))
    rng.shuffle(mods)
    kwargs = {}
    if rng.random() < 0.3:
        kwargs["name"] = "n{}".format(case)
    if rng.random() < 0.3:
        kwargs["id"] = "i{}".format(case)
    elements = mods + [vec]
    before = snapshot(elements)
    if not mods:
        (res, ws) = outcome(lambda: AssemblyManager(vec, [], **{("id_" if a == "id" else a): b
                                                                  for a, b in kwargs.items()}).assemble())
    else:
        (res, ws) = outcome(vec.assemble, *mods, **kwargs)
    after = snapshot(elements)
    row = ["A", case, scenario, kit.cutter.__name__, k, [m.record.id for m in mods], sorted(kwargs.items())]
    if res[0] == "ok":
        row.append(show(res[1]))
        # assembling again must give the same thing (inputs restored)
        (res2, ws2) = outcome(vec.assemble, *mods, **kwargs)
        row.append(res2[0] == "ok" and show(res2[1]) == show(res[1]) and ws2 == ws)
    else:
        row.append(res)
    row.append(ws)
    row.append(before == after)
    row.append(hashlib.sha256(repr(after).encode("utf-8")).hexdigest())
    results.append(tuple(row))

# warnings turned into errors
for case in range(40):
    kit = rng.choice(KITS[:4])
    ovs = kit.overhangs(5)
    vec = kit.vector(ovs[0], ovs[2], "wvec{}".format(case))
    mods = [kit.module(ovs[0], ovs[1], "wa{}".format(case)), kit.module(ovs[1], ovs[2], "wb{}".format(case)),
            kit.module(ovs[3], ovs[4], "wc{}".format(case))]
    rng.shuffle(mods)
    with warnings.catch_warnings():
        warnings.simplefilter("error", errors.AssemblyWarning)
        try:
            r = ("ok", show(vec.assemble(*mods)))
        except Exception as exc:  # noqa
            r = ("exc", type(exc).__name__, str(exc), [m.record.id for m in getattr(exc, "remaining", ())])
    results.append(("W", case, r, snapshot(mods + [vec])))

# concrete level classes from the public API, direct use of the manager
kit = KITS[0]


class MyEntry(Entry):
    cutter = BsaI


class MyEntryVector(EntryVector):
    cutter = BsaI


for case in range(40):
    ovs = kit.overhangs(4)
    v = MyEntryVector(kit.vector(ovs[0], ovs[3], "ev{}".format(case)).record)
    ms = [MyEntry(kit.module(ovs[i], ovs[i + 1], "e{}_{}".format(case, i)).record) for i in range(3)]
    if case % 4 == 1:
        ms = ms[:2]
    if case % 4 == 2:
        ms = ms + [ms[0]]
    if case % 4 == 3:
        ms = list(reversed(ms))
    mgr = AssemblyManager(v, ms, id_="X{}".format(case), name="Y")
    res, ws = outcome(mgr.assemble)
    results.append(("M", case, show(res[1]) if res[0] == "ok" else res, ws,
                    [m.record.id for m in mgr.modules], len(mgr.elements)))

digest = hashlib.sha256(repr(results).encode("utf-8")).hexdigest()
print(len(results), digest)
