#!/usr/bin/env python
# coding: utf-8
"""Differential test for the assembly code path (property C07).

Generates a few hundred assemblies (successful, warning, failing at every
stage) over records with and without literature citations, through the
existing public API only, and prints a digest of every result, exception,
warning and of the state of the inputs afterwards.
"""
import sys

sys.path.insert(0, "/tmp/agents7/C07")
import tests  # noqa: F401,E402  (splices the kits into the moclo namespace)

import hashlib  # noqa: E402
import json  # noqa: E402
import random  # noqa: E402
import re  # noqa: E402
import warnings  # noqa: E402

from Bio.Seq import Seq  # noqa: E402
from Bio.SeqRecord import SeqRecord  # noqa: E402
from Bio.SeqFeature import SeqFeature, FeatureLocation, Reference  # noqa: E402
from Bio.Restriction import BpiI, BsaI, BsmBI, SapI  # noqa: E402

from moclo import errors  # noqa: E402
from moclo.record import CircularRecord  # noqa: E402
from moclo.regex import DNARegex  # noqa: E402
from moclo.core.vectors import AbstractVector  # noqa: E402
from moclo.core.modules import AbstractModule  # noqa: E402
from moclo.core._utils import cutter_check, add_as_source  # noqa: E402
from moclo.kits import ytk  # noqa: E402


# --- the enzymes and the wrappers -------------------------------------------

ENZYMES = {}
for _cutter, _pad, _ovl in ((BpiI, 2, 4), (BsaI, 1, 4), (BsmBI, 1, 4), (SapI, 1, 3)):
    _v = type(str("V" + _cutter.__name__), (AbstractVector,), {"cutter": _cutter})
    _m = type(str("M" + _cutter.__name__), (AbstractModule,), {"cutter": _cutter})
    ENZYMES[_cutter.__name__] = (_cutter, _pad, _ovl, _v, _m)


def rc(s):
    return str(Seq(s).reverse_complement())


def has_site(cutter, s):
    s2 = (s + s).upper()
    return cutter.site in s2 or rc(cutter.site) in s2


def rand_dna(rng, n, cutter):
    while True:
        s = "".join(rng.choice("ACGT") for _ in range(n))
        if not has_site(cutter, s):
            return s


def rand_case(rng, s):
    mode = rng.randrange(4)
    if mode == 0:
        return s.lower()
    if mode == 1:
        return "".join(c.lower() if rng.random() < 0.5 else c for c in s)
    return s


def rand_overhangs(rng, n, ovl):
    """n distinct overhangs, none being the reverse complement of another."""
    out = []
    while len(out) < n:
        o = "".join(rng.choice("ACGT") for _ in range(ovl))
        if o in out or rc(o) in out or rc(o) == o:
            continue
        out.append(o)
    return out


# --- the literature -----------------------------------------------------------

def make_reference(k, span=None):
    ref = Reference()
    ref.authors = "Author{0} A., Writer{0} W.".format(k)
    ref.title = "Paper number {}".format(k)
    ref.journal = "J. Irreproducible Res. {}:1-{}".format(k, k + 10)
    ref.pubmed_id = str(1000 + k)
    if span is not None:
        ref.location = [FeatureLocation(0, span)]
    return ref


def decorate(rng, length, blocks, cited, pool):
    """Random features (some citing) and a reference list for a record.

    ``blocks`` are (start, end) spans in which small features are put so
    that they survive the extraction; other features are put anywhere.
    """
    features = []
    nrefs = rng.choice([0, 0, 1, 2, 3]) if cited else 0
    references = [make_reference(rng.choice(pool)) for _ in range(nrefs)]
    if cited and nrefs and rng.random() < 0.15:
        # a reference equal (not identical) to an earlier one of this record
        references.append(make_reference(int(references[0].pubmed_id) - 1000))
    n = rng.randrange(1, 6)
    for k in range(n):
        if blocks and rng.random() < 0.7:
            b0, b1 = rng.choice(blocks)
            a = rng.randrange(b0, b1)
            b = rng.randrange(a, b1) + 1
        else:
            a = rng.randrange(0, length)
            b = rng.randrange(a, length) + 1
        quals = {"label": ["feat{}".format(k)]}
        if rng.random() < 0.3:
            quals["note"] = ["a note", "another"]
        if references and rng.random() < 0.75:
            quals["citation"] = [
                "[{}]".format(rng.randrange(1, len(references) + 1))
                for _ in range(rng.choice([1, 1, 2]))
            ]
        strand = rng.choice([1, -1, None])
        features.append(
            SeqFeature(
                FeatureLocation(a, b, strand),
                type=rng.choice(["CDS", "misc_feature", "promoter"]),
                id="f{}".format(k),
                qualifiers=quals,
            )
        )
    if rng.random() < 0.3:
        features.append(
            SeqFeature(
                FeatureLocation(0, length),
                type="source",
                qualifiers={"organism": ["synthetic"], "mol_type": ["other DNA"]},
            )
        )
    return features, references


def rotate_plain(seq, features, k):
    """Rotate a plain description of a record by hand (no library code)."""
    n = len(seq)
    k %= n
    if k == 0:
        return seq, features
    newseq = seq[-k:] + seq[:-k]
    newfeats = []
    for f in features:
        a, b = int(f.location.start), int(f.location.end)
        if f.type == "source":
            newfeats.append(f)
            continue
        a2, b2 = a + k, b + k
        if a2 >= n:
            a2, b2 = a2 - n, b2 - n
        if b2 > n:
            continue  # would straddle the origin: drop it
        newfeats.append(
            SeqFeature(
                FeatureLocation(a2, b2, f.location.strand),
                type=f.type,
                id=f.id,
                qualifiers=f.qualifiers,
            )
        )
    return newseq, newfeats


def build_record(rng, ident, seq, blocks, cited, pool, plain=False, rotate=True):
    features, references = decorate(rng, len(seq), blocks, cited, pool)
    if rotate:
        k = rng.choice([0, 1, 3, len(seq) // 2, len(seq) - 2, rng.randrange(len(seq))])
        seq, features = rotate_plain(seq, features, k)
    annotations = {}
    mode = rng.randrange(4)
    if mode == 0:
        annotations["topology"] = "circular"
    elif mode == 1:
        annotations["topology"] = "Circular"
        annotations["molecule_type"] = "DNA"
    elif mode == 2:
        annotations["molecule_type"] = "ds-DNA"
        annotations["organism"] = "synthetic construct"
    if references or (cited and rng.random() < 0.3):
        annotations["references"] = references
    cls = SeqRecord if plain else CircularRecord
    return cls(
        Seq(rand_case(rng, seq)),
        id=ident,
        name=ident + "_name",
        description="record " + ident,
        features=features,
        annotations=annotations,
    )


def module_seq(rng, enz, start, end, insert=None):
    cutter, pad, ovl, _, _ = enz
    site = cutter.site
    insert = insert or rand_dna(rng, rng.randrange(3, 30), cutter)
    bb1 = rand_dna(rng, rng.randrange(4, 25), cutter)
    bb2 = rand_dna(rng, rng.randrange(4, 25), cutter)
    p1 = rand_dna(rng, pad, cutter)
    p2 = rand_dna(rng, pad, cutter)
    seq = bb1 + site + p1 + start + insert + end + p2 + rc(site) + bb2
    a = len(bb1 + site + p1)
    block = (a, a + len(start + insert))
    if has_site(cutter, bb2 + bb1) or seq.upper().count(site) != 1:
        return module_seq(rng, enz, start, end)
    return seq, [block]


def vector_seq(rng, enz, start, end):
    """A vector whose upstream overhang is `start` and downstream is `end`."""
    cutter, pad, ovl, _, _ = enz
    site = cutter.site
    dropout = rand_dna(rng, rng.randrange(2, 20), cutter)
    bb1 = rand_dna(rng, rng.randrange(6, 30), cutter)
    bb2 = rand_dna(rng, rng.randrange(6, 30), cutter)
    p1 = rand_dna(rng, pad, cutter)
    p2 = rand_dna(rng, pad, cutter)
    seq = bb1 + end + p1 + rc(site) + dropout + site + p2 + start + bb2
    blocks = [(0, len(bb1)), (len(seq) - len(bb2), len(seq))]
    if has_site(cutter, bb2 + bb1) or seq.upper().count(site) != 1:
        return vector_seq(rng, enz, start, end)
    return seq, blocks


# --- dumping ------------------------------------------------------------------

def dump_reference(ref):
    return [
        "REF",
        ref.authors,
        ref.title,
        ref.journal,
        ref.pubmed_id,
        ref.medline_id,
        ref.consrtm,
        ref.comment,
        [str(loc) for loc in ref.location],
    ]


def dump_value(v):
    if isinstance(v, Reference):
        return dump_reference(v)
    if isinstance(v, (list, tuple)):
        return [dump_value(x) for x in v]
    if isinstance(v, dict):
        return {str(k): dump_value(x) for k, x in sorted(v.items())}
    return repr(v)


def dump_record(rec):
    if rec is None:
        return None
    return {
        "class": type(rec).__name__,
        "seq": str(rec.seq),
        "id": rec.id,
        "name": rec.name,
        "description": rec.description,
        "dbxrefs": list(rec.dbxrefs),
        "annotations": dump_value(rec.annotations),
        "letter_annotations": dump_value(dict(rec.letter_annotations)),
        "features": [
            [f.type, f.id, str(f.location), dump_value(f.qualifiers)] for f in rec.features
        ],
    }


def outcome(func, *args, **kwargs):
    """Call and describe what happened: result / exception / warnings."""
    error_unused = kwargs.pop("_error_unused", False)
    with warnings.catch_warnings(record=True) as caught:
        warnings.simplefilter("always")
        if error_unused:
            warnings.simplefilter("error", errors.UnusedModules)
        try:
            res = func(*args, **kwargs)
            out = {"result": dump_record(res) if isinstance(res, SeqRecord) else dump_value(res)}
        except Exception as exc:  # noqa
            out = {
                "raised": type(exc).__name__,
                "message": re.sub(r"0x[0-9a-fA-F]+", "0x?", str(exc)),
                "cause": repr(exc.__cause__),
                "suppress": exc.__suppress_context__,
            }
    out["warnings"] = [
        [w.category.__name__, re.sub(r"0x[0-9a-fA-F]+", "0x?", str(w.message))] for w in caught
    ]
    return out


# --- the scenarios ------------------------------------------------------------

KINDS = [
    "ok", "ok", "ok", "unused", "unused_error", "missing", "dup_start", "dup_revcomp",
    "bad_vector", "bad_module", "plain_module", "plain_vector", "illegal_site",
    "bad_citation", "dangling_citation", "zero_citation", "kwargs",
]


def scenario(seed):
    rng = random.Random(seed)
    kind = KINDS[seed % len(KINDS)]
    ename = sorted(ENZYMES)[(seed // len(KINDS)) % len(ENZYMES)]
    enz = ENZYMES[ename]
    cutter, pad, ovl, V, M = enz
    cited = rng.random() < 0.8
    pool = list(range(1, 6))
    n = rng.randrange(1, 5)
    ovs = rand_overhangs(rng, n + 3, ovl)
    chain = ovs[: n + 1]
    extra = ovs[n + 1:]

    v_start, v_end = chain[-1], chain[0]
    if kind == "bad_vector":
        v_start = v_end
    vseq, vblocks = vector_seq(rng, enz, v_start, v_end)
    vrec = build_record(rng, "vec", vseq, vblocks, cited, pool, plain=(kind == "plain_vector"))
    vector = V(vrec)

    j = rng.randrange(n)
    mods = []
    for i in range(n):
        insert = None
        if kind == "illegal_site" and i == j:
            insert = rand_dna(rng, 4, cutter) + cutter.site + rand_dna(rng, 5, cutter)
        if insert is None:
            mseq, mblocks = module_seq(rng, enz, chain[i], chain[i + 1])
        else:
            site = cutter.site
            bb = rand_dna(rng, 9, cutter)
            mseq = bb + site + "A" * pad + chain[i] + insert + chain[i + 1] + "C" * pad + rc(site) + bb
            mblocks = []
        if kind == "bad_module" and i == j:
            mseq, mblocks = rand_dna(rng, 40, cutter), []
        plain = kind == "plain_module" and i == j
        mrec = build_record(rng, "mod{}".format(i), mseq, mblocks, cited, pool, plain=plain)
        mods.append(M(mrec))

    fixed = None
    args = list(mods)
    if kind in ("unused", "unused_error"):
        s, b = module_seq(rng, enz, extra[0], extra[1])
        args.append(M(build_record(rng, "spare", s, b, cited, pool)))
    elif kind == "missing":
        fixed = list(args)
        del args[j]
    elif kind == "dup_start":
        s, b = module_seq(rng, enz, chain[j], extra[0])
        args.append(M(build_record(rng, "twin", s, b, cited, pool)))
        fixed = list(mods)
    elif kind == "dup_revcomp":
        s, b = module_seq(rng, enz, rc(chain[j]), extra[0])
        args.append(M(build_record(rng, "mirror", s, b, cited, pool)))
        fixed = list(mods)
    elif kind in ("bad_citation", "dangling_citation", "zero_citation"):
        target = rng.choice(args + [vector]).record
        refs = target.annotations.setdefault("references", [make_reference(9)])
        value = {
            "bad_citation": "see [1]",
            "dangling_citation": "[{}]".format(len(refs) + 3),
            "zero_citation": "[0]" if refs else "[]",
        }[kind]
        if not target.features:
            target.features.append(SeqFeature(FeatureLocation(0, 2), type="misc_feature"))
        rng.choice(target.features).qualifiers.setdefault("citation", []).append(value)
    rng.shuffle(args)

    kwargs = {}
    if kind == "kwargs":
        kwargs = rng.choice([{"id": "my_id"}, {"name": "my_name"}, {"id": "x", "name": "y", "other": 1}])
    if kind == "unused_error":
        kwargs["_error_unused"] = True

    inputs = [vector] + args + [m for m in (fixed or []) if m not in args]
    log = {"seed": seed, "kind": kind, "enzyme": ename, "n": n}
    log["before"] = [dump_record(e.record) for e in inputs]
    log["call1"] = outcome(vector.assemble, *args, **dict(kwargs))
    log["after1"] = [dump_record(e.record) for e in inputs]
    log["call2"] = outcome(vector.assemble, *args, **dict(kwargs))
    log["after2"] = [dump_record(e.record) for e in inputs]
    if fixed is not None:
        log["retry"] = outcome(vector.assemble, *fixed)
        log["after_retry"] = [dump_record(e.record) for e in inputs]
    # the pieces, one by one, on the same objects
    pieces = []
    for e in inputs:
        pieces.append(outcome(e.target_sequence))
        pieces.append(outcome(lambda e=e: str(e.overhang_start()) + "/" + str(e.overhang_end())))
        pieces.append(outcome(e.is_valid))
    pieces.append(outcome(vector.placeholder_sequence))
    log["pieces"] = pieces
    log["after_pieces"] = [dump_record(e.record) for e in inputs]
    log["call3"] = outcome(vector.assemble, *args, **dict(kwargs))
    return log


def misc():
    """Supporting code called by the assembly, exercised directly."""
    rng = random.Random(4242)
    out = []
    for k in range(60):
        n = rng.randrange(6, 40)
        seq = "".join(rng.choice("ACGTacgt") for _ in range(n))
        feats, refs = decorate(rng, n, [], True, [1, 2, 3])
        la = {"phred_quality": [rng.randrange(40) for _ in range(n)]} if k % 3 == 0 else None
        ann = {"topology": "circular", "references": refs} if k % 2 else {"references": refs}
        rec = CircularRecord(
            Seq(seq), id="r{}".format(k), name="n", description="d", dbxrefs=["X:1"],
            features=feats, annotations=ann, letter_annotations=la,
        )
        sh = rng.randrange(-2 * n, 2 * n)
        a = rng.randrange(0, n)
        b = rng.randrange(a, n + 1)
        out.append(outcome(lambda: rec >> sh))
        out.append(outcome(lambda: rec << sh))
        out.append(outcome(lambda: rec[a:b]))
        out.append(outcome(lambda: (rec << a)[: b - a]))
        out.append(outcome(lambda: rec[a]))
        out.append(outcome(lambda: rec.reverse_complement()))
        out.append(outcome(lambda: rec.reverse_complement(id=True, name=True, annotations=True)))
        out.append(outcome(lambda: seq[a:b] in rec))
        out.append(outcome(lambda: (seq[a:] + seq[:a]) in rec))
        out.append(outcome(lambda: rec + "A"))
        out.append(outcome(lambda: "A" + rec))
        out.append(outcome(lambda: CircularRecord(SeqRecord(Seq(seq), id="p", annotations={"topology": "linear"}))))
        out.append(outcome(lambda: CircularRecord(rec)))
        out.append(dump_record(rec))
        rx = DNARegex("N" + "".join(rng.choice("ACGTNRYW") for _ in range(3)) + "(NN*)" + rng.choice("ACGT"))
        for target, lin in ((rec, True), (rec.seq, True), (rec.seq, False), (SeqRecord(rec.seq), False)):
            m = rx.search(target, linear=lin)
            out.append(None if m is None else [m.span(), m.span(1), dump_value(str(getattr(m.group(1), "seq", m.group(1))))])
        out.append(outcome(lambda: rx.search(seq)))
        dst = SeqRecord(Seq(seq), id="dst")
        out.append(outcome(add_as_source, rec, dst))
        out.append(outcome(add_as_source, rec, dst, FeatureLocation(a, b)))
        out.append(outcome(add_as_source, rec, dst, FeatureLocation(a, a)))
    for cutter in (NotImplemented, BsaI):
        out.append(outcome(cutter_check, cutter, "Thing"))
    from Bio.Restriction import EcoRV, NotI
    out.append(outcome(cutter_check, EcoRV, "Thing"))
    out.append(outcome(cutter_check, NotI, "Thing"))
    out.append(outcome(AbstractVector, None))
    out.append(outcome(AbstractModule, None))
    # the exceptions of the assembly
    m = ENZYMES["BsaI"][4](CircularRecord(Seq("ACGT"), id="some{}id"))
    for exc in (
        errors.InvalidSequence("ACGT"), errors.InvalidSequence("ACGT", details="why"),
        errors.IllegalSite(Seq("ACGT")), errors.DuplicateModules(m, m), errors.DuplicateModules(m, details="d"),
        errors.MissingModule("ACGT"), errors.MissingModule(Seq("ACGT"), details="x"),
        errors.UnusedModules(m), errors.UnusedModules(m, m, details=3),
    ):
        out.append(outcome(str, exc))
        out.append([type(exc).__name__, [c.__name__ for c in type(exc).__mro__]])
    out.append(outcome(m.is_valid))
    out.append(outcome(m.target_sequence))
    return out


def real_plasmids():
    """A YTK assembly out of the bundled registry, with citations grafted on."""
    from moclo.registry.ytk import YTKRegistry
    reg = YTKRegistry()
    out = []
    names = ["pYTK002", "pYTK047", "pYTK072", "pYTK095"]
    ents = [reg[n].entity for n in names]
    for k, e in enumerate(ents):
        refs = [make_reference(1), make_reference(k + 2)]
        e.record.annotations["references"] = refs
        for i, f in enumerate(e.record.features):
            if i % 2 == 0:
                f.qualifiers["citation"] = ["[{}]".format(1 + (i // 2) % 2)]
    vec, mods = ents[-1], ents[:-1]
    out.append([dump_record(e.record) for e in ents])
    out.append(outcome(vec.assemble, *mods))
    out.append([dump_record(e.record) for e in ents])
    out.append(outcome(vec.assemble, *mods[1:]))
    out.append([dump_record(e.record) for e in ents])
    out.append(outcome(vec.assemble, *mods, id="second"))
    out.append([dump_record(e.record) for e in ents])
    return out


def main():
    h = hashlib.sha256()
    counts = {}
    nscen = 340
    for seed in range(nscen):
        log = scenario(seed)
        blob = json.dumps(log, sort_keys=True)
        h.update(blob.encode())
        key = (log["kind"], log["call1"].get("raised", "ok"), len(log["call1"]["warnings"]))
        counts[key] = counts.get(key, 0) + 1
        if seed % 20 == 0:
            print("seed {:3d} {:18s} {}".format(seed, log["kind"], hashlib.sha256(blob.encode()).hexdigest()[:16]))
    for key in sorted(counts):
        print("{:18s} -> {:18s} warnings={} : {}".format(key[0], key[1], key[2], counts[key]))
    blob = json.dumps(misc(), sort_keys=True)
    print("misc   ", len(blob), hashlib.sha256(blob.encode()).hexdigest()[:16])
    h.update(blob.encode())
    blob = json.dumps(real_plasmids(), sort_keys=True)
    print("ytk    ", len(blob), hashlib.sha256(blob.encode()).hexdigest()[:16])
    h.update(blob.encode())
    print("scenarios:", nscen)
    print("DIGEST", h.hexdigest())


if __name__ == "__main__":
    main()
