import sys

sys.path.insert(0, "/tmp/agents7/C09")
import tests  # noqa: E402,F401  (splices the kit packages into the moclo namespace)

import hashlib  # noqa: E402
import inspect  # noqa: E402
import io  # noqa: E402
import random  # noqa: E402
import re  # noqa: E402
import warnings  # noqa: E402

from Bio import SeqIO  # noqa: E402
from Bio.Seq import Seq  # noqa: E402
from Bio.SeqRecord import SeqRecord  # noqa: E402
from Bio.SeqFeature import (  # noqa: E402
    SeqFeature,
    FeatureLocation,
    CompoundLocation,
    Reference,
)
from Bio.Restriction import BpiI, BsaI, BsmBI  # noqa: E402

from moclo import errors  # noqa: E402
from moclo.record import CircularRecord  # noqa: E402
from moclo.core.vectors import AbstractVector  # noqa: E402
from moclo.core.modules import AbstractModule  # noqa: E402

# --- generator of assemblies -------------------------------------------------

ENZYMES = {
    "BsaI": (BsaI, "GGTCTC", 1),
    "BpiI": (BpiI, "GAAGAC", 2),
    "BsmBI": (BsmBI, "CGTCTC", 1),
}


def rc(s):
    return str(Seq(s).reverse_complement())


HEXAMERS = sorted({s for _, s, _ in ENZYMES.values()} | {rc(s) for _, s, _ in ENZYMES.values()})

VEC = {n: type(str("Vec" + n), (AbstractVector,), {"cutter": e}) for n, (e, _, _) in ENZYMES.items()}
MOD = {n: type(str("Mod" + n), (AbstractModule,), {"cutter": e}) for n, (e, _, _) in ENZYMES.items()}


def count_circ(s, word):
    s = (s + s[: len(word) - 1]).upper()
    return sum(1 for i in range(len(s) - len(word) + 1) if s[i : i + len(word)] == word)


def rand_dna(rng, n):
    while True:
        s = "".join(rng.choice("ACGT") for _ in range(n))
        if not any(h in s for h in HEXAMERS):
            return s


def rand_overhangs(rng, n):
    out = []
    while len(out) < n:
        o = "".join(rng.choice("ACGT") for _ in range(4))
        if o == rc(o) or o in out or rc(o) in out:
            continue
        out.append(o)
    return out


class Retry(Exception):
    pass


def build_plasmid(rng, parts):
    """parts: list of str (literal) or int (random DNA of that length)."""
    for _ in range(30):
        pieces = [rand_dna(rng, p) if isinstance(p, int) else p for p in parts]
        s = "".join(pieces)
        ok = True
        for h in HEXAMERS:
            expected = sum(1 for p in parts if not isinstance(p, int) and p.upper() == h)
            if count_circ(s, h) != expected:
                ok = False
        if ok:
            return s, pieces
    raise Retry()


def mixed_case(rng, s):
    mode = rng.randrange(4)
    if mode == 0:
        return s
    if mode == 1:
        return s.lower()
    if mode == 2:
        return "".join(c.lower() if rng.random() < 0.5 else c for c in s)
    k = rng.randrange(len(s))
    return s[:k].lower() + s[k:]


def decorate(rng, seq, ident, refs=True, rotate=True):
    """Make a CircularRecord with annotations, features, citations; rotated."""
    n = len(seq)
    annotations = {}
    if rng.random() < 0.7:
        annotations["molecule_type"] = "DNA"
    if rng.random() < 0.5:
        annotations["topology"] = rng.choice(["circular", "Circular"])
    nrefs = rng.randrange(3) if refs else 0
    if nrefs:
        annotations["references"] = []
        for i in range(nrefs):
            r = Reference()
            r.title = "ref %s/%d" % (ident, i)
            r.authors = "A%d" % i
            annotations["references"].append(r)
    feats = []
    if rng.random() < 0.6:
        feats.append(
            SeqFeature(
                FeatureLocation(0, n),
                type="source",
                qualifiers={"organism": ["x"], "mol_type": ["other DNA"]},
            )
        )
    for i in range(rng.randrange(5)):
        a = rng.randrange(n - 1)
        b = rng.randrange(a + 1, min(n, a + 40) + 1)
        quals = {"label": ["%s_f%d" % (ident, i)]}
        if nrefs and rng.random() < 0.5:
            quals["citation"] = ["[%d]" % (rng.randrange(nrefs) + 1)]
        feats.append(
            SeqFeature(
                FeatureLocation(a, b, strand=rng.choice([1, -1, None])),
                type=rng.choice(["misc_feature", "CDS", "source"]),
                qualifiers=quals,
            )
        )
    if rng.random() < 0.3 and n > 20:
        loc = CompoundLocation(
            [FeatureLocation(n - 6, n, strand=1), FeatureLocation(0, 5, strand=1)]
        )
        feats.append(SeqFeature(loc, type="misc_feature", qualifiers={"label": ["wrap"]}))
    rec = CircularRecord(
        Seq(seq), id=ident, name=ident + "_n", features=feats, annotations=annotations
    )
    if rotate:
        rec = rec >> rng.randrange(n)
    return rec


def retrying(fn, *args, **kwargs):
    while True:
        try:
            return fn(*args, **kwargs)
        except Retry:
            continue


def make_module(rng, enz, oh_s, oh_e, ident, **kw):
    _, site, sp = ENZYMES[enz]
    tlen = kw.pop("tlen", rng.randrange(2, 60))
    blen = kw.pop("blen", rng.randrange(2, 50))
    seq, pieces = build_plasmid(rng, [site, sp, oh_s, tlen, oh_e, sp, rc(site), blen])
    seq = mixed_case(rng, seq)
    frag_len = 4 + tlen
    return decorate(rng, seq, ident, **kw), frag_len


def make_vector(rng, enz, oh_first, oh_last, ident, left=None, right=None, **kw):
    _, site, sp = ENZYMES[enz]
    left = [rng.randrange(1, 40)] if left is None else left
    right = [rng.randrange(1, 40)] if right is None else right
    plen = rng.randrange(0, 30)
    parts = left + [oh_first, sp, rc(site), plen, site, sp, oh_last] + right
    seq, pieces = build_plasmid(rng, parts)
    seq = mixed_case(rng, seq)
    frag_len = 4 + sum(len(p) for p in pieces[len(left) + 7 :]) + sum(len(p) for p in pieces[: len(left)])
    return decorate(rng, seq, ident, **kw), frag_len


class Scenario(object):
    pass


def _make_scenario(rng, enz, tag, nmod=None, unused=0, shuffle=True, outer=None, **kw):
    """A complete assembly: vector + chain of modules (+ unused modules).

    outer = (enzyme, ohX, ohY): make the vector backbone carry sites of another
    enzyme so that the product is a module for the next level.
    """
    sc = Scenario()
    nmod = nmod or rng.randrange(1, 5)
    ohs = rand_overhangs(rng, nmod + 1 + 2 * unused + 2)
    chain = ohs[: nmod + 1]
    left = right = None
    if outer is not None:
        oenz, ohx, ohy = outer
        _, osite, osp = ENZYMES[oenz]
        left = [rng.randrange(1, 30), osite, osp, ohx]
        right = [ohy, osp, rc(osite), rng.randrange(1, 30)]
    vrec, vlen = make_vector(rng, enz, chain[0], chain[-1], tag + "_vec", left, right, **kw)
    sc.vector = VEC[enz](vrec)
    sc.modules, sc.fragments = [], []
    for i in range(nmod):
        mrec, mlen = make_module(rng, enz, chain[i], chain[i + 1], "%s_m%d" % (tag, i), **kw)
        sc.modules.append(MOD[enz](mrec))
        sc.fragments.append((mrec.id, mlen))
    sc.fragments.append((vrec.id, vlen))
    sc.unused = []
    for j in range(unused):
        a, b = ohs[nmod + 1 + 2 * j], ohs[nmod + 2 + 2 * j]
        urec, _ = make_module(rng, enz, a, b, "%s_u%d" % (tag, j), **kw)
        sc.unused.append(MOD[enz](urec))
    sc.supplied = sc.modules + sc.unused
    if shuffle:
        rng.shuffle(sc.supplied)
    sc.enzyme = enz
    sc.tag = tag
    return sc


def make_scenario(rng, enz, tag, **kw):
    while True:
        try:
            return _make_scenario(rng, enz, tag, **kw)
        except Retry:
            continue

# --- differential digest -------------------------------------------------------

from moclo.core import _utils as core_utils  # noqa: E402
from moclo.core._assembly import AssemblyManager  # noqa: E402

LINES = []


def emit(*args):
    line = " | ".join(str(a) for a in args)
    LINES.append(re.sub(r" at 0x[0-9a-fA-F]+", " at 0x?", line))


def qual_value(v):
    if isinstance(v, Reference):
        return ("REF", v.title, v.authors)
    if isinstance(v, (list, tuple)):
        return [qual_value(x) for x in v]
    return v


def describe_feature(f):
    return (
        f.type,
        repr(f.location),
        f.id,
        sorted((k, repr(qual_value(v))) for k, v in f.qualifiers.items()),
    )


def describe_record(rec):
    if rec is None:
        return None
    ants = []
    for k in sorted(rec.annotations):
        ants.append((k, repr(qual_value(rec.annotations[k]))))
    return (
        type(rec).__name__,
        rec.id,
        rec.name,
        rec.description,
        str(rec.seq),
        list(rec.dbxrefs),
        ants,
        [describe_feature(f) for f in rec.features],
        sorted(rec.letter_annotations),
    )


def describe_error(e):
    out = [type(e).__name__, str(e), [c.__name__ for c in type(e).__mro__[1:4]]]
    for attr in ("details", "start_overhang"):
        if hasattr(e, attr):
            out.append((attr, str(getattr(e, attr))))
    for attr in ("duplicates", "remaining"):
        if hasattr(e, attr):
            out.append((attr, [x.record.id for x in getattr(e, attr)]))
    if hasattr(e, "sequence"):
        out.append(("sequence", str(getattr(e.sequence, "id", e.sequence))))
    out.append(("cause", repr(e.__cause__), e.__suppress_context__, type(e.__context__).__name__))
    return out


def attempt(label, fn, inputs=(), action="always"):
    with warnings.catch_warnings(record=True) as caught:
        warnings.simplefilter(action)
        try:
            res = fn()
            if isinstance(res, SeqRecord):
                out = ("OK", describe_record(res))
            elif isinstance(res, Seq):
                out = ("OK", "Seq", str(res))
            else:
                out = ("OK", repr(res))
        except Exception as e:  # noqa
            out = ("EXC", describe_error(e))
            res = None
    emit(label, out)
    emit(label, "warnings", [(w.category.__name__, str(w.message)) for w in caught])
    for x in inputs:
        emit(label, "input", describe_record(x.record))
    return res


def probe_elements(label, elements):
    for e in elements:
        tag = "%s/%s" % (label, e.record.id)
        attempt(tag + ".is_valid", e.is_valid)
        attempt(tag + ".overhang_start", e.overhang_start)
        attempt(tag + ".overhang_end", e.overhang_end)
        attempt(tag + ".target_sequence", e.target_sequence, [e])
        if hasattr(e, "placeholder_sequence"):
            attempt(tag + ".placeholder_sequence", e.placeholder_sequence, [e])


def equiv_complete(rng, n):
    for i in range(n):
        enz = sorted(ENZYMES)[i % 3]
        sc = make_scenario(rng, enz, "c%d" % i, unused=rng.choice([0, 0, 1, 2]), shuffle=rng.random() < 0.7)
        kwargs = rng.choice(
            [{}, {"id": "i%d" % i}, {"name": "n%d" % i}, {"id": "I%d" % i, "name": "N%d" % i}, {"id": "x", "foo": 1}]
        )
        action = "error" if i % 5 == 4 else "always"
        attempt(
            "complete%d" % i,
            lambda: sc.vector.assemble(*sc.supplied, **kwargs),
            sc.supplied + [sc.vector],
            action=action,
        )
        # assembling twice with the same objects gives the same thing
        if i % 7 == 0:
            attempt("again%d" % i, lambda: sc.vector.assemble(*sc.supplied, **kwargs), sc.supplied + [sc.vector])
        if i % 6 == 0:
            probe_elements("probe%d" % i, sc.supplied + [sc.vector])


def equiv_failing(rng, n):
    for i in range(n):
        enz = sorted(ENZYMES)[i % 3]
        kind = i % 10
        sc = make_scenario(rng, enz, "f%d" % i, nmod=rng.randrange(2, 5), unused=rng.choice([0, 1]))
        supplied = list(sc.supplied)
        vector = sc.vector
        if kind == 0:  # missing module
            supplied.remove(sc.modules[rng.randrange(len(sc.modules))])
        elif kind == 1:  # two modules with the same start overhang
            m = sc.modules[0]
            twin, _ = retrying(make_module, rng, enz, str(m.overhang_start()).upper(), "ACCA", "f%d_twin" % i)
            supplied.insert(rng.randrange(len(supplied) + 1), MOD[enz](twin))
        elif kind == 2:  # reverse-complementing overhangs
            m = sc.modules[-1]
            anti, _ = retrying(make_module, rng, enz, rc(str(m.overhang_start()).upper()), "ACCA", "f%d_anti" % i)
            supplied.append(MOD[enz](anti))
        elif kind == 3:  # vector with identical overhangs
            vrec, _ = retrying(make_vector, rng, enz, "ATGC", "ATGC", "f%d_badvec" % i)
            vector = VEC[enz](vrec)
        elif kind == 4:  # a module that is not a module
            junk = decorate(rng, rand_dna(rng, 60), "f%d_junk" % i)
            supplied.append(MOD[enz](junk))
        elif kind == 5:  # illegal site in a module
            _, site, sp = ENZYMES[enz]
            m = sc.modules[0]
            s = str(m.record.seq)
            bad = CircularRecord(Seq(s + "AA" + site + "AA"), id="f%d_illegal" % i)
            supplied[supplied.index(m)] = MOD[enz](bad)
        elif kind == 6:  # plain SeqRecord (not circular) as module record
            m = sc.modules[-1]
            plain = SeqRecord(m.record.seq, id=m.record.id, name=m.record.name, features=list(m.record.features))
            supplied[supplied.index(m)] = MOD[enz](plain)
        elif kind == 7:  # broken citation
            m = sc.modules[0]
            m.record.features.append(
                SeqFeature(FeatureLocation(0, 3), type="misc_feature", qualifiers={"citation": ["(1)"]})
            )
        elif kind == 8:  # record annotated as linear
            m = sc.modules[0]
            lin = SeqRecord(m.record.seq, id=m.record.id, annotations={"topology": "linear"})
            supplied[supplied.index(m)] = MOD[enz](lin)
        elif kind == 9:  # plain SeqRecord early in the chain, missing module later
            m = sc.modules[0]
            supplied[supplied.index(m)] = MOD[enz](SeqRecord(m.record.seq, id=m.record.id))
            supplied.remove(sc.modules[-1])
        attempt(
            "failing%d.%d" % (i, kind),
            lambda: vector.assemble(*supplied, id="F%d" % i),
            supplied + [vector],
            action="error" if i % 4 == 3 else "always",
        )


def equiv_multi(rng, n):
    for i in range(n):
        k = rng.randrange(1, 4)
        ohs = rand_overhangs(rng, k + 1)
        mods = []
        for j in range(k):
            sc = make_scenario(rng, "BsaI", "x%d_%d" % (i, j), outer=("BpiI", ohs[j], ohs[j + 1]))
            p = attempt(
                "multi%d.inner%d" % (i, j),
                lambda: sc.vector.assemble(*sc.supplied, id="P%d_%d" % (i, j), name="p"),
                sc.supplied + [sc.vector],
            )
            if rng.random() < 0.5:
                p = p >> rng.randrange(len(p))
            mods.append(MOD["BpiI"](p))
        vrec, _ = retrying(make_vector, rng, "BpiI", ohs[0], ohs[-1], "x%d_l1vec" % i)
        vector = VEC["BpiI"](vrec)
        rng.shuffle(mods)
        p = attempt("multi%d" % i, lambda: vector.assemble(*mods, name="L1"), mods + [vector])
        if p is not None:
            buf = io.StringIO()
            with warnings.catch_warnings():
                warnings.simplefilter("ignore")
                SeqIO.write(p, buf, "genbank")
            emit("multi%d.genbank" % i, hashlib.sha256(buf.getvalue().encode()).hexdigest())


def equiv_private(rng, n):
    """The helpers, called the way third-party code could call them today."""
    for i in range(n):
        enz = sorted(ENZYMES)[i % 3]
        sc = make_scenario(rng, enz, "p%d" % i, unused=i % 2)
        src, dst = sc.modules[0].record, SeqRecord(Seq(rand_dna(rng, 30)), id="dst%d" % i)
        attempt("add_as_source%d" % i, lambda: core_utils.add_as_source(src, dst))
        loc = FeatureLocation(3, 9, strand=-1)
        attempt("add_as_source%d.loc" % i, lambda: core_utils.add_as_source(src, dst, loc))
        attempt("add_as_source%d.kw" % i, lambda: core_utils.add_as_source(src, dst, location=loc))
        emit("dst%d" % i, describe_record(dst))
        mgr = AssemblyManager(sc.vector, sc.supplied, "pid%d" % i, "pname%d" % i)
        emit("mgr%d" % i, mgr.id, mgr.name, [e.record.id for e in mgr.elements], mgr.vector is sc.vector)
        attempt("mgr%d.assemble" % i, mgr.assemble, sc.supplied + [sc.vector])
        blank = CircularRecord(Seq("ACGT" * 5), id="blank")
        attempt("mgr%d.annotate" % i, lambda: mgr._annotate_assembly(blank))
        emit("mgr%d.blank" % i, describe_record(blank))
        attempt("mgr%d.generate" % i, lambda: mgr._generate_assembly(mgr._generate_modules_map()))
        mgr2 = AssemblyManager(vector=sc.vector, modules=sc.supplied)
        emit("mgr%d.defaults" % i, mgr2.id, mgr2.name)
        try:
            core_utils.cutter_check(NotImplemented, "X%d" % i)
        except NotImplementedError as e:
            emit("cutter_check", str(e))


def finish():
    digest = hashlib.sha256("\n".join(LINES).encode("utf-8")).hexdigest()
    kinds = {}
    for l in LINES:
        if " | ('EXC'" in l:
            k = l.split("('EXC', ['")[1].split("'")[0]
            kinds[k] = kinds.get(k, 0) + 1
        elif " | ('OK'" in l:
            kinds["OK"] = kinds.get("OK", 0) + 1
    print("lines:", len(LINES), "outcomes:", sorted(kinds.items()))
    print("DIGEST", digest)
    if "--dump" in sys.argv:
        sys.stdout.write("\n".join(LINES) + "\n")


def equiv_support(rng, n):
    """Supporting code touched by the modernisation: records, regex, errors."""
    from moclo.regex import DNARegex

    for i in range(n):
        enz = sorted(ENZYMES)[i % 3]
        sc = make_scenario(rng, enz, "r%d" % i, nmod=2)
        rec = sc.modules[0].record
        k = rng.randrange(-2 * len(rec), 2 * len(rec))
        attempt("rec%d.rshift" % i, lambda: rec >> k)
        attempt("rec%d.lshift" % i, lambda: rec << k)
        a, b = sorted(rng.randrange(len(rec) + 1) for _ in range(2))
        attempt("rec%d.slice" % i, lambda: rec[a:b])
        attempt("rec%d.item" % i, lambda: rec[a % len(rec)])
        attempt("rec%d.revcomp" % i, lambda: rec.reverse_complement(id=True, name=True))
        attempt("rec%d.contains" % i, lambda: (str(rec.seq[-3:] + rec.seq[:3]) in rec, "N" * 7 in rec))
        attempt("rec%d.add" % i, lambda: rec + rec)
        attempt("rec%d.radd" % i, lambda: "ACGT" + rec)
        attempt("rec%d.copy" % i, lambda: CircularRecord(rec))
        attempt("rec%d.linear" % i, lambda: CircularRecord(rec.seq, annotations={"topology": "linear"}))
        la = CircularRecord(Seq("ACGTACGTAC"), id="la", letter_annotations={"q": list(range(10))})
        attempt("rec%d.letters" % i, lambda: (la >> (i % 10)).letter_annotations["q"])
        rx = DNARegex(sc.modules[0].structure())
        for label, target, kw in [
            ("circ", rec, {}),
            ("seq", rec.seq, {}),
            ("seqcirc", rec.seq, {"linear": False}),
            ("plain", SeqRecord(rec.seq, id="x"), {}),
            ("str", str(rec.seq), {}),
            ("pos", rec, {"pos": 3, "endpos": len(rec) - 3}),
        ]:
            def search():
                m = rx.search(target, **kw)
                if m is None:
                    return None
                return (m.start(), m.end(), m.span(2), str(getattr(m.group(1), "seq", m.group(1))),
                        len(m.group(2)), str(getattr(m.group(0), "seq", m.group(0))), m.shift)
            attempt("rx%d.%s" % (i, label), search)
        emit("rx%d" % i, rx.pattern, rx.regex.pattern)
        m0, m1 = sc.modules
        for label, make in [
            ("dup", lambda: errors.DuplicateModules(m0, m1, details="d%d" % i)),
            ("dup0", lambda: errors.DuplicateModules(m0, m1)),
            ("dupx", lambda: errors.DuplicateModules(m0, details=None, other=3)),
            ("miss", lambda: errors.MissingModule(Seq("ATGC"), details="why")),
            ("miss0", lambda: errors.MissingModule("ATGC")),
            ("missx", lambda: errors.MissingModule("ATGC", other=1)),
            ("unused", lambda: errors.UnusedModules(m1, m0, details=i)),
            ("unused0", lambda: errors.UnusedModules(m1)),
            ("invalid", lambda: errors.InvalidSequence(rec.seq[:8], details="x")),
            ("invalid0", lambda: errors.InvalidSequence("ACGT", ValueError("v"))),
            ("illegal", lambda: errors.IllegalSite(rec.seq[:8])),
        ]:
            def build():
                e = make()
                return (type(e).__name__, str(e), [str(getattr(a, "id", a)) if not hasattr(a, "record") else a.record.id for a in e.args],
                        str(getattr(e, "details", None)))
            attempt("err%d.%s" % (i, label), build)
        junk = MOD[enz](CircularRecord(Seq(rand_dna(rng, 40)), id="junk%d" % i))
        attempt("junk%d.valid" % i, junk.is_valid)
        attempt("junk%d.target" % i, junk.target_sequence)
        attempt("junk%d.valid2" % i, junk.is_valid)
        st = m1._match.span(2)[0]
        turned = str((m1.record << st).seq)
        ill = MOD[enz](CircularRecord(Seq(turned[:3] + rc(ENZYMES[enz][1]) + turned[3:]), id="ill%d" % i))
        attempt("ill%d.valid" % i, ill.is_valid)
        attempt("ill%d.valid2" % i, ill.is_valid)
        attempt("ill%d.target" % i, ill.target_sequence)
        attempt("ill%d.start" % i, ill.overhang_start)
    for cls in (AbstractVector, AbstractModule):
        attempt("abstract.%s" % cls.__name__, lambda: cls(CircularRecord(Seq("ACGT"))))
    from moclo.core._structured import StructuredRecord
    emit("mro", [c.__name__ for c in AbstractModule.__mro__ if c.__name__ != "ABC"], type(StructuredRecord).__name__)
    attempt("structured.abstract", lambda: StructuredRecord(CircularRecord(Seq("ACGT"))))


def main():
    rng = random.Random(4242)
    equiv_complete(rng, 150)
    equiv_failing(rng, 100)
    equiv_multi(rng, 20)
    equiv_private(rng, 30)
    equiv_support(rng, 40)
    finish()


if __name__ == "__main__":
    main()
