# coding: utf-8
"""Differential test for the code C12 depends on.

Exercises, through the existing API only, the circular regex search, the
captured groups, the rotation / reverse complement of circular records, the
module / vector classes (generic ones with several enzymes, and every class
of every kit on every plasmid of the bundled registries), and the assembly
(successful and failing ones, citations, warnings), then prints a digest of
everything that was observed: return values, exception types / messages /
args, warnings, and the state of the inputs afterwards.

Set ``EQUIV_DUMP=/some/file`` to also write the observations to a file.
"""
import hashlib
import os
import random
import re
import sys
import warnings

sys.path.insert(0, "/tmp/agents9/C12")
import tests  # noqa: F401,E402

warnings.simplefilter("ignore")

import six  # noqa: E402
from Bio import Restriction  # noqa: E402
from Bio.Seq import Seq  # noqa: E402
from Bio.SeqFeature import SeqFeature, FeatureLocation, CompoundLocation, Reference  # noqa: E402
from Bio.SeqRecord import SeqRecord  # noqa: E402

import moclo.core  # noqa: E402
import moclo.errors  # noqa: E402
from moclo.core import modules, vectors, parts  # noqa: E402
from moclo.core._structured import StructuredRecord  # noqa: E402
from moclo.kits import cidar, ecoflex, moclo as moclo_kit, plant, ytk  # noqa: E402
from moclo.record import CircularRecord  # noqa: E402
from moclo.regex import DNARegex, SeqMatch  # noqa: E402
from moclo.registry.cidar import CIDARRegistry  # noqa: E402
from moclo.registry.ecoflex import EcoFlexRegistry  # noqa: E402
from moclo.registry.plant import PlantRegistry  # noqa: E402
from moclo.registry.ytk import YTKRegistry, PTKRegistry  # noqa: E402

rng = random.Random(20260927)
LINES = []


_ADDRESS = re.compile(r" at 0x[0-9a-fA-F]+")


def out(*items):
    # default `object.__repr__` texts end up in some messages: drop the addresses
    LINES.append(_ADDRESS.sub(" at 0x?", " | ".join(str(i) for i in items)))


# --- Rendering helpers --------------------------------------------------------


def show(value):
    """Render a value without object addresses."""
    if isinstance(value, StructuredRecord):
        return "<{} {}>".format(type(value).__name__, value.record.id)
    if isinstance(value, SeqRecord):
        return "<{} {} {}>".format(type(value).__name__, value.id, str(value.seq))
    if isinstance(value, Seq):
        return "Seq({})".format(str(value))
    if isinstance(value, Reference):
        return "Ref({})".format(value.title)
    if isinstance(value, (tuple, list)):
        return "[" + ", ".join(show(v) for v in value) + "]"
    if isinstance(value, dict):
        return "{" + ", ".join("{}: {}".format(k, show(v)) for k, v in sorted(value.items())) + "}"
    return repr(value)


def show_feature(f):
    quals = sorted((k, show(v)) for k, v in f.qualifiers.items())
    return "{}@{}:{}:{}".format(f.type, f.location, f.id, quals)


def show_record(r, full=True):
    if r is None:
        return "None"
    items = [type(r).__name__, r.id, r.name, r.description, str(r.seq)]
    if full:
        items.append(sorted((k, show(v)) for k, v in r.annotations.items()))
        items.append([show_feature(f) for f in r.features])
        items.append(sorted(r.letter_annotations.items()))
        items.append(list(r.dbxrefs))
    return show_short(items)


def show_short(items):
    text = repr(items)
    if len(text) > 400:
        text = text[:120] + "..." + hashlib.sha256(text.encode("utf-8")).hexdigest()
    return text


def attempt(label, func, *args, **kwargs):
    """Call a function, record the result or the exception, and the warnings."""
    render = kwargs.pop("render", show)
    with warnings.catch_warnings(record=True) as caught:
        warnings.simplefilter("always")
        try:
            result = func(*args, **kwargs)
        except Exception as e:  # noqa
            attrs = sorted(
                (k, show(v)) for k, v in vars(e).items() if not k.startswith("__")
            )
            out(label, "RAISES", type(e).__name__, show_short(str(e)), show(e.args), attrs,
                "cause={}".format(type(e.__cause__).__name__),
                "suppress={}".format(e.__suppress_context__))
            result = None
        else:
            out(label, "->", render(result))
    for w in caught:
        if issubclass(w.category, (moclo.errors.MocloError, UserWarning)):
            msg = w.message
            out(label, "WARNS", w.category.__name__, str(msg), show(getattr(msg, "args", ())),
                os.path.basename(w.filename))
    return result


# --- Sequence builders ---------------------------------------------------------


def rc(s):
    return str(Seq(s).reverse_complement())


def rand(n):
    return "".join(rng.choice("ACGT") for _ in range(n))


def fill(pattern):
    return "".join(rng.choice("ACGT") if c == "N" else c for c in pattern)


def nsites(enzyme, s):
    return len(enzyme.search(Seq(s.upper()), linear=False))


def halves(enzyme):
    pre, rest = enzyme.elucidate().split("^")
    ovhg, post = rest.split("_")
    return pre, len(ovhg), post


def build_module(enzyme, start, end, nbody=9, nbackbone=11, sites=2):
    pre, _, post = halves(enzyme)
    while True:
        s = "".join(
            [fill(pre), start, rand(nbody + 2 * len(post)), end, rc(fill(pre)), rand(nbackbone)]
        )
        if sites == 3:
            s += enzyme.site + rand(4)
        if nsites(enzyme, s) == sites:
            return s


def build_vector(enzyme, end, start, nplaceholder=7, nbackbone=13):
    pre, _, post = halves(enzyme)
    while True:
        s = "".join(
            [fill(post), end, rc(fill(pre)), rand(nplaceholder), fill(pre), start, fill(post), rand(nbackbone)]
        )
        if nsites(enzyme, s) == 2:
            return s


def mixcase(s):
    return "".join(c.lower() if rng.random() < 0.5 else c for c in s)


def annotated(seq, id_, ncit=0, nrefs=0, topology="circular"):
    """A plasmid with features (one of them through the origin) and citations."""
    n = len(seq)
    feats = [
        SeqFeature(FeatureLocation(0, n, 1), type="source", qualifiers={"label": [id_]}),
        SeqFeature(FeatureLocation(2, 9, 1), type="CDS", qualifiers={"label": ["a"]}),
        SeqFeature(FeatureLocation(n // 2, n - 3, -1), type="promoter", qualifiers={}),
        SeqFeature(
            CompoundLocation([FeatureLocation(n - 5, n, 1), FeatureLocation(0, 4, 1)]),
            type="misc_feature",
            qualifiers={"note": ["wraps"]},
        ),
    ]
    refs = []
    for i in range(nrefs):
        ref = Reference()
        ref.title = "{} ref {}".format(id_, i)
        refs.append(ref)
    for i in range(ncit):
        feats[1 + i % 3].qualifiers.setdefault("citation", []).append("[{}]".format(1 + i % max(nrefs, 1)))
    ann = {"topology": topology, "molecule_type": "DNA"}
    if nrefs:
        ann["references"] = refs
    return CircularRecord(Seq(seq), id=id_, name=id_, description="d " + id_, features=feats, annotations=ann)


# --- 1. Regex -----------------------------------------------------------------

text = "ATGCAGCATAGGTCTCAATGCCCGAGACCTTAA"
for pattern in ["AA(NN)", "GGTCTCN(NNNN)(NN*N)(NNNN)NGAGACC", "(N)(TAA)(AT)", "(RY)(N*)(KM)", "TTAAATG", "N(N*)N"]:
    rx = DNARegex(pattern)
    out("pattern", pattern, rx.pattern, rx.regex.pattern)
    for make in (Seq, lambda s: SeqRecord(Seq(s), id="r"), lambda s: CircularRecord(Seq(s), id="c"), mixcase):
        for linear in (True, False):
            for pos, endpos in [(0, six.MAXSIZE), (3, six.MAXSIZE), (0, 10), (30, 33), (32, 40), (5, 5)]:
                target = make(text)
                if isinstance(target, str):
                    target = Seq(target)

                def search():
                    m = rx.search(target, pos, endpos, linear=linear)
                    if m is None:
                        return None
                    groups = range(m.match.re.groups + 1)
                    return (m.start(), m.end(), m.span(), m.shift, type(m.rec).__name__,
                            [(m.span(g), show(m.group(g))) for g in groups])
                attempt("search {} {} {} {} {}".format(pattern, type(target).__name__, linear, pos, endpos), search)
attempt("search str", DNARegex("NN").search, "ATGC")
attempt("search none", DNARegex("NN").search, None)
attempt("search empty", DNARegex("N*").search, Seq(""))
attempt("search kw", lambda: DNARegex("GCAT").search(string=Seq("ATGC"), linear=False).span())

# SeqMatch built by hand on every span of a doubled sequence
for rec in (Seq("ATGCCGTA"), SeqRecord(Seq("ATGCCGTA"), id="r"), CircularRecord(Seq("ATGCCGTA"), id="c")):
    n = len(rec)
    data = str(rec.seq if isinstance(rec, SeqRecord) else rec) * 2
    for a in range(0, 2 * n + 1):
        for b in range(a, min(a + n, 2 * n) + 1):
            m = re.compile("(.{%d})" % (b - a)).match(data, a)
            attempt("group {} {} {}".format(type(rec).__name__, a, b), lambda: SeqMatch(m, rec).group(1))
attempt("group empty", lambda: SeqMatch(re.match("(A*)", ""), Seq("")).group(1))

# --- 2. Circular records ------------------------------------------------------

base = annotated("ATGCATTTGCAGGCATACGAT", "plasmid", ncit=2, nrefs=2)
base.letter_annotations["q"] = list(range(len(base)))
for k in [0, 1, 2, 5, 20, 21, 22, 43, -1, -4, -21, -30]:
    attempt("rshift {}".format(k), lambda: base >> k, render=show_record)
    attempt("lshift {}".format(k), lambda: base << k, render=show_record)
    attempt("rshift-lshift {}".format(k), lambda: (base >> k) << k, render=show_record)
    attempt("double {}".format(k), lambda: (base >> k) >> 7, render=show_record)
attempt("rshift same", lambda: (base >> 21) is base)
attempt("rshift str", lambda: base >> "a")
attempt("rshift float", lambda: (base >> 2.0))
attempt("rshift empty", lambda: CircularRecord(Seq(""), id="e") >> 1)
attempt("lshift empty", lambda: CircularRecord(Seq(""), id="e") << 1)
none_loc = CircularRecord(Seq("ATGC"), id="n", features=[SeqFeature(None, type="x")])
attempt("rshift none location", lambda: none_loc >> 1, render=show_record)
for flags in [{}, {"id": True}, {"name": "x", "annotations": True}, {"features": False, "letter_annotations": False},
              {"description": True, "dbxrefs": True}]:
    attempt("revcomp {}".format(sorted(flags)), lambda: base.reverse_complement(**flags), render=show_record)
attempt("revcomp positional", lambda: base.reverse_complement(True, True), render=show_record)
attempt("revcomp twice", lambda: base.reverse_complement().reverse_complement(), render=show_record)
attempt("revcomp rotated", lambda: (base >> 4).reverse_complement(), render=show_record)
for item in ["ATGC", "GATATG", "ATGCATTTGCAGGCATACGATA", Seq("CGATAT"), ""]:
    attempt("contains {}".format(item), lambda: item in base)
for idx in [0, -1, slice(2, 8), slice(None, None), slice(15, 3), slice(0, 30, 2)]:
    attempt("getitem {}".format(idx), lambda: base[idx], render=lambda r: show_record(r) if isinstance(r, SeqRecord) else show(r))
attempt("add", lambda: base + base)
attempt("radd", lambda: "A" + base)
attempt("init linear", lambda: CircularRecord(SeqRecord(Seq("A"), annotations={"topology": "linear"})))
attempt("init copy", lambda: CircularRecord(base), render=show_record)
attempt("base untouched", lambda: base, render=show_record)

# --- 3. Generic modules and vectors -------------------------------------------

ENZYMES = ["BsaI", "BsmBI", "BpiI", "SapI", "AarI", "HgaI", "FauI", "FokI", "BbvI", "EcoRI", "BbvCI"]


def describe(entity, fragments=True):
    def inner():
        res = [entity.is_valid()]
        res.append((show(entity.overhang_start()), show(entity.overhang_end())))
        if fragments:
            res.append(show_record(entity.target_sequence()))
            if isinstance(entity, vectors.AbstractVector):
                res.append(show_record(entity.placeholder_sequence()))
        return res
    return inner


generic = {}
for name in ENZYMES:
    enzyme = getattr(Restriction, name)
    M = type(str("Module" + name), (modules.AbstractModule,), {"cutter": enzyme})
    V = type(str("Vector" + name), (vectors.AbstractVector,), {"cutter": enzyme})
    generic[name] = (M, V)
    attempt("structure " + name, lambda: (M.structure(), V.structure()))
    if name in ("EcoRI", "BbvCI"):
        rec = CircularRecord(Seq("TTGAATTCAAACCCGAATTCTT" if name == "EcoRI" else "TTCCTCAGCAAACCCGCTGAGGTT"), id="x")
        for rot in range(0, len(rec), 3):
            attempt("{} palindromic {}".format(name, rot), describe(M(rec >> rot)))
            attempt("{} palindromic vector {}".format(name, rot), describe(V(rec >> rot)))
        continue
    k = halves(enzyme)[1]
    ovhgs = []
    while len(ovhgs) < 4:
        o = rand(k)
        if o != rc(o) and all(o != x and o != rc(x) for x in ovhgs):
            ovhgs.append(o)
    for case in ("upper", "mixed"):
        mods = [build_module(enzyme, ovhgs[i], ovhgs[i + 1]) for i in range(3)]
        vec = build_vector(enzyme, ovhgs[0], ovhgs[3])
        if case == "mixed":
            mods, vec = [mixcase(m) for m in mods], mixcase(vec)
        step = 1 if name in ("BsaI", "SapI", "HgaI") else 4
        for rot in range(0, len(mods[0]), step):
            rec = annotated(mods[0], "m0") >> rot
            attempt("{} {} module {}".format(name, case, rot), describe(M(rec)))
            attempt("{} {} module rc {}".format(name, case, rot), describe(M(rec.reverse_complement())))
            attempt("{} {} module as vector {}".format(name, case, rot), describe(V(rec)))
            plain = SeqRecord(rec.seq, id="p", annotations={"topology": "circular"})
            attempt("{} {} plain module {}".format(name, case, rot), describe(M(plain), fragments=False))
            attempt("{} {} plain module frag {}".format(name, case, rot), M(plain).target_sequence)
            lin = SeqRecord(rec.seq, id="l", annotations={"topology": "Linear"})
            attempt("{} {} linear module {}".format(name, case, rot), describe(M(lin), fragments=False))
            bare = SeqRecord(rec.seq, id="b")
            attempt("{} {} bare module {}".format(name, case, rot), describe(M(bare), fragments=False))
        for rot in range(0, len(vec), step):
            rec = annotated(vec, "v") >> rot
            attempt("{} {} vector {}".format(name, case, rot), describe(V(rec)))
            attempt("{} {} vector rc {}".format(name, case, rot), describe(V(rec.reverse_complement())))
            attempt("{} {} vector as module {}".format(name, case, rot), describe(M(rec)))
            plain = SeqRecord(rec.seq, id="p", annotations={"topology": "circular"})
            attempt("{} {} plain vector {}".format(name, case, rot), describe(V(plain), fragments=False))
        # assemblies
        for rot in range(0, 40, 7):
            v = annotated(vec, "vec", ncit=2, nrefs=2) >> (rot % len(vec))
            ms = [annotated(m, "mod{}".format(i), ncit=i, nrefs=i) >> ((rot + 5 * i) % len(m)) for i, m in enumerate(mods)]
            inputs = [v] + ms
            order = list(ms)
            rng.shuffle(order)
            attempt("{} {} assembly {}".format(name, case, rot),
                    lambda: V(v).assemble(*[M(m) for m in order]), render=show_record)
            attempt("{} {} assembly named {}".format(name, case, rot),
                    lambda: V(v).assemble(*[M(m) for m in ms], id="X", name="Y", other=1), render=show_record)
            attempt("{} {} assembly rc {}".format(name, case, rot),
                    lambda: V(v.reverse_complement(annotations=True)).assemble(
                        *[M(m.reverse_complement(annotations=True)) for m in ms]),
                    render=show_record)
            attempt("{} {} assembly bare rc {}".format(name, case, rot),
                    lambda: V(v.reverse_complement()).assemble(*[M(m.reverse_complement()) for m in ms]),
                    render=show_record)
            # failing ones
            attempt("{} {} missing {}".format(name, case, rot),
                    lambda: V(v).assemble(M(ms[0]), M(ms[2])), render=show_record)
            attempt("{} {} duplicate {}".format(name, case, rot),
                    lambda: V(v).assemble(M(ms[0]), M(ms[1]), M(ms[2]), M(ms[1] >> 3)), render=show_record)
            attempt("{} {} not a module {}".format(name, case, rot),
                    lambda: V(v).assemble(M(ms[0]), M(v)), render=show_record)
            attempt("{} {} not a vector {}".format(name, case, rot),
                    lambda: V(ms[0]).assemble(M(ms[0])), render=show_record)
            for r in inputs:
                out("input after", show_record(r))
        # unused module, reverse-complementing overhangs, vector with twice the same overhang
        extra = annotated(build_module(enzyme, rc(ovhgs[1]), ovhgs[0]), "extra")
        other = annotated(build_module(enzyme, rc(ovhgs[3]) if k > 1 else "A", ovhgs[2]), "other")
        v = annotated(vec, "vec")
        ms = [annotated(m, "mod{}".format(i)) for i, m in enumerate(mods)]
        attempt("{} {} unused".format(name, case),
                lambda: V(v).assemble(*[M(m) for m in ms + [other]]), render=show_record)
        attempt("{} {} reverse-complementing".format(name, case),
                lambda: V(v).assemble(*[M(m) for m in ms + [extra]]), render=show_record)
        same = annotated(build_vector(enzyme, ovhgs[0], mixcase(ovhgs[0])), "same")
        attempt("{} {} same overhangs".format(name, case), lambda: V(same).assemble(M(ms[0])), render=show_record)
        bad = annotated(mods[0], "badcit")
        bad.features[1].qualifiers["citation"] = ["1"]
        attempt("{} {} bad citation".format(name, case), lambda: V(v).assemble(M(bad), M(ms[1]), M(ms[2])), render=show_record)
        out("bad after", show_record(bad), show_record(v))
        # three sites
        three = annotated(build_module(enzyme, ovhgs[0], ovhgs[1], sites=3), "three")
        for rot in range(0, len(three), 9):
            attempt("{} {} three sites {}".format(name, case, rot), describe(M(three >> rot)))
        entity = M(three)
        attempt("three twice", lambda: (entity.is_valid(), entity.is_valid()))

for name in ["BtsI", "BsrDI", "PstI", "EcoRV", "BaeI"]:
    enzyme = getattr(Restriction, name)
    attempt("unsupported " + name, lambda: type(str("M"), (modules.AbstractModule,), {"cutter": enzyme})(base).is_valid())
    attempt("unsupported vector " + name, lambda: type(str("V"), (vectors.AbstractVector,), {"cutter": enzyme})(base).is_valid())
attempt("no cutter", lambda: modules.Entry(base))
attempt("no cutter vector", lambda: vectors.EntryVector(base))
attempt("invalid", describe(generic["BsaI"][0](CircularRecord(Seq("ATG"), id="tiny"))))
attempt("invalid vector", describe(generic["BsaI"][1](CircularRecord(Seq("ATG"), id="tiny"))))
attempt("bad topology", lambda: generic["BsaI"][0](SeqRecord(Seq("ATG"), annotations={"topology": 1})).is_valid())


# custom structure with a 3' overhang enzyme
class ThreeModule(modules.AbstractModule):
    cutter = Restriction.BtsI

    @classmethod
    def structure(cls):
        return "GCAGTG(NN)(NN*N)(NN)CACTGC"


class ThreeVector(vectors.AbstractVector):
    cutter = Restriction.BtsI

    @classmethod
    def structure(cls):
        return "(NN)(CACTGCN*GCAGTG)(NN)"


rec3 = annotated("AAAGCAGTGCTTTTAAAAAGACACTGCTTT", "three-prime")
vec3 = annotated("TTGACACTGCAAAAAGCAGTGCTAAAATT", "three-prime-vector")
for rot in range(0, 30, 2):
    attempt("3' module {}".format(rot), describe(ThreeModule(rec3 >> rot)))
    attempt("3' vector {}".format(rot), describe(ThreeVector(vec3 >> (rot % len(vec3)))))
attempt("3' assembly", lambda: ThreeVector(vec3).assemble(ThreeModule(rec3)), render=show_record)

# --- 4. Kits and registries ---------------------------------------------------

KITS = [cidar, ecoflex, moclo_kit, plant, ytk]
classes = []
for kit in KITS:
    for attr in sorted(dir(kit)):
        obj = getattr(kit, attr)
        if isinstance(obj, type) and issubclass(obj, StructuredRecord) and obj.__module__ == kit.__name__:
            classes.append(obj)
            attempt("kit structure {}.{}".format(kit.__name__, attr), obj.structure)
            out("kit class", attr, [b.__name__ for b in obj.__mro__], getattr(obj, "signature", None),
                getattr(obj, "cutter", None), getattr(obj, "_level", None))

for make in (CIDARRegistry, EcoFlexRegistry, PlantRegistry, YTKRegistry, PTKRegistry):
    registry = make()
    for key in sorted(registry):
        item = registry[key]
        entity = item.entity
        out("registry", make.__name__, key, type(entity).__name__, item.resistance)
        attempt("registry entity " + key, describe(entity))
        if not isinstance(entity, parts.AbstractPart):
            rec = entity.record
            attempt("registry rc " + key, describe(type(entity)(rec.reverse_complement())))
            for rot in (1, len(rec) // 3, len(rec) - 7):
                attempt("registry rot {} {}".format(rot, key), describe(type(entity)(rec >> rot)))
        valid = []
        for cls in classes:
            try:
                if cls(entity.record).is_valid():
                    valid.append(cls.__name__)
            except Exception as e:  # noqa
                valid.append("{}!{}".format(cls.__name__, type(e).__name__))
        out("registry valid as", key, valid)

registry = CIDARRegistry()
for vec, names in [("DVK_EF", ("J23102_EB", "BCD2_BC", "E1010m_CD", "B0015_DF")),
                   ("DVA_AE", ("J23102_AB", "BCD2_BC", "E1010m_CD", "B0015_DE")),
                   ("DVK_AE", ("J23102_AB", "BCD2_BC", "E1010m_CD")),
                   ("DVK_AE", ("J23102_AB", "J23102_AB", "BCD2_BC", "E1010m_CD", "B0015_DE")),
                   ("DVK_AE", ("J23102_AB", "BCD2_BC", "E1010m_CD", "B0015_DE", "B0015_DF"))]:
    vector = registry[vec].entity
    mods = [registry[n].entity for n in names]
    attempt("cidar assembly {} {}".format(vec, names), lambda: vector.assemble(*mods), render=show_record)
    attempt("cidar assembly rc {} {}".format(vec, names),
            lambda: type(vector)(vector.record.reverse_complement()).assemble(
                *[type(m)(m.record.reverse_complement()) for m in mods]), render=show_record)
    for e in [vector] + mods:
        out("cidar input after", show_record(e.record))

# EcoFlex: cassette vectors with synthetic entries carrying their overhangs
registry = EcoFlexRegistry()
for key in sorted(registry):
    entity = registry[key].entity
    if isinstance(entity, vectors.AbstractVector):
        a, b = str(entity.overhang_end()), str(entity.overhang_start())
        mod_cls = ecoflex.EcoFlexEntry if entity.cutter is Restriction.BsaI else ecoflex.EcoFlexCassette
        insert = CircularRecord(Seq(build_module(entity.cutter, a, b)), id="insert")
        attempt("ecoflex assembly " + key, lambda: entity.assemble(mod_cls(insert)), render=show_record)
        attempt("ecoflex assembly rc " + key,
                lambda: type(entity)(entity.record.reverse_complement()).assemble(mod_cls(insert.reverse_complement())),
                render=show_record)

# --- Digest -------------------------------------------------------------------

if os.environ.get("EQUIV_DUMP"):
    with open(os.environ["EQUIV_DUMP"], "w") as f:
        f.write("\n".join(LINES) + "\n")
digest = hashlib.sha256("\n".join(LINES).encode("utf-8")).hexdigest()
print("{} observations, digest {}".format(len(LINES), digest))
