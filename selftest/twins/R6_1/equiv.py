# coding: utf-8
"""Differential test for moclo.regex, moclo.core._structured, moclo.core.modules.

Prints a sha256 digest over the repr of every observed result (exceptions are
recorded by type name and message).  The digest must be identical on the
pristine tree and on the refactored tree.
"""
import sys

sys.path.insert(0, "/tmp/agentsR/R6")
import tests  # noqa: E402,F401  (splices the kit packages in the moclo namespace)

import hashlib  # noqa: E402
import random  # noqa: E402
import warnings  # noqa: E402

warnings.simplefilter("ignore")

from Bio.Seq import Seq, MutableSeq  # noqa: E402
from Bio.SeqRecord import SeqRecord  # noqa: E402
from Bio.SeqFeature import SeqFeature, FeatureLocation  # noqa: E402
from Bio import Restriction  # noqa: E402

from moclo import errors  # noqa: E402
from moclo.record import CircularRecord  # noqa: E402
from moclo.regex import DNARegex, SeqMatch  # noqa: E402
from moclo.core._structured import StructuredRecord  # noqa: E402
from moclo.core import modules as M  # noqa: E402
from moclo.core import vectors as V  # noqa: E402
from moclo.core.parts import AbstractPart  # noqa: E402

RNG = random.Random(20260926)
OUT = []
COUNT = [0]


def canon(x):
    if isinstance(x, SeqRecord):
        return (
            "REC",
            type(x).__name__,
            str(x.seq),
            x.id,
            x.name,
            x.description,
            sorted((k, repr(v)) for k, v in x.annotations.items()),
            [
                (f.type, str(f.location), sorted((k, repr(v)) for k, v in f.qualifiers.items()))
                for f in x.features
            ],
            list(x.dbxrefs),
        )
    if isinstance(x, Seq):
        return ("SEQ", str(x))
    if isinstance(x, SeqMatch):
        return ("MATCH", x.match.span(), x.shift, type(x.rec).__name__)
    if isinstance(x, DNARegex):
        return ("RX", x.pattern, x.regex.pattern, x.regex.flags)
    if isinstance(x, (tuple, list)):
        return [canon(y) for y in x]
    return repr(x)


def rec(label, func, *args, **kwargs):
    COUNT[0] += 1
    try:
        res = ("ok", canon(func(*args, **kwargs)))
    except Exception as e:  # noqa
        res = ("exc", type(e).__name__, str(e))
    OUT.append(repr((label, res)))
    return res


def randseq(n, alphabet="ACGT"):
    return "".join(RNG.choice(alphabet) for _ in range(n))


def mixcase(s):
    return "".join(c.lower() if RNG.random() < 0.4 else c.upper() for c in s)


def rot(s, k):
    if not s:
        return s
    k %= len(s)
    return s[k:] + s[:k]


def revcomp(s):
    return str(Seq(s).reverse_complement())


def wrap(s, kind, ident="rec", topology=None):
    if kind == "seq":
        return Seq(s)
    annotations = {"molecule_type": "DNA"}
    if topology is not None:
        annotations["topology"] = topology
    feats = []
    if len(s) > 6:
        feats.append(
            SeqFeature(FeatureLocation(1, min(len(s), 5), 1), type="misc_feature", qualifiers={"label": ["f1"]})
        )
        feats.append(
            SeqFeature(FeatureLocation(len(s) // 2, len(s) - 1, -1), type="CDS", qualifiers={"label": ["f2"]})
        )
    if kind == "rec":
        return SeqRecord(Seq(s), id=ident, name=ident + "_n", description="d", features=feats, annotations=annotations)
    return CircularRecord(Seq(s), id=ident, name=ident + "_n", description="d", features=feats, annotations=annotations)


# --------------------------------------------------------------------------
# 1. DNARegex: transcription, compilation, search
# --------------------------------------------------------------------------

PATTERNS = [
    "AA(NN)",
    "GGTCTCN(NNNN)(N*)(NNNN)NGAGACC",
    "(A)(C)?G",
    "N*",
    "",
    "RY(W*)S",
    "ggtctc",
    "B(DH)K",
    "(?P<x>AC)(G|T)",
    "M(V)N{2,3}",
    "GAAGACNN(NNNN)(NN*N)(NNNN)NNGTCTTC",
    "T(N*?)A",
    "bdhkmnrsvwy",
]


def test_transcribe():
    for p in PATTERNS + [randseq(RNG.randint(0, 12), "ACGTNBDHKMRSVWYacgtn()*?") for _ in range(60)]:
        rec(("transcribe", p), DNARegex._transcribe, p)
        rec(("compile", p), DNARegex, p)


def match_probe(label, m):
    if m is None:
        OUT.append(repr((label, None)))
        return
    ngroups = m.match.re.groups
    rec((label, "start"), m.start)
    rec((label, "end"), m.end)
    rec((label, "span"), m.span)
    rec((label, "group"), m.group)
    rec((label, "attrs"), lambda: (m.shift, m.rec is not None, type(m.rec).__name__))
    for i in range(ngroups + 2):
        rec((label, "span", i), m.span, i)
        rec((label, "group", i), m.group, i)
    for name in m.match.re.groupindex:
        rec((label, "span", name), m.span, name)
        rec((label, "group", name), m.group, name)


def test_search():
    regexes = [DNARegex(p) for p in PATTERNS]
    for it in range(500):
        rx = RNG.choice(regexes)
        n = RNG.choice([0, 1, 2, 3, 5, 8, 13, 21, 34, 40])
        s = randseq(n, RNG.choice(["ACGT", "AC", "ACGTN", "AG"]))
        if RNG.random() < 0.3 and n >= 20:
            core = "GGTCTCA" + randseq(4) + randseq(RNG.randint(0, 5)) + randseq(4) + "TGAGACC"
            s = (core + s)[:n]
            s = rot(s, RNG.randint(-50, 50))
        if RNG.random() < 0.5:
            s = mixcase(s)
        kind = RNG.choice(["seq", "rec", "circ"])
        string = wrap(s, kind, topology=RNG.choice([None, "circular"]) if kind == "circ" else RNG.choice([None, "linear", "circular"]))
        kwargs = {}
        r = RNG.random()
        if r < 0.3:
            kwargs["pos"] = RNG.randint(-3, n + 5)
        if 0.2 < r < 0.5:
            kwargs["endpos"] = RNG.randint(-3, n + 5)
        if RNG.random() < 0.5:
            kwargs["linear"] = RNG.choice([True, False])
        label = ("search", it, rx.pattern, s, kind, sorted(kwargs.items()))
        try:
            m = rx.search(string, **kwargs)
        except Exception as e:  # noqa
            OUT.append(repr((label, "exc", type(e).__name__, str(e))))
            continue
        match_probe(label, m)
    # positional arguments
    rx = DNARegex("AA(NN)")
    match_probe("positional", rx.search(Seq("ATGCAGCATA"), 0, 10, False))
    match_probe("positional2", rx.search(Seq("ATGCAGCATA"), 2, 9, False))
    match_probe("positional3", rx.search(Seq("ATGCAAGCATA"), 5))
    match_probe("default", rx.search(Seq("ATGCAAGCAATA")))
    # invalid types
    for bad in ["ATGC", b"ATGC", None, 12, ["A"], MutableSeq("ATGC"), ("A", "A"), 1.5, object]:
        for kw in [{}, {"linear": False}, {"pos": 1}]:
            rec(("badtype", repr(type(bad)), sorted(kw.items())), rx.search, bad, **kw)
    # undefined sequences
    for kind in ["seq", "rec"]:
        und = Seq(None, length=6)
        if kind == "rec":
            und = SeqRecord(und, id="u")
        rec(("undefined", kind), rx.search, und)
        rec(("undefined-circ", kind), rx.search, und, linear=False)


class FakeMatch(object):
    """A stand-in for `re.Match` with arbitrary spans."""

    def __init__(self, spans):
        self.spans = spans

    def span(self, index=0):
        return self.spans[index]

    def start(self, index=0):
        return self.spans[index][0]

    def end(self, index=0):
        return self.spans[index][1]


def test_group_grid():
    for n in range(0, 7):
        s = mixcase(randseq(n))
        for kind in ["seq", "rec", "circ"]:
            string = wrap(s, kind)
            for a in range(-2, 2 * n + 4):
                for b in range(-2, 2 * n + 4):
                    m = SeqMatch(FakeMatch([(a, b), (b, a)]), string, shift=a)
                    label = ("grid", n, kind, a, b)
                    rec(label + ("g0",), m.group)
                    rec(label + ("g1",), m.group, 1)
                    rec(label + ("se",), lambda: (m.start(), m.end(), m.span(), m.span(1), m.shift))
                    rec(label + ("g2",), m.group, 2)


# --------------------------------------------------------------------------
# 2. StructuredRecord / AbstractModule (and vectors / parts built upon them)
# --------------------------------------------------------------------------

CUTTERS = ["BsaI", "BsmBI", "BpiI", "SapI", "BtgZI", "AarI", "BtsI"]


def make_classes():
    classes = {}
    for name in CUTTERS:
        cutter = getattr(Restriction, name)
        for base in [M.AbstractModule, M.Product, M.Entry, M.Cassette, M.Device]:
            cname = "{}{}".format(base.__name__, name)
            classes[cname] = type(str(cname), (base,), {"cutter": cutter})
        for base in [V.AbstractVector, V.EntryVector]:
            cname = "{}{}".format(base.__name__, name)
            classes[cname] = type(str(cname), (base,), {"cutter": cutter})
    for name in ["BsaI", "BsmBI", "BpiI"]:
        cutter = getattr(Restriction, name)
        cname = "PartMod{}".format(name)
        classes[cname] = type(
            str(cname), (AbstractPart, M.Entry), {"cutter": cutter, "signature": ("ATGC", "GGTA")}
        )
        cname = "PartVec{}".format(name)
        classes[cname] = type(
            str(cname), (AbstractPart, V.EntryVector), {"cutter": cutter, "signature": ("ATGC", "GGTA")}
        )
    return classes


def fill(template):
    return "".join(RNG.choice("ACGT") if c == "N" else c for c in template if c not in "^_")


def build_sequence(cls, flavour):
    """Build a sequence (string) around the structure of `cls`."""
    cutter = cls.cutter
    up = cutter.elucidate()
    is_vector = issubclass(cls, V.AbstractVector)
    sig = getattr(cls, "signature", None)
    left = fill(up)
    right = revcomp(fill(up))
    if sig is not None and sig is not NotImplemented and RNG.random() < 0.8:
        # force the signature overhangs at the right place
        ov = len(cutter.ovhgseq)
        cut5 = up.replace("_", "").index("^") if cutter.is_5overhang() else up.replace("^", "").index("_")
        upsig, downsig = sig
        left = left[:cut5] + upsig[:ov] + left[cut5 + ov:]
        r = revcomp(right)
        r = r[:cut5] + revcomp(downsig)[:ov] + r[cut5 + ov:]
        right = revcomp(r)
    target = randseq(RNG.choice([0, 0, 1, 2, 5, 12, 30]))
    back = randseq(RNG.choice([0, 3, 10, 40]))
    if is_vector:
        core = right + target + left
    else:
        core = left + target + right
    if flavour == "illegal":
        extra = cutter.site if RNG.random() < 0.5 else revcomp(cutter.site)
        pos = RNG.randint(0, len(target))
        core = core.replace(target, target[:pos] + extra + target[pos:], 1) if target else core
        back = back + extra
    elif flavour == "nosite":
        core = target
    elif flavour == "halfsite":
        core = left + target
    elif flavour == "random":
        core = randseq(RNG.randint(0, 60))
        back = ""
    s = back + core
    s = rot(s, RNG.choice([0, 1, -1, 3, len(s) // 2, len(s) - 2, len(s) + 5, -len(s) - 7, RNG.randint(-200, 200)]))
    if RNG.random() < 0.5:
        s = mixcase(s)
    return s


def entity_probe(label, entity):
    rec(label + ("valid",), entity.is_valid)
    rec(label + ("valid2",), entity.is_valid)
    rec(label + ("ovs",), entity.overhang_start)
    rec(label + ("ove",), entity.overhang_end)
    rec(label + ("tgt",), entity.target_sequence)
    rec(label + ("tgt2",), entity.target_sequence)
    rec(label + ("rec",), lambda: entity.record)
    rec(label + ("seq",), lambda: entity.seq)
    rec(label + ("m",), lambda: [entity._match.span(i) for i in range(4)])
    rec(label + ("mg",), lambda: [entity._match.group(i) for i in range(4)])
    rec(label + ("mid",), lambda: entity._match is entity._match)
    if isinstance(entity, V.AbstractVector):
        rec(label + ("ph",), entity.placeholder_sequence)


def test_structures(classes):
    for cname in sorted(classes):
        cls = classes[cname]
        rec(("structure", cname), cls.structure)
        rec(("regex", cname), cls._get_regex)
        rec(("regex-id", cname), lambda: cls._get_regex() is cls._get_regex())
        rec(("regex-own", cname), lambda: "_regex" in cls.__dict__)
        rec(("level", cname), lambda: cls._level)
    for base in [M.AbstractModule, M.Product, M.Entry, M.Cassette, M.Device, StructuredRecord]:
        rec(("abstract", base.__name__), base, wrap("ATGC", "circ"))
        rec(("abstract-structure", base.__name__), base.structure)
        rec(("abstract-regex", base.__name__), base._get_regex)
        rec(("abstract-own", base.__name__), lambda: base.__dict__.get("_regex"))
        rec(("meta", base.__name__), lambda: (type(base).__name__, [k.__name__ for k in base.__mro__]))
    rec(("abstractmethods",), lambda: sorted(StructuredRecord.__abstractmethods__))
    for bad in ["SmaI", "EcoRV"]:
        cls = type(str("Blunt" + bad), (M.AbstractModule,), {"cutter": getattr(Restriction, bad)})
        rec(("blunt", bad), cls, wrap("ATGC", "circ"))
        rec(("blunt-structure", bad), cls.structure)
    # regex cache is per class, not inherited
    A = type(str("A"), (M.Entry,), {"cutter": Restriction.BsaI})
    rec(("inh", 0), lambda: A._get_regex().pattern)
    B = type(str("B"), (A,), {"cutter": Restriction.BsmBI})
    rec(("inh", 1), lambda: (B._get_regex().pattern, A._get_regex().pattern, B._get_regex() is A._get_regex()))
    C = type(str("C"), (A,), {})
    rec(("inh", 2), lambda: (C._get_regex().pattern, C._get_regex() is A._get_regex(), "_regex" in C.__dict__))
    D = type(str("D"), (A,), {"structure": classmethod(lambda cls: "(AA)(NN)(CC)")})
    rec(("inh", 3), lambda: (D._get_regex().pattern, D._get_regex().regex.pattern))
    entity_probe(("custom", 0), D(wrap("GGAATTCCGG", "circ", "custom")))
    entity_probe(("custom", 1), D(wrap("CCGGGGAATT", "circ", "custom")))
    entity_probe(("custom", 2), D(wrap("CCGGGGAATT", "rec", "custom", topology="linear")))

    # 3'-overhang cutter with a custom (compilable) structure, modules and vectors
    E3 = type(str("E3"), (M.Entry,), {"cutter": Restriction.BtsI, "structure": classmethod(lambda cls: "(AA)(NN*?)(CC)")})
    V3 = type(str("V3"), (V.EntryVector,), {"cutter": Restriction.BtsI, "structure": classmethod(lambda cls: "(AA)(NN*?)(CC)")})
    # a class that is both a module and a vector
    MV = type(str("MV"), (M.Entry, V.EntryVector), {"cutter": Restriction.BsaI})
    VM = type(str("VM"), (V.EntryVector, M.Entry), {"cutter": Restriction.BsaI})
    for i in range(60):
        base = RNG.choice(["AAGTCC", "AAGGTTCC", "TTAAGCAGTGCCTT", "AACACTGCCC", "AATTTTTTTTCC", "ACACAC", "AAGCC"])
        s = rot(base + randseq(RNG.randint(0, 6), "GT"), RNG.randint(-10, 10))
        if RNG.random() < 0.4:
            s = mixcase(s)
        kind = RNG.choice(["circ", "rec"])
        for T in (E3, V3):
            entity_probe(("custom3", i, T.__name__, s, kind), T(wrap(s, kind, "c3")))
    for i in range(40):
        T = RNG.choice([MV, VM])
        s = build_sequence(T, RNG.choice(["ok", "ok", "illegal", "nosite"]))
        entity_probe(("modvec", i, T.__name__, s), T(wrap(s, "circ", "mv")))

    class Preset(M.Entry):
        cutter = Restriction.BsaI
        _regex = DNARegex("(A)(C)(G)")

    rec(("preset",), lambda: Preset._get_regex().pattern)
    entity_probe(("preset", 0), Preset(wrap("TTACGTT", "circ", "preset")))


def test_entities(classes):
    names = sorted(classes)
    for it in range(700):
        cname = RNG.choice(names)
        cls = classes[cname]
        flavour = RNG.choice(["ok", "ok", "ok", "illegal", "nosite", "halfsite", "random"])
        s = build_sequence(cls, flavour)
        kind = RNG.choice(["circ", "circ", "rec"])
        if kind == "circ":
            topology = RNG.choice([None, "circular", "Circular", "CIRCULAR"])
        else:
            topology = RNG.choice([None, "linear", "circular", "Linear", "CIRCULAR", "", "relaxed"])
        record = wrap(s, kind, "r{}".format(it), topology)
        label = ("entity", it, cname, flavour, kind, topology, s)
        try:
            entity = cls(record)
        except Exception as e:  # noqa
            OUT.append(repr((label, "exc", type(e).__name__, str(e))))
            continue
        entity_probe(label, entity)
    # record without an annotations topology and with a Seq-less record
    cls = classes["EntryBsaI"]
    for topo in [None, "linear", "circular"]:
        s = rot("AAGGTCTCAATGCTTTTGGTATGAGACCAA", 9)
        entity_probe(("wrap-linear", topo), cls(wrap(s, "rec", "w", topo)))
    # undefined sequence content
    entity_probe(("undefined",), cls(SeqRecord(Seq(None, length=30), id="und")))
    # characterize
    for cname in ["PartModBsaI", "PartVecBsaI"]:
        cls = classes[cname]
        for flavour in ["ok", "illegal", "nosite"]:
            s = build_sequence(cls, flavour)
            rec(("characterize", cname, flavour, s), lambda: type(cls.characterize(wrap(s, "circ", "chz"))).__name__)


def test_assemblies(classes):
    for name in ["BsaI", "BpiI", "BsmBI"]:
        cutter = getattr(Restriction, name)
        up = cutter.elucidate()
        site_l = fill(up.split("^")[0])
        ModT = classes["Entry" + name]
        VecT = classes["EntryVector" + name]
        for it in range(40):
            k = RNG.randint(1, 4)
            ovs = []
            while len(ovs) < k + 1:
                o = randseq(4)
                if o in ovs or revcomp(o) in ovs or revcomp(o) == o:
                    continue
                ovs.append(o)
            mods = []
            for i in range(k):
                target = randseq(RNG.choice([1, 2, 3, 4, 5, 8, 15, 15, 20, 20]), "AC")
                s = "TT" + site_l + ovs[i] + target + ovs[i + 1] + revcomp(site_l) + "AA"
                s = rot(s, RNG.randint(-40, 40))
                if RNG.random() < 0.3:
                    s = mixcase(s)
                mods.append(ModT(wrap(s, "circ", "mod{}".format(i), "circular")))
            vs = "CC" + ovs[0] + revcomp(site_l) + "CACA" + site_l + ovs[k] + "GG" + randseq(8, "AC")
            vs = rot(vs, RNG.randint(-40, 40))
            vec = VecT(wrap(vs, "circ", "vec", "circular"))
            scenario = RNG.choice(["ok", "ok", "missing", "dup", "unused", "shuffled"])
            use = list(mods)
            if scenario == "missing" and len(use) > 0:
                use.pop(RNG.randrange(len(use)))
            elif scenario == "dup":
                use.append(ModT(wrap(str(use[0].record.seq), "circ", "dupl", "circular")))
            elif scenario == "unused":
                s = "TT" + site_l + "AAAA" + "CACA" + "CCCC" + revcomp(site_l) + "AA"
                use.append(ModT(wrap(s, "circ", "extra", "circular")))
            elif scenario == "shuffled":
                RNG.shuffle(use)
            label = ("assembly", name, it, scenario)

            def run():
                with warnings.catch_warnings(record=True) as caught:
                    warnings.simplefilter("always")
                    out = vec.assemble(*use) if use else vec.assemble()
                ws = sorted(
                    (type(w.message).__name__, str(w.message))
                    for w in caught
                    if isinstance(w.message, errors.MocloError)
                )
                return (out, ws)

            rec(label, run)


def test_registries():
    import importlib

    for modname, clsname in [
        ("moclo.registry.ytk", "YTKRegistry"),
        ("moclo.registry.ytk", "PTKRegistry"),
        ("moclo.registry.cidar", "CIDARRegistry"),
        ("moclo.registry.ecoflex", "EcoFlexRegistry"),
    ]:
        registry = getattr(importlib.import_module(modname), clsname)()
        for key in sorted(registry):
            item = registry[key]
            entity = item.entity
            label = ("registry", clsname, key, type(entity).__name__)
            rec(label + ("valid",), entity.is_valid)
            rec(label + ("ovs",), entity.overhang_start)
            rec(label + ("ove",), entity.overhang_end)
            rec(label + ("span",), lambda: [entity._match.span(i) for i in range(4)])
            rec(label + ("tgt",), lambda: str(entity.target_sequence().seq))


def main(sections=None):
    classes = make_classes()
    test_transcribe()
    test_search()
    test_group_grid()
    test_structures(classes)
    test_entities(classes)
    test_assemblies(classes)
    test_registries()
    digest = hashlib.sha256("\n".join(OUT).encode("utf-8")).hexdigest()
    print("observations:", len(OUT), "calls:", COUNT[0])
    print("digest:", digest)


if __name__ == "__main__":
    main()
