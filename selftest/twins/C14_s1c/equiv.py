# coding: utf-8
"""Differential test for the code touched by the pull request.

Exercises `moclo.record.CircularRecord` (construction, slicing, `in`, `+`,
rotation both ways, reverse complement with every flag), `moclo.regex`,
the three kinds of registries, every kit class and a few assemblies, on
generated inputs, and prints a digest of every result / exception / warning
and of the state of the inputs afterwards.
"""
import hashlib
import io
import random
import re
import sys
import warnings

sys.path.insert(0, "/tmp/agents8/C14")
import tests  # noqa: F401,E402

import fs  # noqa: E402
import Bio.SeqIO  # noqa: E402
from Bio.Seq import Seq  # noqa: E402
from Bio.SeqRecord import SeqRecord  # noqa: E402
from Bio.SeqFeature import (  # noqa: E402
    SeqFeature,
    FeatureLocation,
    CompoundLocation,
    BeforePosition,
    AfterPosition,
    Reference,
)
from Bio.Restriction import BpiI, BsaI  # noqa: E402

from moclo import errors  # noqa: E402
from moclo.record import CircularRecord  # noqa: E402
from moclo.regex import DNARegex  # noqa: E402
from moclo.core import modules, vectors, parts  # noqa: E402
from moclo.registry import base  # noqa: E402
from moclo.registry.ytk import YTKRegistry, PTKRegistry  # noqa: E402
from moclo.registry.cidar import CIDARRegistry  # noqa: E402
from moclo.registry.ecoflex import EcoFlexRegistry  # noqa: E402
from moclo.registry.plant import PlantRegistry  # noqa: E402
from moclo.kits import ytk, cidar, ecoflex, plant  # noqa: E402
from moclo.kits import moclo as moclokit  # noqa: E402

LINES = []
SECTIONS = {}
_section = [None]


def section(name):
    _section[0] = name
    SECTIONS[name] = hashlib.sha256()


_ADDRESS = re.compile(r" at 0x[0-9a-fA-F]+")


def out(*args):
    line = _ADDRESS.sub(" at 0x?", " | ".join(str(a) for a in args))
    LINES.append(line)
    SECTIONS[_section[0]].update(line.encode("utf-8") + b"\n")


def d_loc(loc):
    if loc is None:
        return "None"
    return "{}<{}>".format(
        repr(loc).replace(" ", ""), getattr(loc, "operator", "-")
    )


def d_quals(q):
    return sorted((k, repr(v)) for k, v in q.items())


def d_feature(f):
    return (f.type, f.id, d_loc(f.location), d_quals(f.qualifiers))


def d_annotations(a):
    res = []
    for k in sorted(a):
        v = a[k]
        if k == "references":
            v = [(r.title, r.authors, [d_loc(x) for x in r.location]) if isinstance(r, Reference) else repr(r) for r in v]
        res.append((k, repr(v)))
    return res


def describe(rec):
    if not isinstance(rec, SeqRecord):
        return repr(rec)
    return (
        type(rec).__name__,
        str(rec.seq),
        rec.id,
        rec.name,
        rec.description,
        list(rec.dbxrefs),
        d_annotations(rec.annotations),
        sorted((k, repr(v)) for k, v in rec.letter_annotations.items()),
        [d_feature(f) for f in rec.features],
    )


def short(rec):
    return hashlib.sha256(repr(describe(rec)).encode("utf-8")).hexdigest()[:16]


def sharing(res, src):
    """Which mutable parts of ``res`` are the very objects of ``src``."""
    if not isinstance(res, SeqRecord):
        return "-"
    flags = []
    flags.append("S" if res is src else "s")
    flags.append("A" if res.annotations is src.annotations else "a")
    flags.append("D" if res.dbxrefs is src.dbxrefs else "d")
    flags.append("F" if res.features is src.features else "f")
    flags.append("L" if res.letter_annotations is src.letter_annotations else "l")
    srcq = {id(f.qualifiers) for f in src.features}
    srcl = {id(f.location) for f in src.features if f.location is not None}
    srcf = {id(f) for f in src.features}
    flags.append("q{}".format(sum(1 for f in res.features if id(f.qualifiers) in srcq)))
    flags.append("o{}".format(sum(1 for f in res.features if id(f.location) in srcl)))
    flags.append("f{}".format(sum(1 for f in res.features if id(f) in srcf)))
    return "".join(flags)


def attempt(label, func, src=None, full=False):
    with warnings.catch_warnings(record=True) as caught:
        warnings.simplefilter("always")
        try:
            res = func()
        except Exception as e:  # noqa
            out(label, "EXC", type(e).__name__, str(e))
            res = None
        else:
            if isinstance(res, SeqRecord):
                out(label, "OK", describe(res) if full else short(res), sharing(res, src) if src is not None else "")
            else:
                out(label, "OK", repr(res))
    for w in caught:
        out(label, "WARN", w.category.__name__, str(w.message))
    return res


# --- generated records -------------------------------------------------------


def random_location(rng, n, allow_past=True):
    kind = rng.randrange(10)
    strand = rng.choice([1, -1, 1, -1, 0, None])
    if kind < 4:
        a = rng.randrange(n)
        b = rng.randint(a, n)
        return FeatureLocation(a, b, strand)
    if kind == 4:
        z = rng.randrange(n + 1)
        return FeatureLocation(z, z, strand)
    if kind == 5 and allow_past:
        a = rng.randrange(n, 3 * n)
        b = a + rng.randrange(n)
        return FeatureLocation(a, b, strand)
    if kind == 6 and allow_past:
        a = rng.randrange(n)
        return FeatureLocation(a, a + rng.randrange(n // 2, n + 1), strand)
    if kind == 7:
        a = rng.randrange(n)
        b = rng.randint(a, n)
        return FeatureLocation(BeforePosition(a), AfterPosition(b), strand)
    if kind == 8:
        a = rng.randrange(n)
        b = rng.randint(a, n)
        return FeatureLocation(a, b, strand, ref="X0000{}.1".format(rng.randrange(9)))
    pts = sorted(rng.randrange(n + 1) for _ in range(4))
    s = rng.choice([1, -1])
    ps = [FeatureLocation(pts[0], pts[1], s), FeatureLocation(pts[2], pts[3], s)]
    if rng.random() < 0.5:
        ps.reverse()
    if rng.random() < 0.2:
        ps[0] = FeatureLocation(int(ps[0].start), int(ps[0].end), -s)
    return CompoundLocation(ps, operator=rng.choice(["join", "join", "order"]))


def random_record(rng, i):
    n = rng.choice([1, 2, 5, 8, 13, 24, 40])
    seq = "".join(rng.choice("ACGT") for _ in range(n))
    if i % 3 == 1:
        seq = "".join(c.lower() if rng.random() < 0.5 else c for c in seq)
    if i % 11 == 5:
        seq = seq.replace("A", "N")
    feats = []
    for j in range(rng.randrange(0, 7)):
        quals = {"label": ["L{}".format(j)]}
        if rng.random() < 0.3:
            quals["note"] = ["n{}".format(j), "x"]
        if rng.random() < 0.3:
            quals["citation"] = ["[1]"]
        feats.append(
            SeqFeature(
                random_location(rng, n),
                type=rng.choice(["CDS", "misc_feature", "source", "promoter"]),
                id="ft{}".format(j) if rng.random() < 0.5 else "<unknown id>",
                qualifiers=quals,
            )
        )
    if rng.random() < 0.6:
        feats.append(SeqFeature(FeatureLocation(0, n, rng.choice([1, -1, None])), type="source", qualifiers={"organism": ["x"]}))
    if rng.random() < 0.2:
        feats.append(SeqFeature(CompoundLocation([FeatureLocation(0, n, 1), FeatureLocation(0, n, 1)]), type="source"))
    annotations = {}
    r = rng.random()
    if r < 0.5:
        annotations["topology"] = rng.choice(["circular", "Circular", "CIRCULAR"])
    if rng.random() < 0.7:
        annotations["molecule_type"] = rng.choice(["DNA", "ds-DNA"])
    if rng.random() < 0.5:
        ref = Reference()
        ref.title = "title {}".format(i)
        ref.authors = "A. Uthor"
        ref.location = [FeatureLocation(0, n)]
        annotations["references"] = [ref]
        annotations["comment"] = "line1\nline2"
    letter = {}
    if rng.random() < 0.5:
        letter["phred_quality"] = [rng.randrange(40) for _ in range(n)]
    if rng.random() < 0.2:
        letter["ss"] = "".join(rng.choice("().") for _ in range(n))
    kwargs = dict(
        id="id{}".format(i),
        name="name{}".format(i),
        description="description {}".format(i),
        dbxrefs=["DB:{}".format(i)] if rng.random() < 0.5 else [],
        features=feats,
        annotations=annotations,
        letter_annotations=letter,
    )
    if rng.random() < 0.2:
        kwargs.pop("dbxrefs")
    return seq, kwargs


def exercise_records():
    rng = random.Random(20140)
    for i in range(70):
        seq, kwargs = random_record(rng, i)
        n = len(seq)
        label = "R{}".format(i)
        plain = SeqRecord(Seq(seq), **kwargs)
        before_plain = describe(plain)
        if i % 2:
            r = attempt(label + " from-record", lambda: CircularRecord(plain), plain, full=True)
            out(label, "plain-unchanged", describe(plain) == before_plain)
        else:
            r = attempt(label + " direct", lambda: CircularRecord(Seq(seq), **kwargs), full=True)
        if r is None:
            continue
        before = describe(r)
        # wrapping a circular record again
        attempt(label + " rewrap", lambda: CircularRecord(r), r)
        # containment
        for probe in (seq[-2:] + seq[:2], seq * 2, seq[:3].lower(), "", "ACGTTGCA"):
            attempt(label + " in " + probe[:12], lambda: probe in r)
        # items and slices
        for index in (0, -1, n, slice(0, n), slice(1, None), slice(None, -1), slice(2, 2), slice(None, None, -1), slice(0, n, 2), "x"):
            attempt(label + " getitem {}".format(index), lambda: r[index], r, full=(i % 5 == 0))
        # ambiguous operations
        attempt(label + " add", lambda: r + r)
        attempt(label + " radd", lambda: "ACGT" + r)
        attempt(label + " add-seq", lambda: r + Seq("A"))
        # rotations
        ks = [0, 1, 2, n // 2, n - 1, n, n + 1, 3 * n + 2, -1, -n, -(n + 3), True]
        for k in ks:
            a = attempt(label + " >> {}".format(k), lambda: r >> k, r, full=(i % 7 == 0))
            b = attempt(label + " << {}".format(k), lambda: r << k, r, full=(i % 7 == 1))
            if a is not None and k in (1, n - 1):
                attempt(label + " >> {} >> 3".format(k), lambda: (a >> 3), a, full=(i % 7 == 2))
                attempt(label + " >> {} << 2".format(k), lambda: (a << 2), a)
                attempt(label + " >> {} rc".format(k), lambda: a.reverse_complement(), a, full=(i % 7 == 3))
            if b is not None and k == 2:
                attempt(label + " << 2 [1:-1]", lambda: b[1:-1], b)
        attempt(label + " >> 1.5", lambda: r >> 1.5)
        attempt(label + " >> 'a'", lambda: r >> "a")
        attempt(label + " << None", lambda: r << None)
        # reverse complement, every flag
        flagsets = [
            {},
            dict(id=True, name=True, description=True, annotations=True, dbxrefs=True),
            dict(id="new id", name="new name", description="new description"),
            dict(features=False),
            dict(letter_annotations=False),
            dict(features=[SeqFeature(FeatureLocation(0, 1, 1), type="misc")], dbxrefs=["X:1"]),
            dict(annotations={"topology": "linear"}),
            dict(annotations={"topology": "circular", "k": "v"}, letter_annotations={}),
            dict(dbxrefs=True, features=False, annotations=True, letter_annotations=False),
            dict(id=False, name=True, description=False, features=True, annotations=False, letter_annotations=True, dbxrefs=False),
        ]
        for j, flags in enumerate(flagsets):
            rc = attempt(label + " rc{}".format(j), lambda: r.reverse_complement(**flags), r, full=(i % 3 == 0 or j == 0))
            if rc is not None and j in (0, 1):
                attempt(label + " rc{} rc".format(j), lambda: rc.reverse_complement(), rc, full=(i % 4 == 0))
                attempt(label + " rc{} << 1".format(j), lambda: rc << 1, rc, full=(i % 4 == 1))
                attempt(label + " rc{} >> 2".format(j), lambda: rc >> 2, rc)
        if i % 6 == 0:
            attempt(label + " rc positional", lambda: r.reverse_complement(True, "nm", False, True, True, False, True), r, full=True)
        out(label, "unchanged", describe(r) == before)

    # edge cases
    e = CircularRecord(Seq(""), id="empty")
    attempt("empty >> 1", lambda: e >> 1)
    attempt("empty << 1", lambda: e << 1)
    attempt("empty rc", lambda: e.reverse_complement(), e, full=True)
    attempt("empty in", lambda: "" in e)
    nl = CircularRecord(Seq("ACGTAC"), id="noloc", features=[SeqFeature(None, type="x"), SeqFeature(FeatureLocation(1, 3, 1), type="y")])
    attempt("noloc >> 2", lambda: nl >> 2, nl, full=True)
    attempt("noloc rc", lambda: nl.reverse_complement(), nl)
    attempt("noloc rc nofeat", lambda: nl.reverse_complement(features=False), nl, full=True)
    for topo in ("linear", "Linear", "circular", "CIRCULAR", "", 3, None):
        attempt("topology {!r}".format(topo), lambda: CircularRecord(Seq("ACGT"), annotations={"topology": topo}), full=True)
        attempt("topology {!r} (record)".format(topo), lambda: CircularRecord(SeqRecord(Seq("ACGT"), annotations={"topology": topo})), full=True)
    attempt("protein", lambda: CircularRecord(Seq("MKV"), annotations={"molecule_type": "protein"}).reverse_complement())
    attempt("rna", lambda: CircularRecord(Seq("ACGU"), annotations={"molecule_type": "RNA"}).reverse_complement(), full=True)
    attempt("str seq", lambda: CircularRecord("ACGT", id="s").reverse_complement())
    attempt("str seq shift", lambda: CircularRecord("ACGT", id="s") >> 1, full=True)
    attempt("none seq", lambda: CircularRecord(None, id="s").reverse_complement())
    attempt("nested", lambda: CircularRecord(CircularRecord(SeqRecord(Seq("ACGT"), id="in"))), full=True)
    attempt("keywords", lambda: CircularRecord(seq=Seq("ACGT"), id="a", name="b", description="c", dbxrefs=["d"], features=[], annotations={"e": 1}, letter_annotations={"q": [1, 2, 3, 4]}), full=True)
    attempt("bad letter annotations", lambda: CircularRecord(Seq("ACGT"), letter_annotations={"q": [1]}))

    class MyRecord(CircularRecord):
        pass

    m = MyRecord(Seq("ACGTTGCATT"), id="sub", features=[SeqFeature(FeatureLocation(8, 10, -1), type="x")])
    attempt("subclass >> 3", lambda: m >> 3, m, full=True)
    attempt("subclass rc", lambda: m.reverse_complement(), m, full=True)
    attempt("subclass slice", lambda: m[2:5], m, full=True)


# --- regular expressions -----------------------------------------------------


def exercise_regex():
    rng = random.Random(99)
    patterns = ["GGTCTCN(NNNN)", "(NNNN)NGAGACC", "ATG", "RYN", "GAAGAC(NN)(NNNN)", "TTTTTTTTTT", "N*", "(A)(C)?"]
    for i in range(40):
        n = rng.choice([6, 12, 30])
        seq = "".join(rng.choice("ACGTacgt") for _ in range(n))
        if i % 4 == 0:
            seq = seq[: n // 2] + "GGTCTCAACGT"[: n // 2] + seq[n // 2 + n // 2 :]
        targets = [
            ("seq", Seq(seq)),
            ("rec", SeqRecord(Seq(seq), id="r")),
            ("circ", CircularRecord(Seq(seq), id="c", features=[SeqFeature(FeatureLocation(1, 4, 1), type="f")])),
        ]
        for pat in patterns:
            rx = DNARegex(pat)
            for name, target in targets:
                for kwargs in ({}, {"linear": False}, {"pos": 3}, {"pos": 2, "endpos": 5}):
                    label = "RX{} {} {} {}".format(i, pat, name, sorted(kwargs.items()))
                    with warnings.catch_warnings():
                        warnings.simplefilter("ignore")
                        try:
                            m = rx.search(target, **kwargs)
                        except Exception as e:  # noqa
                            out(label, "EXC", type(e).__name__, str(e))
                            continue
                        if m is None:
                            out(label, None)
                            continue
                        groups = []
                        for g in range(rx.regex.groups + 1):
                            try:
                                grp = m.group(g)
                                groups.append((m.span(g), str(grp.seq) if isinstance(grp, SeqRecord) else str(grp), type(grp).__name__))
                            except Exception as e:  # noqa
                                groups.append((type(e).__name__, str(e)))
                        out(label, m.start(), m.end(), m.shift, groups)
    for bad in ("ACGT", None, 3, ["A"]):
        attempt("RX bad {!r}".format(bad), lambda: DNARegex("ATG").search(bad))
    out("lettermap", sorted(DNARegex._lettermap.items()), len(DNARegex._lettermap), "N" in DNARegex._lettermap, DNARegex._lettermap.get("Z"))


# --- registries and kits -----------------------------------------------------


def kit_classes(module):
    found = []
    for name in sorted(vars(module)):
        obj = getattr(module, name)
        if isinstance(obj, type) and issubclass(obj, (modules.AbstractModule, vectors.AbstractVector, parts.AbstractPart)):
            found.append(obj)
    return found


def exercise_registries():
    regs = [YTKRegistry(), PTKRegistry(), CIDARRegistry(), EcoFlexRegistry(), PlantRegistry()]
    for reg in regs:
        rname = type(reg).__name__
        out(rname, "len", len(reg), "iter", hashlib.sha256(repr(list(reg)).encode()).hexdigest()[:12])
        for key in sorted(reg):
            item = reg[key]
            rec = item.entity.record
            before = short(rec)
            line = [rname, key, item.id, item.name, item.resistance, type(item.entity).__name__, type(rec).__name__, before]
            with warnings.catch_warnings():
                warnings.simplefilter("ignore")
                try:
                    line.append(item.entity.is_valid())
                    if item.entity.is_valid():
                        tgt = item.entity.target_sequence()
                        line.append(short(tgt))
                        line.append(sharing(tgt, rec))
                        line.append(str(item.entity.overhang_start()))
                        line.append(str(item.entity.overhang_end()))
                except Exception as e:  # noqa
                    line.append((type(e).__name__, str(e)))
                # the record itself: rotate, reverse complement
                try:
                    k = len(rec) // 3
                    rot = rec >> k
                    line.append(short(rot))
                    line.append(short(rot << (k + 5)))
                    rc = rot.reverse_complement(id=True, name=True, annotations=True)
                    line.append(short(rc))
                    line.append(short(rc.reverse_complement() << k))
                except Exception as e:  # noqa
                    line.append((type(e).__name__, str(e)))
            line.append(short(rec) == before)
            out(*line)
        attempt(rname + " missing", lambda: reg["nope"])
    out("eq", regs[0] == YTKRegistry(), regs[0] == regs[1], hash(regs[0]) == hash(YTKRegistry()), regs[0] == 3)

    # a registry on a filesystem
    yreg = regs[0]
    memfs = fs.open_fs("mem://")
    for key in ("pYTK002", "pYTK038", "pYTK095"):
        buff = io.StringIO()
        Bio.SeqIO.write([yreg[key].entity.record], buff, "genbank")
        with memfs.open(key + (".gbk" if key == "pYTK095" else ".gb"), "w") as f:
            f.write(buff.getvalue())
    lin = SeqRecord(Seq("ACGTACGT"), id="lin", name="lin", annotations={"molecule_type": "DNA", "topology": "linear"})
    with memfs.open("lin.gb", "w") as f:
        Bio.SeqIO.write([lin], f, "genbank")
    with memfs.open("broken.gb", "w") as f:
        f.write("not a genbank file\n")
    with memfs.open("other.txt", "w") as f:
        f.write("x")
    for cls in (ytk.YTKPart, ytk.YTKPart8, vectors.AbstractVector, modules.AbstractModule):
        freg = attempt("FS " + cls.__name__, lambda: base.FilesystemRegistry(memfs, cls))
        if freg is None or not isinstance(freg, base.FilesystemRegistry):
            freg = base.FilesystemRegistry(memfs, cls)
        out("FS", cls.__name__, len(freg), sorted(freg))
        for key in ("pYTK002", "pYTK038", "pYTK095", "lin", "broken", "other", "nope"):
            with warnings.catch_warnings():
                warnings.simplefilter("ignore")
                try:
                    item = freg[key]
                    out("FS", cls.__name__, key, item.id, item.name, item.resistance, type(item.entity).__name__, type(item.record).__name__, short(item.record))
                except Exception as e:  # noqa
                    out("FS", cls.__name__, key, "EXC", type(e).__name__, str(e)[:200])
    for bad in (3, "x", SeqRecord, None):
        attempt("FS bad base {!r}".format(bad), lambda: base.FilesystemRegistry(memfs, bad))
    comb = base.CombinedRegistry()
    comb << regs[0] << regs[1]
    out("combined", len(comb), "pYTK001" in comb, "pPTK001" in comb, type(comb["pPTK001"].record).__name__)
    memfs.close()

    # every kit class against a sample of records
    sample = []
    for reg in regs:
        keys = sorted(reg)
        for key in keys[:: max(1, len(keys) // 6)]:
            sample.append((key, reg[key].entity.record))
    for module in (ytk, cidar, ecoflex, plant, moclokit):
        for cls in kit_classes(module):
            cname = "{}.{}".format(module.__name__.split(".")[-1], cls.__name__)
            try:
                out("KIT", cname, cls.structure())
            except Exception as e:  # noqa
                out("KIT", cname, "structure EXC", type(e).__name__, str(e))
            verdicts = []
            for key, rec in sample:
                with warnings.catch_warnings():
                    warnings.simplefilter("ignore")
                    try:
                        ent = cls(rec)
                        ok = ent.is_valid()
                        verdicts.append((key, ok, short(ent.target_sequence()) if ok else None))
                    except Exception as e:  # noqa
                        verdicts.append((key, type(e).__name__, str(e)[:80]))
            out("KIT", cname, verdicts)


# --- assemblies --------------------------------------------------------------


class MockVector(vectors.AbstractVector):
    cutter = BpiI


class MockModule(modules.AbstractModule):
    cutter = BpiI


class BsaVector(vectors.AbstractVector):
    cutter = BsaI


class BsaModule(modules.AbstractModule):
    cutter = BsaI


def annotated(seq, id_, cls=CircularRecord, shift=0, cite=True):
    n = len(seq)
    ref = Reference()
    ref.title = "paper about " + id_
    ref.authors = "Someone"
    feats = [
        SeqFeature(FeatureLocation(0, n, 1), type="source", qualifiers={"organism": [id_]}),
        SeqFeature(FeatureLocation(n // 3, n - 2, -1), type="CDS", qualifiers={"label": [id_ + "-cds"], "citation": ["[1]"] if cite else []}),
        SeqFeature(CompoundLocation([FeatureLocation(n - 4, n, 1), FeatureLocation(0, 3, 1)]), type="misc_feature", qualifiers={"label": [id_ + "-wrap"]}),
        SeqFeature(FeatureLocation(5, 5, 1), type="misc_binding", qualifiers={"label": [id_ + "-site"]}),
    ]
    ann = {"molecule_type": "DNA", "references": [ref]}
    if cls is CircularRecord:
        ann["topology"] = "circular"
    rec = cls(Seq(seq), id=id_, name=id_, description=id_, features=feats, annotations=ann)
    if shift and cls is CircularRecord:
        rec = rec >> shift
    return rec


def exercise_assemblies():
    cases = {
        "invalid-vector": ("CCATGCTTGTCTTCCACAGAAGACTTATGCGG", ["GAAGACTTATGCCACAATGCTTGTCTTC"]),
        "duplicate": ("CCATGCTTGTCTTCCACAGAAGACTTCGTAGG", ["GAAGACTTATGCCACACGTATTGTCTTC", "GAAGACTTATGCTATACGTATTGTCTTC"]),
        "missing": ("CCATGCTTGTCTTCCACAGAAGACTTCGTAGG", ["GAAGACTTATGACACACGTATTGTCTTC"]),
        "unused": ("CCATGCTTGTCTTCCACAGAAGACTTCGTAGG", ["GAAGACTTATGCCACACGTATTGTCTTC", "GAAGACTTCGTATATAAAAATTGTCTTC"]),
        "one": ("CCATGCTTGTCTTCCACAGAAGACTTCGTAGG", ["GAAGACTTATGCCACACGTATTGTCTTC"]),
        "two": ("CCATGCTTGTCTTCCACAGAAGACTTCGTAGG", ["GAAGACTTATGCCACAGGCTTTGTCTTC", "GAAGACTTGGCTTTTTTTTTTTCGTATTGTCTTC"]),
        "lower": ("ccatgcttgtcttccacagaagacttcgtagg", ["GAAGACTTATGCCACAGGCTTTGTCTTC", "gaagacttggcttttttttttcgtattgtcttc"]),
    }
    for name in sorted(cases):
        vseq, mseqs = cases[name]
        for cls in (CircularRecord, SeqRecord):
            for shift in (0, 7, 19):
                if cls is SeqRecord and shift:
                    continue
                vrec = annotated(vseq + "ACGTACGTAACCGGTT", "vec", cls, shift)
                mrecs = [annotated(s + "TTGACA", "mod{}".format(i), cls, shift) for i, s in enumerate(mseqs)]
                before = [describe(x) for x in [vrec] + mrecs]
                label = "ASM {} {} {}".format(name, cls.__name__, shift)
                try:
                    vector = MockVector(vrec)
                    mods = [MockModule(m) for m in mrecs]
                except Exception as e:  # noqa
                    out(label, "ctor EXC", type(e).__name__, str(e))
                    continue
                for kw in ({}, {"id": "myid", "name": "myname"}):
                    res = attempt(label + " {}".format(sorted(kw)), lambda: vector.assemble(*mods, **kw), full=True)
                    if res is not None:
                        attempt(label + " result rc", lambda: res.reverse_complement(annotations=True), res, full=True)
                        attempt(label + " result >> 11", lambda: res >> 11, res, full=True)
                out(label, "inputs unchanged", [describe(x) for x in [vrec] + mrecs] == before)
                with warnings.catch_warnings():
                    warnings.simplefilter("ignore")
                    for ent in [vector] + mods:
                        try:
                            out(label, type(ent).__name__, ent.is_valid(), str(ent.overhang_start()), str(ent.overhang_end()), describe(ent.target_sequence()))
                        except Exception as e:  # noqa
                            out(label, type(ent).__name__, "EXC", type(e).__name__, str(e)[:300])
    # wrong enzyme / no site
    attempt("ASM bsa", lambda: BsaVector(annotated("CCATGCTTGTCTTCCACAGAAGACTTCGTAGG", "v")).assemble(BsaModule(annotated("GAAGACTTATGCCACACGTATTGTCTTC", "m"))))
    # real kits: CIDAR
    reg = CIDARRegistry()
    for vec, names in (
        ("DVK_EF", ("J23102_EB", "BCD2_BC", "E1010m_CD", "B0015_DF")),
        ("DVK_AE", ("J23102_AB", "BCD2_BC", "E1010m_CD", "B0015_DE")),
        ("DVA_EF", ("J23102_EB", "BCD2_BC", "E1010m_CD", "B0015_DF")),
        ("DVK_AE", ("J23102_AB", "BCD2_BC", "E1010m_CD")),
        ("DVK_AE", ("J23102_AB", "J23102_AB", "BCD2_BC", "E1010m_CD", "B0015_DE")),
        ("DVK_AE", ("J23102_AB", "BCD2_BC", "E1010m_CD", "B0015_DE", "B0015_DF")),
    ):
        vector = reg[vec].entity
        mods = [reg[x].entity for x in names]
        before = [short(x.record) for x in [vector] + mods]
        res = attempt("CIDAR {} {}".format(vec, names), lambda: vector.assemble(*mods))
        if res is not None:
            out("CIDAR", vec, describe(res)[6], [d_feature(f) for f in res.features][:40])
            attempt("CIDAR {} rc".format(vec), lambda: res.reverse_complement(), res)
            attempt("CIDAR {} rc rc << 100".format(vec), lambda: res.reverse_complement().reverse_complement() << 100, res)
        out("CIDAR", vec, "inputs unchanged", [short(x.record) for x in [vector] + mods] == before)
    # real kits: YTK cassette
    yreg = YTKRegistry()
    names = ("pYTK002", "pYTK009", "pYTK033", "pYTK051", "pYTK067", "pYTK095")
    try:
        ents = [yreg[x].entity for x in names]
        vector = ents[-1]
        res = attempt("YTK cassette", lambda: vector.assemble(*ents[:-1]))
        if res is not None:
            attempt("YTK cassette rc", lambda: res.reverse_complement(), res)
    except Exception as e:  # noqa
        out("YTK", "EXC", type(e).__name__, str(e)[:200])


def main():
    section("records")
    exercise_records()
    section("regex")
    exercise_regex()
    section("registries")
    exercise_registries()
    section("assemblies")
    exercise_assemblies()
    total = hashlib.sha256("\n".join(LINES).encode("utf-8")).hexdigest()
    for name in ("records", "regex", "registries", "assemblies"):
        print("{:<11} {}".format(name, SECTIONS[name].hexdigest()))
    print("lines", len(LINES))
    print("DIGEST", total)
    if len(sys.argv) > 1:
        with open(sys.argv[1], "w") as f:
            f.write("\n".join(LINES) + "\n")


if __name__ == "__main__":
    main()
