# coding: utf-8
"""Differential test: prints a digest of everything observable through the
existing API on a few hundred generated inputs (assemblies that succeed or
fail, typing queries, direct DNARegex searches; upper / lower / mixed case,
matches wrapping the origin, several enzymes, citations, SeqRecord vs
CircularRecord). The digest must be identical before and after a
behaviour-preserving change.
"""
import sys

sys.path.insert(0, "/tmp/agents7/C18")
import tests  # noqa: F401,E402

import hashlib  # noqa: E402
import random  # noqa: E402
import re  # noqa: E402
import warnings  # noqa: E402

from Bio.Seq import Seq  # noqa: E402
from Bio.SeqFeature import SeqFeature, FeatureLocation, Reference  # noqa: E402
from Bio.SeqRecord import SeqRecord  # noqa: E402
from Bio.Restriction import BpiI, BsaI, BsmBI, SapI  # noqa: E402

from moclo import errors  # noqa: E402
from moclo.regex import DNARegex  # noqa: E402
from moclo.record import CircularRecord  # noqa: E402
from moclo.core import AbstractModule, AbstractVector, AbstractPart, Entry  # noqa: E402

RNG = random.Random(20180818)
LOG = []
COUNT = [0]


def scrub(text):
    return re.sub(r" at 0x[0-9a-fA-F]+", "", text)


def note(*items):
    LOG.append(scrub(repr(items)))


def revcomp(s):
    return str(Seq(s).reverse_complement())


def layout(cutter):
    text = cutter.elucidate()
    site = cutter.site
    rest = text[len(site):]
    return site, rest.index("^"), rest.index("_") - rest.index("^") - 1


def filler(n, forbidden):
    while True:
        s = "".join(RNG.choice("ACGT") for _ in range(n))
        if not any(f in s for f in forbidden):
            return s


def clean_join(chunks, forbidden, expected):
    while True:
        s = "".join(c() if callable(c) else c for c in chunks)
        if sum((s * 2).count(f, 0, len(s) + len(f) - 1) for f in forbidden) == expected:
            return s


def module_seq(cutter, start, end, size=12, extra=""):
    site, k, _ = layout(cutter)
    bad = (site, revcomp(site))
    return clean_join(
        [lambda: filler(7, bad), site, lambda: filler(k, bad), start,
         lambda: filler(size // 2, bad), extra, lambda: filler(size - size // 2, bad),
         end, lambda: filler(k, bad), revcomp(site),
         lambda: filler(9, bad)], bad, 3 if extra else 2)


def vector_seq(cutter, start, end, size=10):
    site, k, _ = layout(cutter)
    bad = (site, revcomp(site))
    return clean_join(
        [lambda: filler(8, bad), end, lambda: filler(k, bad), revcomp(site),
         lambda: filler(size, bad), site, lambda: filler(k, bad), start,
         lambda: filler(11, bad)], bad, 2)


def overhangs(n, length):
    out = []
    while len(out) < n:
        o = "".join(RNG.choice("ACGT") for _ in range(length))
        if o == revcomp(o) or o in out or revcomp(o) in out:
            continue
        out.append(o)
    return out


def per_letter(s):
    return "".join(RNG.choice((c.lower(), c.upper())) for c in s)


def rotate(text, k):
    k %= len(text)
    return text[k:] + text[:k]


def respell(texts):
    mode = RNG.randrange(5)
    if mode == 0:
        return [t.upper() for t in texts]
    if mode == 1:
        return [t.lower() for t in texts]
    if mode == 2:
        return [RNG.choice((str.lower, str.upper))(t) for t in texts]
    if mode == 3:
        return [per_letter(t) for t in texts]
    i = RNG.randrange(len(texts))
    return [t.lower() if i == j else t.upper() for j, t in enumerate(texts)]


# --- descriptions of records --------------------------------------------------

def describe_reference(ref):
    if isinstance(ref, Reference):
        return ("Reference", ref.title, ref.authors)
    return repr(ref)


def describe_record(rec):
    feats = []
    for f in rec.features:
        quals = []
        for key in sorted(f.qualifiers):
            value = f.qualifiers[key]
            if key == "citation":
                value = [describe_reference(v) for v in value]
            quals.append((key, value))
        feats.append((f.type, str(f.location), f.id, quals))
    ants = []
    for key in sorted(rec.annotations):
        value = rec.annotations[key]
        if key == "references":
            value = [describe_reference(v) for v in value]
        ants.append((key, value))
    return (type(rec).__name__, str(rec.seq), rec.id, rec.name, rec.description,
            list(rec.dbxrefs), feats, ants)


def decorate(rec, citations):
    """Add features (and possibly citations) to a record."""
    n = len(rec)
    for j in range(RNG.randrange(0, 3)):
        a = RNG.randrange(0, n - 2)
        b = RNG.randrange(a + 1, n)
        quals = {"label": ["f%d" % j]}
        if citations:
            refs = rec.annotations.setdefault("references", [])
            kind = RNG.randrange(6)
            if kind < 4:
                ref = Reference()
                ref.title = "title %d of %s" % (len(refs), rec.id if kind else "shared")
                ref.authors = "someone"
                refs.append(ref)
                quals["citation"] = ["[%d]" % len(refs)]
            elif kind == 4 and refs:
                quals["citation"] = ["[1]"]
            elif kind == 5 and RNG.random() < 0.3:
                quals["citation"] = ["ref one"]
        rec.features.append(SeqFeature(FeatureLocation(a, b, strand=RNG.choice((1, -1))),
                                       type="misc_feature", qualifiers=quals))
    return rec


def make_record(text, i, flavour, citations):
    if flavour == "circular":
        rec = CircularRecord(Seq(text), id="r%d" % i, name="n%d" % i)
    elif flavour == "seqrecord":
        rec = SeqRecord(Seq(text), id="r%d" % i, name="n%d" % i)
    elif flavour == "seqrecord-circular":
        rec = SeqRecord(Seq(text), id="r%d" % i, name="n%d" % i, annotations={"topology": "Circular"})
    else:
        rec = SeqRecord(Seq(text), id="r%d" % i, name="n%d" % i, annotations={"topology": "linear"})
    return decorate(rec, citations)


# --- observations ----------------------------------------------------------------

def observe_assembly(tag, vcls, mcls, texts, flavours, citations, kwargs):
    COUNT[0] += 1
    recs = [make_record(t, i, flavours[i], citations) for i, t in enumerate(texts)]
    before = [describe_record(r) for r in recs]
    with warnings.catch_warnings(record=True) as caught:
        warnings.simplefilter("always")
        try:
            vector = vcls(recs[0])
            mods = [mcls(r) for r in recs[1:]]
            product = vector.assemble(*mods, **kwargs)
            outcome = ("ok", describe_record(product))
        except Exception as exc:
            outcome = ("error", type(exc).__name__, str(exc), repr(exc.__cause__),
                       exc.__suppress_context__,
                       sorted((k, scrub(repr(v))) for k, v in vars(exc).items()
                              if k in ("details", "start_overhang", "exc")))
            if isinstance(exc, errors.DuplicateModules):
                outcome += ([d.record.id for d in exc.duplicates],)
    warned = [(w.category.__name__, str(w.message),
               [m.record.id for m in getattr(w.message, "remaining", ())]) for w in caught
              if "pkg_resources" not in str(w.message)]
    after = [describe_record(r) for r in recs]
    note(tag, outcome, warned, before == after, after)


def observe_typing(tag, cls, text, flavour):
    COUNT[0] += 1
    rec = make_record(text, 0, flavour, False)
    before = describe_record(rec)
    entity = cls(rec)
    out = [entity.is_valid(), entity.is_valid()]
    for name in ("overhang_start", "overhang_end", "target_sequence", "placeholder_sequence"):
        method = getattr(entity, name, None)
        if method is None:
            continue
        try:
            value = method()
            out.append((name, describe_record(value) if isinstance(value, SeqRecord) else (type(value).__name__, str(value))))
        except Exception as exc:
            out.append((name, "error", type(exc).__name__, str(exc)))
    note(tag, out, before == describe_record(rec))


def observe_regex(pattern, text, kind, linear, pos, endpos):
    COUNT[0] += 1
    dr = DNARegex(pattern)
    if kind == "seq":
        target = Seq(text)
    elif kind == "seqrecord":
        target = SeqRecord(Seq(text), id="t")
    elif kind == "circular":
        target = CircularRecord(Seq(text), id="t")
    else:
        target = text
    try:
        args = [target]
        if pos is not None:
            args += [pos] if endpos is None else [pos, endpos]
        match = dr.search(*args, linear=linear) if linear is not None else dr.search(*args)
        if match is None:
            out = None
        else:
            groups = []
            for i in range(match.match.re.groups + 1):
                g = match.group(i)
                groups.append((match.span(i), type(g).__name__, str(g.seq) if isinstance(g, SeqRecord) else str(g)))
            out = (match.start(), match.end(), match.shift, match.rec is target, groups)
    except Exception as exc:
        out = ("error", type(exc).__name__, str(exc))
    note("regex", dr.pattern, dr.regex.pattern, dr.regex.flags, kind, linear, pos, endpos, text, out)


# --- scenarios ---------------------------------------------------------------------

def scenarios(cutter):
    _, _, n = layout(cutter)
    a, b, c, d, e = overhangs(5, n)
    site = cutter.site
    v = vector_seq(cutter, start=a, end=b)
    yield "one", [v, module_seq(cutter, b, a)]
    yield "two", [v, module_seq(cutter, c, a), module_seq(cutter, b, c)]
    yield "three", [v, module_seq(cutter, c, d), module_seq(cutter, d, a), module_seq(cutter, b, c)]
    yield "same-start", [v, module_seq(cutter, b, c), module_seq(cutter, b, a)]
    yield "same-start-3", [v, module_seq(cutter, c, a), module_seq(cutter, b, c), module_seq(cutter, c, d)]
    yield "revcomp-starts", [v, module_seq(cutter, b, c), module_seq(cutter, revcomp(b), a)]
    yield "missing", [v, module_seq(cutter, b, c)]
    yield "missing-first", [v, module_seq(cutter, c, a)]
    yield "unused", [v, module_seq(cutter, b, a), module_seq(cutter, d, e)]
    yield "unused-2", [v, module_seq(cutter, d, e), module_seq(cutter, b, a), module_seq(cutter, e, c)]
    yield "unsuitable-vector", [vector_seq(cutter, start=a, end=a), module_seq(cutter, a, a)]
    yield "illegal-site", [v, module_seq(cutter, b, a, extra=site)]
    yield "illegal-site-vector", [vector_seq(cutter, a, b)[:-4] + site, module_seq(cutter, b, a)]
    yield "no-site", [v, filler(40, (site, revcomp(site)))]
    yield "vector-no-site", [filler(45, (site, revcomp(site))), module_seq(cutter, b, a)]
    yield "loop", [v, module_seq(cutter, b, c), module_seq(cutter, c, d), module_seq(cutter, d, c)]


def main():
    flavour_sets = ["circular"] * 6 + ["seqrecord", "seqrecord-circular", "seqrecord-linear"]
    for cutter in (BpiI, BsaI, BsmBI, SapI):
        vcls = type("V" + cutter.__name__, (AbstractVector,), {"cutter": cutter})
        mcls = type("M" + cutter.__name__, (AbstractModule,), {"cutter": cutter})
        for name, texts in scenarios(cutter):
            for turn in range(5):
                spelled = respell(texts)
                if turn % 2:
                    spelled = [rotate(t, RNG.randrange(1, len(t))) for t in spelled]
                if turn == 4:
                    flavours = [RNG.choice(flavour_sets) for _ in spelled]
                else:
                    flavours = ["circular"] * len(spelled)
                kwargs = RNG.choice(({}, {}, {"id": "myid"}, {"name": "myname", "id": "x"}, {"bogus": 1}))
                observe_assembly((cutter.__name__, name, turn), vcls, mcls, spelled, flavours,
                                 citations=turn in (2, 3), kwargs=kwargs)
            for i, text in enumerate(texts[:3]):
                cls = mcls if i else vcls
                for flavour in ("circular", "seqrecord", "seqrecord-linear"):
                    t = respell([text])[0]
                    if RNG.random() < 0.5:
                        t = rotate(t, RNG.randrange(1, len(t)))
                    observe_typing((cutter.__name__, name, i, flavour), cls, t, flavour)

    class Part(AbstractPart, Entry):
        cutter = BsaI
        signature = ("ATGC", "TTCA")

    class Other(AbstractPart, Entry):
        cutter = BsaI
        signature = ("CTGC", "TTCA")

    for start, end in (("ATGC", "TTCA"), ("ATGC", "TTCG"), ("CTGC", "TTCA")) * 4:
        text = respell([module_seq(BsaI, start, end)])[0]
        observe_typing(("part", start, end), Part, text, "circular")
        COUNT[0] += 1
        try:
            got = AbstractPart.characterize(CircularRecord(Seq(text), id="p"))
            note("characterize", type(got).__name__)
        except Exception as exc:
            note("characterize", type(exc).__name__, str(exc))

    for pattern in ("AA(NN)", "GGTCTCN(NNNN)(NN*N)(NNNN)NGAGACC", "(RY)(SW)N*?(KM)", "a(n)b", "AT(GC)*T"):
        for _ in range(14):
            n = RNG.randrange(4, 40)
            text = "".join(RNG.choice("ACGTacgtNn") for _ in range(n))
            if RNG.random() < 0.4:
                text = rotate(module_seq(BsaI, "ATGC", "TTCA"), RNG.randrange(60))
                text = RNG.choice((text, text.lower(), per_letter(text)))
            kind = RNG.choice(("seq", "seqrecord", "circular", "str"))
            linear = RNG.choice((None, True, False))
            pos = RNG.choice((None, None, 0, 2, n - 1, n + 3))
            endpos = RNG.choice((None, None, 3, n, n + 5))
            observe_regex(pattern, text, kind, linear, pos, endpos)

    digest = hashlib.sha256("\n".join(LOG).encode("utf-8")).hexdigest()
    print("observations: %d" % COUNT[0])
    print("digest: %s" % digest)
    if "--dump" in sys.argv:
        print("\n".join(LOG))


if __name__ == "__main__":
    main()
