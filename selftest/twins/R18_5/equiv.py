# coding: utf-8
"""Differential test for the rewrite of ``moclo._utils`` and ``moclo.errors``.

Digests the behaviour of the ``catch_warnings`` decorator (filters installed
and restored, warnings shown or turned into errors, exceptions passing
through), of ``isabstract`` over many classes, and of the messages of every
exception/warning class for many argument combinations, including those
raised by real assemblies.
"""
import copy
import hashlib
import pickle
import random
import re
import sys
import warnings

sys.path.insert(0, "/tmp/agentsR4/R18")
warnings.simplefilter("ignore")
import tests  # noqa: E402,F401

from Bio import BiopythonWarning, Restriction  # noqa: E402
from Bio.Seq import Seq  # noqa: E402
from Bio.SeqRecord import SeqRecord  # noqa: E402

import moclo.core  # noqa: E402
import moclo.kits.ytk  # noqa: E402
import moclo.kits.cidar  # noqa: E402
import moclo.kits.ecoflex  # noqa: E402
from moclo import errors  # noqa: E402
from moclo._utils import catch_warnings, isabstract, classproperty  # noqa: E402
from moclo.record import CircularRecord  # noqa: E402
from moclo.core.parts import AbstractPart  # noqa: E402
from moclo.core.modules import AbstractModule, Entry  # noqa: E402
from moclo.core.vectors import AbstractVector, EntryVector  # noqa: E402

rng = random.Random(1805)


def attempt(fn):
    try:
        return ("ok", fn())
    except BaseException as exc:  # noqa: B902
        return ("err", type(exc).__name__, str(exc))


results = []

# 1. catch_warnings ------------------------------------------------------------------


class CustomWarning(UserWarning):
    pass


def snapshot_filters():
    return [(f[0], getattr(f[1], "pattern", None), f[2].__name__, getattr(f[3], "pattern", None), f[4])
            for f in warnings.filters]


def body_factory(kind):
    def warn_user(*args, **kwargs):
        """Docstring of warn_user."""
        warnings.warn("user warning {}".format(args), UserWarning)
        return ("returned", args, sorted(kwargs.items()), snapshot_filters()[:2])

    def warn_custom(*args, **kwargs):
        warnings.warn(CustomWarning("custom"))
        warnings.warn("deprecated", DeprecationWarning)
        warnings.warn("bio", BiopythonWarning)
        return len(warnings.filters)

    def warn_twice(*args, **kwargs):
        for _ in range(2):
            warnings.warn("same place", UserWarning)
        return "twice"

    def raises(*args, **kwargs):
        warnings.warn("before raising", UserWarning)
        raise KeyError("boom")

    def stops(*args, **kwargs):
        raise StopIteration("stop value")

    def exits(*args, **kwargs):
        raise GeneratorExit("exit")

    def lazy(*args, **kwargs):
        warnings.warn("in generator", UserWarning)
        yield 1
        warnings.warn("in generator again", CustomWarning)
        yield 2

    def changes_filters(*args, **kwargs):
        warnings.simplefilter("error", CustomWarning)
        return snapshot_filters()[:2]

    return locals()[kind]


KINDS = ["warn_user", "warn_custom", "warn_twice", "raises", "stops", "exits", "lazy", "changes_filters"]
ACTIONS = ["ignore", "error", "always", "default", "module", "once", "bogus", None, 3]
CATEGORIES = [Warning, UserWarning, CustomWarning, DeprecationWarning, BiopythonWarning, int, None, "UserWarning"]

def run_case(action, category, lineno, append, kind):
    func = body_factory(kind)

    def consume(res):
        if kind == "lazy" and res[0] == "ok":
            return ("ok", attempt(lambda: list(res[1])))
        return res

    def scenario():
        out = []
        with warnings.catch_warnings(record=True) as caught:
            warnings.resetwarnings()
            warnings.simplefilter("always")
            warnings.filterwarnings("ignore", message="sentinel filter")
            before = snapshot_filters()
            decorated = catch_warnings(action, category, lineno, append)(func)
            out.append((decorated.__name__, decorated.__doc__, decorated.__wrapped__ is func,
                        decorated.__qualname__, decorated.__module__))
            out.append(consume(attempt(lambda: decorated(1, 2, key="v"))))
            out.append(snapshot_filters() == before)
            # calling again: the decorator is reusable
            out.append(consume(attempt(lambda: decorated())))
            out.append(snapshot_filters() == before)
            out.append([(w.category.__name__, str(w.message)) for w in caught])
        return out

    return (repr(action), getattr(category, "__name__", category), lineno, append, kind, attempt(scenario))


for action in ACTIONS:
    for category in CATEGORIES:
        for lineno, append in ((0, False), (0, True), (7, False), (-1, False), ("x", False)):
            valid = action in ACTIONS[:6] and category in CATEGORIES[:5] and lineno in (0, 7)
            if rng.random() < (0.1 if valid else 0.85):
                continue
            for kind in rng.sample(KINDS, 3 if valid else 1):
                results.append(run_case(action, category, lineno, append, kind))


# decorating methods, stacking decorators, keyword arguments
class Holder(object):
    @catch_warnings("error", category=CustomWarning)
    @catch_warnings("ignore")
    def method(self, x):
        """Method doc."""
        warnings.warn(CustomWarning("never an error: inner filter ignores it"))
        return x * 2

    @catch_warnings("ignore")
    @catch_warnings(action="error", category=CustomWarning, lineno=0, append=False)
    def method2(self, x):
        warnings.warn("ignored by the outer one? no: inner filters come first", UserWarning)
        warnings.warn(CustomWarning("turned into an error"))
        return x

    @classmethod
    @catch_warnings("always")
    def cmethod(cls, x=1):
        return (cls.__name__, x)


with warnings.catch_warnings(record=True) as caught:
    warnings.simplefilter("always")
    results.append(attempt(lambda: Holder().method(21)))
    results.append(attempt(lambda: Holder().method2(21)))
    results.append(attempt(lambda: Holder.cmethod(x=5)))
    results.append((Holder.method.__name__, Holder.method.__doc__, Holder.method2.__wrapped__.__name__))
    results.append([(w.category.__name__, str(w.message)) for w in caught])
results.append(attempt(lambda: catch_warnings()))
results.append(attempt(lambda: catch_warnings("ignore")(None)()))
results.append(attempt(lambda: catch_warnings("ignore")(len)("abc")))
results.append(attempt(lambda: catch_warnings("ignore")(len)()))

# 2. isabstract -------------------------------------------------------------------------


class WithClassProperty(object):
    @classproperty
    def value(cls):
        return NotImplemented if cls.__name__.startswith("Abstract") else 1


class AbstractWithClassProperty(WithClassProperty):
    pass


class Raising(object):
    @classproperty
    def value(cls):
        raise AttributeError("hidden")


class RaisingOther(object):
    @classproperty
    def value(cls):
        raise KeyError("visible")


class Concrete(AbstractPart, Entry):
    cutter = Restriction.BsaI
    signature = ("AAAA", "CCCC")


class NoSignature(AbstractPart, Entry):
    cutter = Restriction.BsaI


class Slotted(object):
    __slots__ = ("a",)
    b = NotImplemented


CLASSES = [
    object, int, WithClassProperty, AbstractWithClassProperty, Raising, RaisingOther, Concrete,
    NoSignature, Slotted, AbstractPart, AbstractModule, AbstractVector, Entry, EntryVector,
    errors.MocloError, CircularRecord,
]
for mod in (moclo.core, moclo.kits.ytk, moclo.kits.cidar, moclo.kits.ecoflex):
    for name in sorted(dir(mod)):
        obj = getattr(mod, name)
        if isinstance(obj, type):
            CLASSES.append(obj)
for cls in CLASSES:
    results.append((cls.__name__, attempt(lambda: isabstract(cls))))
for notclass in (None, 1, "str", Concrete.__new__, NotImplemented):
    results.append(attempt(lambda: isabstract(notclass)))

# 3. exception messages -----------------------------------------------------------------


class FakeModule(object):
    def __init__(self, rid):
        self.record = SeqRecord(Seq("ATGC"), id=rid)


class CustomInvalid(errors.InvalidSequence):
    _msg = "custom {} message"


class CustomIllegal(errors.IllegalSite):
    def __init__(self, sequence):
        super(CustomIllegal, self).__init__(sequence, details="fixed details")


DETAILS = [None, "some details", "", "with {} braces", "with {0} index", "{unknown}", "{", "100%", 12, ["list"],
           b"bytes", Seq("ACGT"), 0, False]
SEQUENCES = [Seq("ATGC"), "plain", None, 42, SeqRecord(Seq("AT"), id="rec"), ("tu", "ple"), "{}"]


def dump_exc(exc):
    return (
        type(exc).__name__,
        attempt(lambda: str(exc)),
        attempt(lambda: "{}".format(exc)),
        attempt(lambda: repr(exc.args)),
        sorted((k, repr(v) if not isinstance(v, tuple) else len(v)) for k, v in vars(exc).items()),
        [c.__name__ for c in type(exc).__mro__],
        isinstance(exc, ValueError), isinstance(exc, RuntimeError), isinstance(exc, Warning),
    )


for details in DETAILS:
    for seq in SEQUENCES:
        for cls in (errors.InvalidSequence, errors.IllegalSite, CustomInvalid):
            results.append(attempt(lambda: dump_exc(cls(seq, details=details))))
            results.append(attempt(lambda: dump_exc(cls(seq, KeyError("x"), details))))
        results.append(attempt(lambda: dump_exc(errors.MissingModule(seq, details=details))))
        results.append(attempt(lambda: dump_exc(errors.MissingModule(seq, details=details, other=1))))
    for n in range(4):
        mods = [FakeModule("m{}".format(i)) for i in range(n)]
        results.append(attempt(lambda: dump_exc(errors.DuplicateModules(*mods, details=details))))
        results.append(attempt(lambda: dump_exc(errors.UnusedModules(*mods, details=details))))
        results.append(attempt(lambda: dump_exc(errors.DuplicateModules(*(mods + [None]), details=details))))
        results.append(attempt(lambda: dump_exc(errors.UnusedModules(*(mods + ["x"]), details=details))))
results.append(attempt(lambda: dump_exc(CustomIllegal(Seq("GGTCTC")))))
results.append(attempt(lambda: dump_exc(errors.InvalidSequence())))
results.append(attempt(lambda: dump_exc(errors.MissingModule())))
results.append(attempt(lambda: dump_exc(errors.DuplicateModules())))
results.append(attempt(lambda: dump_exc(errors.UnusedModules())))
results.append(attempt(lambda: dump_exc(errors.MocloError("a", "b"))))
results.append(attempt(lambda: dump_exc(errors.AssemblyError("msg"))))
results.append(attempt(lambda: dump_exc(errors.AssemblyWarning("msg"))))
# instances that skipped __init__, copies and pickles
for cls in (errors.InvalidSequence, errors.IllegalSite, errors.DuplicateModules, errors.MissingModule, errors.UnusedModules):
    results.append(attempt(lambda: str(cls.__new__(cls))))
    inst = cls("ATGC") if cls in (errors.InvalidSequence, errors.IllegalSite, errors.MissingModule) else cls(FakeModule("p"))
    results.append(attempt(lambda: dump_exc(copy.copy(inst))))
    results.append(attempt(lambda: dump_exc(copy.deepcopy(inst))))
    results.append(attempt(lambda: str(pickle.loads(pickle.dumps(cls("ATGC"))))))
    results.append(sorted(n for n in vars(cls) if not n.startswith("_")))
# warnings emitted and turned into errors
with warnings.catch_warnings(record=True) as caught:
    warnings.simplefilter("always")
    warnings.warn(errors.UnusedModules(FakeModule("w1"), FakeModule("w2"), details="why"))
    results.append([(w.category.__name__, str(w.message)) for w in caught])
with warnings.catch_warnings():
    warnings.simplefilter("error")
    results.append(attempt(lambda: warnings.warn(errors.UnusedModules(FakeModule("w1")))))

# 4. errors out of real assemblies -------------------------------------------------------


class MockVector(AbstractVector):
    cutter = Restriction.BpiI


class MockModule(AbstractModule):
    cutter = Restriction.BpiI


def dna(n, alphabet="AT"):
    return "".join(rng.choice(alphabet) for _ in range(n))


for it in range(120):
    ovs = []
    while len(ovs) < 5:
        o = dna(4, "ACGT")
        rc = str(Seq(o).reverse_complement())
        if o != rc and o not in ovs and rc not in ovs:
            ovs.append(o)
    vec = MockVector(CircularRecord(Seq(ovs[0] + "TTGTCTTC" + dna(4) + "GAAGACTT" + ovs[2] + dna(8)), id="vec{}".format(it)))
    mods = [
        MockModule(CircularRecord(Seq("GAAGACTT" + a + dna(rng.randint(1, 9)) + b + "TTGTCTTC" + dna(5)), id="mod{}{}".format(it, a)))
        for a, b in ((ovs[0], ovs[1]), (ovs[1], ovs[2]))
    ]
    flavour = it % 6
    if flavour == 1:
        mods = mods[:1]
    elif flavour == 2:
        mods.append(MockModule(CircularRecord(Seq("GAAGACTT" + ovs[0] + "AAAA" + ovs[3] + "TTGTCTTC"), id="dup{}".format(it))))
    elif flavour == 3:
        mods.append(MockModule(CircularRecord(Seq("GAAGACTT" + ovs[3] + "AAAA" + ovs[4] + "TTGTCTTC"), id="unused{}".format(it))))
    elif flavour == 4:
        mods.append(MockModule(CircularRecord(Seq(dna(25)), id="invalid{}".format(it))))
    elif flavour == 5:
        mods.append(MockModule(CircularRecord(Seq("GAAGACTT" + ovs[3] + "AAGAAGACAA" + ovs[4] + "TTGTCTTC"), id="illegal{}".format(it))))
    with warnings.catch_warnings(record=True) as caught:
        warnings.simplefilter("always")
        res = attempt(lambda: str(vec.assemble(*mods).seq))
        results.append((flavour, res, [(w.category.__name__, str(w.message)) for w in caught]))
    with warnings.catch_warnings():
        warnings.simplefilter("error", errors.AssemblyWarning)
        results.append((flavour, attempt(lambda: str(vec.assemble(*mods).seq))))

blob = re.sub(r" at 0x[0-9a-fA-F]+", " at 0x?", repr(results)).encode("utf-8")
print(len(results), hashlib.sha256(blob).hexdigest())
