# coding: utf-8
# --- common differential-test harness (inlined in every equiv.py) ------------
import sys

sys.path.insert(0, "/tmp/agentsR3/R13")
import tests  # noqa: F401,E402  (splices the kit packages into the moclo namespace)

import atexit  # noqa: E402
import hashlib  # noqa: E402
import io  # noqa: E402
import os  # noqa: E402
import random  # noqa: E402
import shutil  # noqa: E402
import tarfile  # noqa: E402
import tempfile  # noqa: E402
import warnings  # noqa: E402

import Bio.SeqIO  # noqa: E402
import fs  # noqa: E402
from Bio.Seq import Seq  # noqa: E402
from Bio.SeqFeature import SeqFeature, FeatureLocation  # noqa: E402
from Bio.SeqRecord import SeqRecord  # noqa: E402

from tests._utils import build_registries  # noqa: E402

warnings.simplefilter("ignore")

RNG = random.Random(0x5EED13)
RESULTS = []

LABELS = [
    "KanR", "CamR", "CmR", "KnR", "AmpR", "SmR", "SpecR",  # known cassettes
    "kanr", "AMPR", "ampR", "Kanr", "specr",  # wrong letter case: not recognised
    "GFP", "ori", "AmpR promoter", "KanR-like", "",  # unrelated
]

PKG_NAME = "equivpkg_r13"
PKG_DIR = tempfile.mkdtemp(prefix="r13_equiv_")
atexit.register(shutil.rmtree, PKG_DIR, True)
os.mkdir(os.path.join(PKG_DIR, PKG_NAME))
with open(os.path.join(PKG_DIR, PKG_NAME, "__init__.py"), "w") as _f:
    _f.write("")
sys.path.insert(0, PKG_DIR)
_ARCHIVES = [0]


def log(*values):
    RESULTS.append(repr(values))


def attempt(tag, func, *args, **kwargs):
    """Run func, record either its described result or its exception."""
    try:
        out = func(*args, **kwargs)
    except BaseException as err:  # noqa: B902 (StopIteration & co. included)
        if isinstance(err, (KeyboardInterrupt, SystemExit)):
            raise
        log(tag, "EXC", type(err).__name__, str(err).replace(PKG_DIR, "<PKG>"))
        return None
    else:
        log(tag, "OK", describe(out))
        return out


def describe_record(rec):
    return (
        type(rec).__name__,
        rec.id,
        rec.name,
        rec.description,
        str(rec.seq),
        sorted((k, repr(v)) for k, v in rec.annotations.items()),
        [
            (f.type, str(f.location), sorted((k, list(v)) for k, v in f.qualifiers.items()))
            for f in rec.features
        ],
    )


def describe(obj):
    from moclo.registry.base import Item

    if isinstance(obj, Item):
        ent = obj.entity
        try:
            valid = ent.is_valid()
        except Exception as err:
            valid = (type(err).__name__, str(err))
        return (
            "Item",
            obj.id,
            obj.name,
            obj.resistance,
            type(ent).__module__,
            type(ent).__name__,
            valid,
            describe_record(ent.record),
            obj.record is ent.record,
        )
    if isinstance(obj, SeqRecord):
        return describe_record(obj)
    if isinstance(obj, (list, tuple)):
        return [describe(x) for x in obj]
    if isinstance(obj, dict):
        return [(k, describe(v)) for k, v in obj.items()]
    if isinstance(obj, type):
        return "<class {}.{}>".format(obj.__module__, obj.__name__)
    if obj is None or isinstance(obj, (str, bytes, int, float, bool)):
        return repr(obj)
    return "<{} object>".format(type(obj).__name__)  # no memory addresses in the digest


def rand_seq(n):
    return "".join(RNG.choice("ACGT") for _ in range(n))


def make_record(
    id_,
    name=None,
    description="synthetic",
    labels=(),
    comment=None,
    seq=None,
    upper=True,
):
    """Build a small annotated circular record.

    ``labels`` is a list of label lists: one feature per inner list.
    """
    seq = seq if seq is not None else rand_seq(RNG.randint(40, 120))
    if not upper:
        seq = "".join(RNG.choice((c, c.lower())) for c in seq)
    rec = SeqRecord(Seq(seq), id=id_, name=name or id_[:16], description=description)
    rec.annotations["molecule_type"] = "DNA"
    rec.annotations["topology"] = "circular"
    if comment is not None:
        rec.annotations["comment"] = comment
    for i, lbls in enumerate(labels):
        start = RNG.randint(0, len(seq) - 10)
        end = RNG.randint(start + 1, len(seq))
        quals = {"note": ["feature {}".format(i)]}
        if lbls:
            quals["label"] = list(lbls)
        rec.features.append(
            SeqFeature(
                FeatureLocation(start, end, RNG.choice((1, -1))),
                type=RNG.choice(("CDS", "misc_feature", "promoter")),
                qualifiers=quals,
            )
        )
    return rec


def rand_labels(kind=None):
    """Label lists for the features of a record.

    kind: "one" (exactly one cassette overall), "none", "multi" (one feature
    holding two cassettes), "two" (two features with one cassette each) or
    None (anything).
    """
    known = LABELS[:7]
    other = LABELS[7:]
    kind = kind or RNG.choice(("one", "one", "one", "none", "multi", "two", "any"))
    feats = [[RNG.choice(other)] if RNG.random() < 0.7 else [] for _ in range(RNG.randint(0, 2))]
    if kind == "one":
        feats.insert(RNG.randint(0, len(feats)), [RNG.choice(known)] + RNG.sample(other, RNG.randint(0, 2)))
    elif kind == "multi":
        feats.insert(RNG.randint(0, len(feats)), RNG.sample(known, 2) + RNG.sample(other, RNG.randint(0, 1)))
        if RNG.random() < 0.5:
            feats.append([RNG.choice(known)])
    elif kind == "two":
        feats.insert(RNG.randint(0, len(feats)), [RNG.choice(known)])
        feats.append([RNG.choice(known)] if RNG.random() < 0.5 else RNG.sample(known, 2))
    elif kind == "any":
        feats = [RNG.sample(LABELS, RNG.randint(0, 3)) for _ in range(RNG.randint(0, 4))]
    return feats


def to_genbank(rec):
    buff = io.StringIO()
    Bio.SeqIO.write([rec], buff, "genbank")
    return buff.getvalue()


def make_archive(records, names=None):
    """Write the records to a new tar.gz of the scratch package; return its name."""
    _ARCHIVES[0] += 1
    fname = "archive{:04d}.tar.gz".format(_ARCHIVES[0])
    with tarfile.open(os.path.join(PKG_DIR, PKG_NAME, fname), "w:gz") as tar:
        for i, rec in enumerate(records):
            data = (rec if isinstance(rec, str) else to_genbank(rec)).encode("utf-8")
            info = tarfile.TarInfo(names[i] if names else getattr(rec, "id", "entry{}".format(i)))
            info.size = len(data)
            tar.addfile(info, io.BytesIO(data))
    return fname


def subregistry(base, records, names=None, **attrs):
    """A user-defined subclass of an embedded registry over a scratch archive."""
    attrs.update(_module=PKG_NAME, _file=make_archive(records, names))
    return type(str("User" + base.__name__), (base,), attrs)


def dump_registry(tag, reg, extra_keys=("missing", "", None, 0)):
    """Exercise the whole Mapping API of a registry."""
    attempt((tag, "len"), len, reg)
    keys = attempt((tag, "iter"), lambda: list(reg)) or []
    attempt((tag, "keys"), lambda: list(reg.keys()))
    for key in list(keys) + list(extra_keys):
        attempt((tag, "getitem", key), reg.__getitem__, key)
        attempt((tag, "contains", key), reg.__contains__, key)
        attempt((tag, "get", key), reg.get, key)
    attempt((tag, "values"), lambda: list(reg.values()))
    attempt((tag, "items"), lambda: list(reg.items()))
    attempt((tag, "hash"), lambda: hash(reg) == hash(type(reg)()))
    attempt((tag, "eq"), lambda: (reg == type(reg)(), reg != type(reg)(), reg == 1))


def finish():
    digest = hashlib.sha256("\n".join(RESULTS).encode("utf-8")).hexdigest()
    print("{} results, digest {}".format(len(RESULTS), digest))
    if os.environ.get("EQUIV_DUMP"):  # debugging aid: keep the raw results
        with open(os.environ["EQUIV_DUMP"], "w") as out:
            out.write("\n".join(RESULTS))


# --- end of the common harness -----------------------------------------------
# --- R13_3: FilesystemRegistry.__getitem__ split in three helpers -------------
from moclo.kits import ytk, cidar, ecoflex
from moclo.core import AbstractPart, AbstractVector
from moclo.record import CircularRecord
from moclo.registry.base import FilesystemRegistry, CombinedRegistry, Item
from moclo.registry.ytk import YTKRegistry
from moclo.registry.cidar import CIDARRegistry

build_registries("ytk")
build_registries("cidar")
KITS = {
    "ytk": [i for i in YTKRegistry().values() if isinstance(i.entity, ytk.YTKPart)],
    "cidar": [i for i in CIDARRegistry().values() if isinstance(i.entity, cidar.CIDARPart)],
}
KITS["both"] = real_items = KITS["ytk"] + KITS["cidar"]
BASES = {
    "ytk": [ytk.YTKPart] * 6 + [ytk.YTKPart1, ytk.YTKPart8, ytk.YTKCassetteVector, AbstractPart],
    "cidar": [cidar.CIDARPart] * 6 + [cidar.CIDARPromoter, cidar.CIDARCodingSequence, AbstractVector],
    "both": [ytk.YTKPart, cidar.CIDARPart, ytk.YTKEntryVector, AbstractPart],
}
EXTENSIONS = [None, None, ("gb", "gbk"), ("gbk", "gb"), ("gb",), ("txt", "gb"), (), ("tar.gz", "gb"),
              "gb", ("", "gb"), ("gb", "gb"), (1,), 5, ("GB", "gb")]
STEMS = ["f{}", "F{}", "f{}.v2", "{id}", " f{}", "f{} copy", "ünï{}", "f{}.tar", "None", "0"]
SUFFIXES = ["gb", "gb", "gbk", "txt", "GB", "tar.gz", ""]


def strip_resistance(rec, how):
    """Derive a record without / with several resistance cassettes."""
    rec = SeqRecord(rec.seq, id=rec.id, name=rec.name, description=rec.description,
                    annotations=dict(rec.annotations), features=[
                        SeqFeature(f.location, type=f.type, qualifiers={k: list(v) for k, v in f.qualifiers.items()})
                        for f in rec.features])
    for f in rec.features:
        labels = f.qualifiers.get("label", [])
        if how == "none":
            f.qualifiers["label"] = [l.lower() for l in labels]
        elif how == "multi" and set(labels) & {"CamR", "CmR", "AmpR", "KanR", "SmR", "SpecR", "KnR"}:
            f.qualifiers["label"] = labels + ["KanR", "AmpR"]
    return rec


def populate(target, n, real_items=real_items):
    written = []
    for k in range(n):
        r = RNG.random()
        if r < 0.75:
            rec = RNG.choice(real_items).entity.record
            if RNG.random() < 0.25:
                rec = strip_resistance(rec, RNG.choice(("none", "multi")))
        else:
            rec = make_record("SYN{}".format(k), labels=rand_labels(), upper=RNG.random() < 0.8)
        stem = RNG.choice(STEMS).format(k, id=rec.id)
        for suffix in RNG.sample(SUFFIXES, RNG.choice((1, 1, 2, 3))):
            name = "{}.{}".format(stem, suffix)
            r = RNG.random()
            if r < 0.08:
                if not target.exists(name):
                    target.makedir(name)  # a directory called like a record
                continue
            if target.isdir(name):
                continue
            with target.open(name, "w") as f:
                if r < 0.16:
                    f.write("")
                elif r < 0.22:
                    f.write("LOCUS garbage\n")
                elif r < 0.28:
                    f.write(to_genbank(rec) + to_genbank(rec))  # two records in one file
                else:
                    f.write(to_genbank(rec))
            written.append(name)
    return written


def probes(names, keys):
    out = set(keys)
    for name in names:
        out.add(name)
        out.add(name.split(".")[0])
        out.add(name.rsplit(".", 1)[0])
    return sorted(out, key=repr) + ["missing", "", None, 0, 1.5, ("f0",), "sub/f0", "/f0", "../f0", "f0.gb", "f*"]


def exercise(tag, reg, names):
    keys = attempt((tag, "iter"), lambda: sorted(reg)) or []
    attempt((tag, "len"), len, reg)
    for key in probes(names, keys):
        item = attempt((tag, "getitem", key), reg.__getitem__, key)
        if item is not None:
            log(tag, "item-check", key, isinstance(item, Item), isinstance(item.record, CircularRecord), item.id, item.record.id)
            # every lookup builds a fresh item
            again = reg[key]
            log(tag, "fresh", again is item, again.entity is item.entity, describe(again) == describe(item))
        attempt((tag, "contains", key), reg.__contains__, key)
        attempt((tag, "get", key), reg.get, key, "default")
    attempt((tag, "values"), lambda: sorted(describe(list(reg.values()))))
    attempt((tag, "items"), lambda: sorted((k, v.resistance) for k, v in reg.items()))
    attempt((tag, "combined"), lambda: sorted((CombinedRegistry() << reg).keys()))
    attempt((tag, "eq"), lambda: (reg == reg, reg == {}, reg != {}))


for n in range(240):
    mem = fs.open_fs("mem://")
    kit = RNG.choice(("ytk", "ytk", "cidar", "cidar", "both"))
    names = populate(mem, RNG.randint(0, 5), KITS[kit])
    ext = EXTENSIONS[(n // 2) % len(EXTENSIONS)] if n % 2 else None
    base = RNG.choice(BASES[kit])
    log("memfs", n, sorted(names), repr(ext), base.__name__)
    reg = FilesystemRegistry(mem, base) if ext is None else FilesystemRegistry(mem, base, extensions=ext)
    exercise(("mem", n), reg, names)
    mem.close()

# one-shot iterables as extensions: each lookup consumes some of them
for n in range(25):
    mem = fs.open_fs("mem://")
    names = populate(mem, 4)
    reg = FilesystemRegistry(mem, ytk.YTKPart, extensions=iter(["txt", "gbk", "gb", "gb", "gbk", "gb"]))
    for key in probes(names, [])[:12]:
        attempt(("oneshot", n, key), reg.__getitem__, key)
    mem.close()

# on disk
tmp = tempfile.mkdtemp(prefix="r13_fs_")
atexit.register(shutil.rmtree, tmp, True)
with fs.open_fs(tmp) as target:
    names = populate(target, 14)
log("osfs", sorted(names))
for ext in EXTENSIONS[:9]:
    for base in (ytk.YTKPart, cidar.CIDARPart, ytk.YTKPart3):
        reg = FilesystemRegistry(tmp, base) if ext is None else FilesystemRegistry(tmp, base, ext)
        exercise(("osfs", repr(ext), base.__name__), reg, names)


# user subclasses
class Renamed(FilesystemRegistry):
    def __getitem__(self, item):
        found = super(Renamed, self).__getitem__(item.lower())
        return found._replace(id=item, name=found.name.upper())

    def __iter__(self):
        return (name.upper() for name in super(Renamed, self).__iter__())


class Fallback(FilesystemRegistry):
    def __getitem__(self, item):
        try:
            return FilesystemRegistry.__getitem__(self, item)
        except (KeyError, RuntimeError) as err:
            return Item(id=str(item), name=type(err).__name__ + str(err), entity=None, resistance=None)

    def __contains__(self, item):
        return self[item].entity is not None


for n in range(30):
    mem = fs.open_fs("mem://")
    names = populate(mem, 4)
    reg = Renamed(mem, ytk.YTKPart)
    for key in probes(names, [])[:20]:
        if isinstance(key, str):
            attempt(("renamed", n, key), reg.__getitem__, key.upper())
    attempt(("renamed", n, "values"), lambda: sorted(describe(list(reg.values()))))
    reg = Fallback(mem, cidar.CIDARPart, ("gb", "txt"))
    for key in probes(names, [])[:20]:
        attempt(("fallback", n, key), lambda: tuple(reg[key])[:2])
        attempt(("fallback", n, key, "in"), lambda: key in reg)
    mem.close()

finish()
