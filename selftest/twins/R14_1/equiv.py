# coding: utf-8
"""Differential test: prints a digest that must be identical before/after."""
import sys

sys.path.insert(0, "/tmp/agentsR3/R14")
import tests  # noqa: F401,E402  (splices the kit packages into the moclo namespace)

import hashlib  # noqa: E402
import re  # noqa: E402
import random  # noqa: E402
import warnings  # noqa: E402

warnings.simplefilter("ignore")

from Bio.Seq import Seq  # noqa: E402
from Bio.SeqFeature import (  # noqa: E402
    SeqFeature,
    FeatureLocation,
    CompoundLocation,
    Reference,
)
from Bio.SeqRecord import SeqRecord  # noqa: E402
from Bio.Restriction import BpiI, BsaI, BsmBI, SapI, SacI  # noqa: E402

from moclo import errors  # noqa: E402
from moclo.record import CircularRecord  # noqa: E402
from moclo.regex import DNARegex, SeqMatch  # noqa: E402
from moclo.core import (  # noqa: E402
    AbstractModule,
    AbstractVector,
    AbstractPart,
    Entry,
    EntryVector,
    Product,
    Cassette,
    CassetteVector,
)

RESULTS = []
ADDRESS = re.compile(r" at 0x[0-9a-fA-F]+")


def show_loc(loc):
    if loc is None:
        return None
    return [
        (int(p.start), int(p.end), p.strand, p.ref, p.ref_db, type(p).__name__)
        for p in loc.parts
    ] + [type(loc).__name__, getattr(loc, "operator", None)]


def show_ref(ref):
    if isinstance(ref, Reference):
        return ("Reference", ref.title, ref.authors, ref.journal, show_loc_list(ref.location))
    return repr(ref)


def show_loc_list(locs):
    return [show_loc(l) for l in locs]


def show_ann(ann):
    out = []
    for k, v in ann.items():  # insertion order is part of the behaviour
        if k == "references":
            out.append((k, [show_ref(r) for r in v]))
        else:
            out.append((k, repr(v)))
    return out


def show_feat(f):
    quals = []
    for k, v in f.qualifiers.items():
        if k == "citation":
            quals.append((k, [show_ref(r) for r in v]))
        else:
            quals.append((k, repr(v)))
    return (f.type, f.id, show_loc(f.location), quals)


def show(obj):
    """A stable, deep description of a value."""
    if isinstance(obj, SeqRecord):
        return (
            type(obj).__name__,
            str(obj.seq),
            obj.id,
            obj.name,
            obj.description,
            list(obj.dbxrefs),
            [show_feat(f) for f in obj.features],
            show_ann(obj.annotations),
            sorted((k, repr(v)) for k, v in obj.letter_annotations.items()),
        )
    if isinstance(obj, Seq):
        return ("Seq", str(obj))
    if isinstance(obj, SeqMatch):
        return ("SeqMatch", obj.start(), obj.end(), obj.span(), obj.shift)
    if isinstance(obj, (list, tuple)):
        return [show(o) for o in obj]
    if isinstance(obj, BaseException):
        return ("EXC", type(obj).__name__, ADDRESS.sub(" at 0x?", str(obj)))
    return ADDRESS.sub(" at 0x?", repr(obj))


def attempt(label, func, *args, **kwargs):
    """Run func, record the result or the exception and the warnings."""
    with warnings.catch_warnings(record=True) as caught:
        warnings.simplefilter("always")
        try:
            res = ("OK", show(func(*args, **kwargs)))
        except Exception as exc:  # noqa: B902
            res = (
                "EXC",
                type(exc).__name__,
                ADDRESS.sub(" at 0x?", str(exc)),
                repr(getattr(exc, "details", None)),
            )
    warns = [
        (w.category.__name__, str(w.message))
        for w in caught
        if issubclass(w.category, errors.MocloError)
    ]
    RESULTS.append((label, res, warns))
    return res


def record_value(label, value):
    RESULTS.append((label, show(value)))


def digest():
    blob = repr(RESULTS).encode("utf-8")
    print(len(RESULTS), hashlib.sha256(blob).hexdigest())


def rand_dna(rng, n, alphabet="ACGT"):
    return "".join(rng.choice(alphabet) for _ in range(n))


SITES = ("GAAGAC", "GTCTTC", "GGTCTC", "GAGACC", "CGTCTC", "GAGACG", "GCTCTTC", "GAAGAGC", "GAGCTC")


def clean_dna(rng, n):
    """Random DNA without any of the restriction sites used here."""
    while True:
        s = rand_dna(rng, n)
        if not any(site in s for site in SITES):
            return s


def mixcase(rng, s):
    return "".join(c.lower() if rng.random() < 0.5 else c for c in s)


def rc(s):
    return str(Seq(s).reverse_complement())


def decorate(rng, rec, ncit=2, none_loc=False):
    """Add features (some wrapping the origin), references and citations."""
    n = len(rec)
    refs = []
    for i in range(rng.randint(0, 3)):
        r = Reference()
        r.title = "title {} of {}".format(i, rec.id)
        r.authors = "author {}".format(rng.randint(0, 2))
        r.journal = "journal"
        refs.append(r)
    if refs or rng.random() < 0.3:
        rec.annotations["references"] = refs
    for i in range(rng.randint(0, 4)):
        a, b = sorted((rng.randrange(n), rng.randrange(n)))
        strand = rng.choice([1, -1, None])
        if rng.random() < 0.25 and 0 < a < b:
            loc = CompoundLocation(
                [FeatureLocation(b, n, strand), FeatureLocation(0, a, strand)]
            )
        else:
            loc = FeatureLocation(a, max(b, a + 1), strand)
        quals = {"label": ["feat{}".format(i)]}
        if refs and rng.random() < 0.6:
            quals["citation"] = [
                "[{}]".format(rng.randint(1, len(refs)))
                for _ in range(rng.randint(1, ncit))
            ]
        rec.features.append(SeqFeature(loc, type=rng.choice(["CDS", "misc_feature", "source"]), qualifiers=quals))
    if rng.random() < 0.3:
        rec.features.append(SeqFeature(FeatureLocation(0, n), type="source", qualifiers={"label": ["whole"]}))
    if none_loc and rng.random() < 0.2:
        rec.features.append(SeqFeature(None, type="misc_feature"))
    return rec


def rotate(rng, rec):
    """Rotate by amounts possibly negative or larger than the length."""
    n = len(rec)
    k = rng.choice([0, 1, n - 1, n, n + 3, -2, -n - 5, rng.randrange(n), 3 * n + rng.randrange(n)])
    return rec >> k if rng.random() < 0.5 else rec << k


# --- Golden Gate material for the Type IIS enzymes with a 4 nt 5' overhang ---

ENZ = {
    "BpiI": (BpiI, "GAAGAC", "NN"),
    "BsaI": (BsaI, "GGTCTC", "N"),
    "BsmBI": (BsmBI, "CGTCTC", "N"),
}


def module_seq(rng, enz, oh1, oh2, n=None, illegal=False):
    _, site, pad = ENZ[enz]
    n = rng.randint(1, 30) if n is None else n
    target = clean_dna(rng, n)
    if illegal:
        target = target + site + clean_dna(rng, 3)
    body = (
        site + rand_dna(rng, len(pad)) + oh1 + target + oh2
        + rand_dna(rng, len(pad)) + rc(site)
    )
    return body + clean_dna(rng, rng.randint(0, 25))


def vector_seq(rng, enz, oh_start, oh_end, illegal=False):
    """Vector whose overhang_start() is oh_start and overhang_end() is oh_end."""
    _, site, pad = ENZ[enz]
    placeholder = clean_dna(rng, rng.randint(0, 20))
    backbone = clean_dna(rng, rng.randint(5, 40))
    if illegal:
        backbone = backbone + site + clean_dna(rng, 4)
    return (
        oh_end + rand_dna(rng, len(pad)) + rc(site) + placeholder + site
        + rand_dna(rng, len(pad)) + oh_start + backbone
    )


def overhangs(rng, k):
    """k distinct 4-mers, none the reverse complement of another nor palindromic."""
    out = []
    while len(out) < k:
        o = rand_dna(rng, 4)
        if o in out or rc(o) in out or rc(o) == o:
            continue
        out.append(o)
    return out


class BpiModule(AbstractModule):
    cutter = BpiI


class BpiVector(AbstractVector):
    cutter = BpiI


class BsaEntry(Entry):
    cutter = BsaI


class BsaCassetteVector(CassetteVector):
    cutter = BsaI


class BsmProduct(Product):
    cutter = BsmBI


class BsmEntryVector(EntryVector):
    cutter = BsmBI


class SapModule(AbstractModule):  # 3 nt overhang
    cutter = SapI


class SacModule(AbstractModule):  # not Type IIS, 3' overhang
    cutter = SacI


class SacVector(AbstractVector):
    cutter = SacI


KIT = {
    "BpiI": (BpiModule, BpiVector),
    "BsaI": (BsaEntry, BsaCassetteVector),
    "BsmBI": (BsmProduct, BsmEntryVector),
}


def make_record(rng, seq, id_, circular_cls=True, topology=None):
    if rng.random() < 0.4:
        seq = mixcase(rng, seq)
    if circular_cls:
        rec = CircularRecord(Seq(seq), id=id_, name=id_ + "_name")
    else:
        rec = SeqRecord(Seq(seq), id=id_, name=id_ + "_name")
    if topology is not None:
        rec.annotations["topology"] = topology
    return rec


def assembly_case(rng, enz=None, nmods=None):
    """Return (vector, modules) for a (possibly broken) assembly."""
    enz = enz or rng.choice(sorted(ENZ))
    mcls, vcls = KIT[enz]
    nmods = nmods or rng.randint(1, 4)
    ohs = overhangs(rng, nmods + 1)
    vrec = make_record(rng, vector_seq(rng, enz, ohs[-1], ohs[0], illegal=rng.random() < 0.02), "vec")
    vrec = rotate(rng, decorate(rng, vrec))
    mods = []
    for i in range(nmods):
        mrec = make_record(rng, module_seq(rng, enz, ohs[i], ohs[i + 1], illegal=rng.random() < 0.02), "mod{}".format(i))
        mods.append(rotate(rng, decorate(rng, mrec)))
    return enz, vcls, mcls, vrec, mods, ohs


def entity_probe(label, ent):
    """Everything public an entity can tell about its record."""
    attempt(label + ".is_valid", ent.is_valid)
    attempt(label + ".overhang_start", ent.overhang_start)
    attempt(label + ".overhang_end", ent.overhang_end)
    attempt(label + ".target_sequence", ent.target_sequence)
    if hasattr(ent, "placeholder_sequence"):
        attempt(label + ".placeholder_sequence", ent.placeholder_sequence)
    attempt(label + ".is_valid(again)", ent.is_valid)


def run_assembly_scenarios(rng, count, probe=True):
    for case in range(count):
        enz, vcls, mcls, vrec, mods, ohs = assembly_case(rng)
        kind = rng.choice(
            ["ok", "ok", "ok", "dup", "missing", "unused", "rcdup", "samevec",
             "junk", "badcite", "linear", "same_obj_twice", "lower_dup"]
        )
        if kind == "dup":
            i = rng.randrange(len(mods))
            mods.append(make_record(rng, module_seq(rng, enz, ohs[i], rand_dna(rng, 4)), "dupmod"))
        elif kind == "lower_dup":
            i = rng.randrange(len(mods))
            mods.insert(0, make_record(rng, module_seq(rng, enz, ohs[i], ohs[i + 1]).lower(), "lowdup"))
        elif kind == "missing":
            del mods[rng.randrange(len(mods))]
        elif kind == "unused":
            a, b = overhangs(rng, 2)
            mods.append(decorate(rng, make_record(rng, module_seq(rng, enz, a, b), "extra")))
            if rng.random() < 0.5:
                c, d = overhangs(rng, 2)
                mods.insert(0, make_record(rng, module_seq(rng, enz, c, d), "extra2"))
        elif kind == "rcdup":
            i = rng.randrange(len(mods))
            mods.append(make_record(rng, module_seq(rng, enz, rc(ohs[i]), rand_dna(rng, 4)), "rcmod"))
        elif kind == "samevec":
            vrec = make_record(rng, vector_seq(rng, enz, ohs[0], ohs[0]), "samevec")
        elif kind == "junk":
            mods[rng.randrange(len(mods))] = make_record(rng, clean_dna(rng, 40), "junk")
        elif kind == "badcite":
            victim = rng.choice(mods + [vrec])
            victim.features.append(
                SeqFeature(FeatureLocation(0, 1), type="misc_feature",
                           qualifiers={"citation": [rng.choice(["1", "[x]", "[]", "[99]", "[0]", "[1"])]})
            )
        elif kind == "linear":
            victim = rng.choice(mods + [vrec])
            victim.annotations["topology"] = rng.choice(["linear", "Linear", "CIRCULAR"])
        rng.shuffle(mods)
        vector = vcls(vrec)
        modules = [mcls(m) for m in mods]
        if kind == "same_obj_twice":
            modules.append(modules[0])
        if not modules:
            modules = [mcls(make_record(rng, clean_dna(rng, 30), "lonely"))]
        label = "asm{}:{}".format(case, kind)
        kwargs = rng.choice([{}, {"id": "myid"}, {"name": "myname", "id": "x"}])
        attempt(label, vector.assemble, *modules, **kwargs)
        # the arguments are mutated (citations) : record their state afterwards
        record_value(label + ":vec-after", vector.record)
        for m in modules:
            record_value(label + ":mod-after", m.record)
        if probe:
            entity_probe(label + ":vec", vector)
            for j, m in enumerate(modules):
                entity_probe(label + ":mod{}".format(j), m)
        # a second assembly with the very same (mutated, cached) objects
        if case % 3 == 0:
            attempt(label + ":again", vector.assemble, *modules)


# === R14_1: private renames in regex.py / core/_structured.py ===============

def regex_scenarios(rng, count):
    letters = "ACGTBDHKMNRSVWY"
    for case in range(count):
        # a pattern with IUPAC codes, lower case letters, groups and quantifiers
        pieces = []
        for _ in range(rng.randint(1, 3)):
            core = "".join(rng.choice(letters) for _ in range(rng.randint(1, 3)))
            if rng.random() < 0.3:
                core = core.lower() if rng.random() < 0.5 else mixcase(rng, core)
            form = rng.choice(["{}", "({})", "({})", "{}N*", "{}N*?", "(?:{})", "{}{{1,2}}"])
            pieces.append(form.format(core))
        pattern = "".join(pieces)
        try:
            rx = DNARegex(pattern)
        except Exception as exc:  # noqa: B902
            RESULTS.append(("rx-fail", pattern, type(exc).__name__, str(exc)))
            continue
        record_value("rx{}".format(case), (rx.pattern, rx.regex.pattern, rx.regex.flags, rx.regex.groups))
        for sub in range(4):
            n = rng.randint(1, 60)
            text = rand_dna(rng, n, rng.choice(["ACGT", "ACGTN", "AC"]))
            if rng.random() < 0.3:
                text = mixcase(rng, text)
            target = rng.choice(
                [
                    Seq(text),
                    SeqRecord(Seq(text), id="lin"),
                    CircularRecord(Seq(text), id="circ"),
                    text,  # TypeError
                ]
            )
            kwargs = rng.choice(
                [
                    {},
                    {"linear": False},
                    {"linear": True},
                    {"pos": rng.randrange(n)},
                    {"pos": rng.randrange(n), "endpos": rng.randrange(n + 3)},
                    {"endpos": 0},
                    {"pos": n + 2, "linear": False},
                ]
            )
            label = "rx{}.{}".format(case, sub)
            with warnings.catch_warnings():
                warnings.simplefilter("ignore")
                try:
                    m = rx.search(target, **kwargs)
                except Exception as exc:  # noqa: B902
                    RESULTS.append((label, "EXC", type(exc).__name__, str(exc)))
                    continue
            if m is None:
                RESULTS.append((label, None))
                continue
            record_value(label, m)
            for g in range(rx.regex.groups + 2):
                attempt(label + ".span{}".format(g), m.span, g)
                attempt(label + ".group{}".format(g), m.group, g)


def slot_scenarios(rng):
    """The compiled structure is kept per class, not inherited."""

    class Base(AbstractModule):
        cutter = BpiI

    class SameCutter(Base):
        pass

    class OtherCutter(Base):
        cutter = BsaI

    class Custom(OtherCutter):
        @classmethod
        def structure(cls):
            return "GGTCTCN(AATG)(NN*?N)(GCTT)NGAGACC"

    class CustomChild(Custom):
        cutter = BsmBI  # structure() is inherited, the cutter check is not

    class NoCutter(AbstractModule):
        pass

    class PartBase(AbstractPart):
        cutter = BsaI

    class PartA(PartBase, BsaEntry):
        signature = ("AATG", "GCTT")

    class PartV(PartBase, BsaCassetteVector):
        signature = ("AATG", "GCTT")

    class PartNoSig(PartBase, BsaEntry):
        pass

    order = [Base, SameCutter, OtherCutter, Custom, CustomChild, PartA, PartV, PartNoSig]
    for round_ in range(3):
        rng.shuffle(order)
        for cls in order:
            attempt("slot-structure:" + cls.__name__, cls.structure)
            for enz, (oh1, oh2) in (("BpiI", ("AATG", "GCTT")), ("BsaI", ("AATG", "GCTT")),
                                    ("BsaI", ("ACCA", "GCTT")), ("BsmBI", ("AATG", "GCTT"))):
                seq = module_seq(rng, enz, oh1, oh2)
                ent = cls(rotate(rng, make_record(rng, seq, "rec")))
                entity_probe("slot:{}:{}:{}".format(cls.__name__, enz, oh1), ent)
                vseq = vector_seq(rng, enz, oh1, oh2)
                ent = cls(rotate(rng, make_record(rng, vseq, "vrec")))
                entity_probe("slotv:{}:{}:{}".format(cls.__name__, enz, oh1), ent)
    attempt("nocutter", NoCutter, make_record(rng, "ACGT", "x"))
    for cls in (PartBase, PartA, PartV):
        for enz, oh in (("BsaI", ("AATG", "GCTT")), ("BpiI", ("AATG", "GCTT"))):
            rec = make_record(rng, module_seq(rng, enz, *oh), "charac")
            with warnings.catch_warnings():
                warnings.simplefilter("ignore")
                try:
                    ent = cls.characterize(rec)
                    RESULTS.append(("characterize", cls.__name__, enz, type(ent).__name__))
                except Exception as exc:  # noqa: B902
                    RESULTS.append(("characterize", cls.__name__, enz, type(exc).__name__, str(exc)))


def kit_scenarios():
    """Official parts: every YTK type against a few records of the registry."""
    from moclo.kits import ytk
    from moclo.registry.ytk import YTKRegistry

    reg = YTKRegistry()
    classes = [ytk.YTKPart1, ytk.YTKPart234r, ytk.YTKPart8, ytk.YTKEntry, ytk.YTKCassetteVector, ytk.YTKProduct]
    for key in sorted(reg)[::6]:
        rec = reg[key].entity.record
        for cls in classes:
            entity_probe("ytk:{}:{}".format(key, cls.__name__), cls(rec))


rng = random.Random(14001)
regex_scenarios(rng, 150)
slot_scenarios(rng)
run_assembly_scenarios(rng, 80)
kit_scenarios()
digest()
