# coding: utf-8
"""Differential test for the C03_s1 pull request (shared base classes for
modules / vectors / parts, and kit vector structures derived from a template).

Run as ``cd /tmp/agents8/C03 && /venv/bin/python pairs_out/C03_s1/equiv.py``;
prints a digest of everything observed (``--dump`` prints the lines as well).
"""
import sys

sys.path.insert(0, "/tmp/agents8/C03")
import tests  # noqa: E402,F401

import copy  # noqa: E402
import hashlib  # noqa: E402
import inspect  # noqa: E402
import itertools  # noqa: E402
import random  # noqa: E402
import warnings  # noqa: E402

from Bio import Restriction  # noqa: E402
from Bio.Restriction import BsaI, BbsI, BpiI, BsmBI, BtsI, EcoRV  # noqa: E402
from Bio.Seq import Seq  # noqa: E402
from Bio.SeqFeature import SeqFeature, FeatureLocation  # noqa: E402
from Bio.SeqRecord import SeqRecord  # noqa: E402

import moclo.core  # noqa: E402
from moclo import errors  # noqa: E402
from moclo.core import modules, vectors, parts  # noqa: E402
from moclo.core._structured import StructuredRecord  # noqa: E402
from moclo.kits import ytk, cidar, ecoflex, moclo as mocloKit, plant  # noqa: E402
from moclo.record import CircularRecord  # noqa: E402

LINES = []


def out(*fields):
    LINES.append(" | ".join(str(f) for f in fields).replace("\n", "\\n"))


def rc(s):
    return str(Seq(s).reverse_complement())


def outcome(func, *args, **kwargs):
    """Call and describe the result or the exception (type and message)."""
    try:
        with warnings.catch_warnings(record=True) as caught:
            warnings.simplefilter("always")
            res = func(*args, **kwargs)
    except Exception as exc:  # noqa
        return "EXC {}: {}".format(type(exc).__name__, describe_exc(exc))
    ws = [
        "{}: {}".format(type(w.message).__name__, w.message)
        for w in caught
        if isinstance(w.message, errors.MocloError)
    ]
    return "OK {} {}".format(describe(res), ws)


def describe_exc(exc):
    if isinstance(exc, errors.InvalidSequence):
        seq = exc.sequence
        if isinstance(seq, SeqRecord):
            return "<{} {}> details={!r}".format(type(seq).__name__, seq.id, exc.details)
        if isinstance(seq, StructuredRecord):
            return "<{} {}> details={!r}".format(
                type(seq).__name__, seq.record.id, exc.details
            )
        return "{} details={!r}".format(str(seq), exc.details)
    if isinstance(exc, errors.DuplicateModules):
        return "{} dup={}".format(exc, [d.record.id for d in exc.duplicates])
    if isinstance(exc, errors.MissingModule):
        return "{} start={!r}".format(exc, str(exc.start_overhang))
    return str(exc)


def describe_features(rec):
    feats = []
    for f in rec.features:
        quals = sorted((k, str(v)) for k, v in f.qualifiers.items())
        feats.append("{}@{}:{}".format(f.type, f.location, quals))
    return feats


def describe(res):
    if isinstance(res, SeqRecord):
        return "<{} id={} name={} seq={} feats={} ann={}>".format(
            type(res).__name__,
            res.id,
            res.name,
            str(res.seq),
            describe_features(res),
            sorted((k, str(v)) for k, v in res.annotations.items()),
        )
    if isinstance(res, Seq):
        return "Seq({})".format(str(res))
    return repr(res)


def state(rec):
    return "{}:{}:{}:{}:{}".format(
        type(rec).__name__,
        rec.id,
        hashlib.md5(str(rec.seq).encode()).hexdigest()[:8],
        describe_features(rec),
        sorted((k, str(v)) for k, v in rec.annotations.items()),
    )


# --- A. class families -------------------------------------------------------

PUBLIC_BASES = [
    StructuredRecord,
    modules.AbstractModule,
    modules.Product,
    modules.Entry,
    modules.Cassette,
    modules.Device,
    vectors.AbstractVector,
    vectors.EntryVector,
    vectors.CassetteVector,
    vectors.DeviceVector,
    parts.AbstractPart,
]

KIT_MODULES = [
    ("core.modules", modules),
    ("core.vectors", vectors),
    ("core.parts", parts),
    ("ytk", ytk),
    ("cidar", cidar),
    ("ecoflex", ecoflex),
    ("moclo", mocloKit),
    ("plant", plant),
]

DUMMY = CircularRecord(Seq("ATGCATGCATGC"), id="dummy")


def all_classes():
    seen = []
    for label, mod in KIT_MODULES:
        for name, obj in sorted(vars(mod).items()):
            if inspect.isclass(obj) and issubclass(obj, StructuredRecord):
                if obj is StructuredRecord or obj.__module__ != mod.__name__:
                    continue
                seen.append((label, name, obj))
    return seen


def section_classes():
    for label, name, cls in all_classes():
        out(
            "CLASS", label, name, cls.__name__, cls.__module__,
            [b.__name__ for b in PUBLIC_BASES if issubclass(cls, b)],
            [c.__name__ for c in cls.__mro__
             if c in PUBLIC_BASES or c.__module__.startswith("moclo.kits")],
            getattr(cls, "_level", "-"),
            getattr(cls, "cutter", "-"),
            getattr(cls, "signature", "-"),
            (cls.__doc__ or "")[:30],
        )
        out("STRUCT", label, name, outcome(cls.structure))
        out("STRUCT2", label, name, outcome(lambda: cls._get_regex().pattern))
        out("NEW", label, name, outcome(lambda: type(cls(DUMMY)).__name__))
        out("VALID", label, name, outcome(lambda: cls(DUMMY).is_valid()))
        for meth in ("structure", "overhang_start", "overhang_end", "target_sequence",
                     "placeholder_sequence", "assemble", "characterize", "is_valid"):
            if hasattr(cls, meth):
                f = getattr(cls, meth)
                out("SIG", label, name, meth, outcome(lambda: str(inspect.signature(f))),
                    (inspect.getdoc(f) or "")[:40])


# --- B. cutter validation ---------------------------------------------------


def section_cutters():
    unknown = sorted((e for e in Restriction.AllEnzymes if e.is_unknown()), key=str)[0]
    for base in (modules.AbstractModule, modules.Entry, vectors.AbstractVector,
                 vectors.DeviceVector, parts.AbstractPart):
        for cutter in (NotImplemented, EcoRV, unknown, BsaI, BtsI):
            cls = type(str("Tmp{}".format(base.__name__)), (base,), {"cutter": cutter})
            out("CUTTER", base.__name__, cutter, outcome(lambda: type(cls(DUMMY)).__name__))
            out("CUTTER-S", base.__name__, cutter, outcome(cls.structure))
            out("CUTTER-V", base.__name__, cutter, outcome(lambda: cls(DUMMY).is_valid()))
    # parts combined with modules / vectors, cutter declared on one side only
    for side in (modules.Entry, vectors.CassetteVector):
        withcut = type(str("WithCutter"), (side,), {"cutter": BsaI})
        p1 = type(str("PartFirst"), (parts.AbstractPart, withcut), {"signature": ("AACG", "TATG")})
        p2 = type(str("PartCut"), (parts.AbstractPart, withcut),
                  {"signature": ("AACG", "TATG"), "cutter": BsaI})
        p3 = type(str("PartNoSig"), (parts.AbstractPart, withcut), {"cutter": BsaI})
        for p in (p1, p2, p3):
            out("PARTMIX", side.__name__, p.__name__, outcome(lambda: type(p(DUMMY)).__name__),
                outcome(p.structure), outcome(lambda: p(DUMMY).is_valid()),
                [c.__name__ for c in p.__mro__ if c in PUBLIC_BASES])


# --- C. generated records ---------------------------------------------------

SITES = {"BsaI": ("GGTCTC", 1), "BbsI": ("GAAGAC", 2), "BpiI": ("GAAGAC", 2), "BsmBI": ("CGTCTC", 1)}
ALL_SITES = ["GGTCTC", "GAGACC", "GAAGAC", "GTCTTC", "CGTCTC", "GAGACG"]
BACKBONE = "TTAATTAACCTTAATTAAGGTTAATTAATT"


def payload(i, n=10):
    bits = format(i, "0{}b".format(n))
    return "AT" + "".join("A" if b == "0" else "T" for b in bits) + "TA"


def module_seq(cutter, start, end, idx, backbone=BACKBONE):
    site, gap = SITES[str(cutter)]
    return site + "A" * gap + start + payload(idx) + end + "T" * gap + rc(site) + backbone


# layout of the kit vectors: (outer site, outer gap, adjacent outer overhang ?)
VECTOR_LAYOUT = {
    "CIDAREntryVector": ("GGTCTC", 1, False),
    "CIDARCassetteVector": ("GAAGAC", 2, False),
    "CIDARDeviceVector": ("GGTCTC", 1, False),
    "EcoFlexCassetteVector": ("CGTCTC", 1, True),
    "EcoFlexDeviceVector": ("GGTCTC", 1, True),
    "MoCloEntryVector": ("GGTCTC", 1, False),
    "MoCloCassetteVector": ("GAAGAC", 2, True),
}


def vector_seq(cls, end, start, filler="ACACAC", outer=("CATG", "GTCA"), backbone=BACKBONE):
    """vector: ...[outer]-end-(placeholder)-start-[outer]... (end = downstream overhang)"""
    site, gap = SITES[str(cls.cutter)]
    left, right = "C", "G"
    layout = VECTOR_LAYOUT.get(cls.__name__)
    if layout is not None:
        osite, ogap, adjacent = layout
        left = osite + "A" * ogap + (outer[0] if adjacent else "")
        right = (outer[1] if adjacent else "") + "T" * ogap + rc(osite)
    return "".join([
        backbone[:12], left, end, "T" * gap, rc(site), filler, site, "A" * gap, start, right,
        backbone[12:],
    ])


def mixcase(s, rng):
    return "".join(c.lower() if rng.random() < 0.5 else c for c in s)


MODULE_CLASSES = [
    ytk.YTKEntry, ytk.YTKCassette, cidar.CIDARProduct, cidar.CIDAREntry, cidar.CIDARCassette,
    cidar.CIDARDevice, ecoflex.EcoFlexEntry, ecoflex.EcoFlexCassette, ecoflex.EcoFlexDevice,
    mocloKit.MoCloProduct, mocloKit.MoCloEntry, mocloKit.MoCloCassette,
]
VECTOR_CLASSES = [
    ytk.YTKEntryVector, ytk.YTKCassetteVector, ytk.YTKDeviceVector,
    cidar.CIDAREntryVector, cidar.CIDARCassetteVector, cidar.CIDARDeviceVector,
    ecoflex.EcoFlexCassetteVector, ecoflex.EcoFlexDeviceVector,
    mocloKit.MoCloEntryVector, mocloKit.MoCloCassetteVector,
    mocloKit.MoCloSingleCassetteVector, mocloKit.MoCloDeviceVector,
]
OVERHANGS = ["AACG", "CGTT", "TATG", "ACGT", "GCTG", "TACA"]


def probe(tag, entity):
    """Everything observable on a module / vector instance (twice: caching)."""
    for attempt in (1, 2):
        out(tag, attempt, "valid", outcome(entity.is_valid))
        out(tag, attempt, "start", outcome(entity.overhang_start))
        out(tag, attempt, "end", outcome(entity.overhang_end))
        out(tag, attempt, "target", outcome(entity.target_sequence))
        if hasattr(entity, "placeholder_sequence"):
            out(tag, attempt, "placeholder", outcome(entity.placeholder_sequence))
    out(tag, "state", state(entity.record))


def variants(seq, rng, ident):
    feats = [
        SeqFeature(FeatureLocation(2, 20), type="misc_feature", qualifiers={"label": ["f1"]}),
        SeqFeature(FeatureLocation(0, len(seq)), type="source", qualifiers={"label": ["whole"]}),
    ]
    yield "circ", CircularRecord(Seq(seq), id=ident, features=copy.deepcopy(feats))
    yield "plain", SeqRecord(Seq(seq), id=ident)
    yield "linear", SeqRecord(Seq(seq), id=ident, annotations={"topology": "linear"})
    for shift in (7, len(seq) // 2, len(seq) - 9):
        yield "rot{}".format(shift), CircularRecord(
            Seq(seq), id=ident, features=copy.deepcopy(feats)) >> shift
        yield "rotlin{}".format(shift), SeqRecord(
            Seq(seq[-shift:] + seq[:-shift]), id=ident, annotations={"topology": "linear"})
    yield "lower", CircularRecord(Seq(seq.lower()), id=ident)
    yield "mixed", CircularRecord(Seq(mixcase(seq, rng)), id=ident) >> 11


def section_records():
    rng = random.Random(303)
    idx = 0
    for cls in MODULE_CLASSES:
        for start, end in [("AACG", "TATG"), ("ACGT", "CGTT"), ("TATG", "TATG")]:
            idx += 1
            seq = module_seq(cls.cutter, start, end, idx)
            for label, rec in variants(seq, rng, "m{}".format(idx)):
                probe("MOD {} {}>{} {}".format(cls.__name__, start, end, label), cls(rec))
        site, gap = SITES[str(cls.cutter)]
        good = module_seq(cls.cutter, "AACG", "TATG", 999)
        bad = {
            "illegal-in": good.replace(payload(999), payload(999)[:6] + site + payload(999)[6:]),
            "illegal-rc": good.replace(payload(999), payload(999)[:6] + rc(site) + payload(999)[6:]),
            "outside": good + site + "ACACACAC",
            "nosite": good.replace(site, "ACACAC"),
            "short": "ATG",
        }
        for label, seq in sorted(bad.items()):
            probe("MODBAD {} {}".format(cls.__name__, label),
                  cls(CircularRecord(Seq(seq), id="bad")))
            probe("MODBAD {} {} rot".format(cls.__name__, label),
                  cls(CircularRecord(Seq(seq), id="bad") >> 1))
    for cls in VECTOR_CLASSES:
        for end, start in [("AACG", "TATG"), ("ACGT", "CGTT"), ("TATG", "TATG"), ("CATG", "GTCA")]:
            idx += 1
            seq = vector_seq(cls, end, start)
            for label, rec in variants(seq, rng, "v{}".format(idx)):
                probe("VEC {} {}>{} {}".format(cls.__name__, end, start, label), cls(rec))
        site, gap = SITES[str(cls.cutter)]
        good = vector_seq(cls, "AACG", "TATG")
        bad = {
            "illegal-in": vector_seq(cls, "AACG", "TATG", filler="ACAC" + site + "ACAC"),
            "two-placeholders": vector_seq(cls, "AACG", "TATG", filler="ACAC" + site + "AAAAAAAAAAAA" + rc(site) + "ACAC"),
            "nosite": good.replace(site, "ACACAC"),
            "halfouter": good.replace("GGTCTC", "GGTCTA") if "GGTCTC" in good else good.replace(rc(site), "ACACAC"),
            "short": "ATG",
        }
        for label, seq in sorted(bad.items()):
            probe("VECBAD {} {}".format(cls.__name__, label),
                  cls(CircularRecord(Seq(seq), id="bad")))


# --- D. 3' overhang cutters -------------------------------------------------


class ThreeModule(modules.Entry):
    cutter = BtsI

    @staticmethod
    def structure():
        return "GCAGTG(NN)(NN*N)(NN)CACTGC"


class ThreeVector(vectors.EntryVector):
    cutter = BtsI

    @staticmethod
    def structure():
        return "(NN)(CACTGCN*GCAGTG)(NN)"


class ThreeGenericModule(modules.Entry):
    cutter = BtsI


class ThreeGenericVector(vectors.EntryVector):
    cutter = BtsI


def section_three():
    mseq = "GCAGTG" + "AC" + payload(5) + "GT" + "CACTGC" + BACKBONE
    vseq = BACKBONE[:10] + "AC" + "CACTGC" + "ATATAT" + "GCAGTG" + "GT" + BACKBONE[10:]
    for shift in (0, 5, 33):
        for cls, seq in ((ThreeModule, mseq), (ThreeGenericModule, mseq),
                         (ThreeVector, vseq), (ThreeGenericVector, vseq)):
            rec = CircularRecord(Seq(seq), id="three") >> shift
            probe("THREE {} {}".format(cls.__name__, shift), cls(rec))
    v = ThreeVector(CircularRecord(Seq(vseq), id="v3"))
    m = ThreeModule(CircularRecord(Seq(mseq), id="m3"))
    out("THREE assemble", outcome(v.assemble, m))


# --- E. assemblies ------------------------------------------------------------


def citation_features(n):
    return [
        SeqFeature(FeatureLocation(1, 9), type="misc_feature",
                   qualifiers={"label": ["cited"], "citation": ["[1]"] if n else []}),
    ]


def section_assemblies():
    rng = random.Random(17)
    by_cutter = {}
    for cls in MODULE_CLASSES:
        by_cutter.setdefault(str(cls.cutter), []).append(cls)
    by_cutter["BbsI"] = by_cutter["BpiI"] = by_cutter["BbsI"] + by_cutter["BpiI"]
    idx = 2000
    for vcls in VECTOR_CLASSES:
        mclasses = by_cutter[str(vcls.cutter)]
        vecs = {}
        for end, start in [("AACG", "GCTG"), ("TATG", "CGTT"), ("aaCG", "GCtg"),
                           ("TACA", "TACA"), ("AACG", "aacg")]:
            seq = vector_seq(vcls, end, start, outer=("GCTG", "TATG"))
            rec = CircularRecord(Seq(seq), id="vec_{}_{}".format(end, start),
                                 annotations={"references": ["ref-v"]},
                                 features=citation_features(1))
            vecs[end, start] = vcls(rec)
        pool = {}
        for s in OVERHANGS:
            for e in OVERHANGS:
                idx += 1
                mcls = mclasses[idx % len(mclasses)]
                seq = module_seq(mcls.cutter, s, e, idx)
                if idx % 5 == 0:
                    seq = mixcase(seq, rng)
                rec = CircularRecord(Seq(seq), id="{}{}_{}".format(s, e, idx))
                if idx % 3 == 0:
                    rec = rec >> (idx % len(seq))
                if idx % 4 == 0:
                    rec.annotations["references"] = ["ref-{}".format(idx)]
                    rec.features.extend(citation_features(1))
                pool[s, e] = (mcls, rec)
        keys = sorted(pool)
        combos = []
        for n in (1, 2, 3, 4):
            for _ in range({1: 12, 2: 30, 3: 40, 4: 20}[n]):
                combos.append([rng.choice(keys) for _ in range(n)])
        # a few chains that are meant to work
        combos += [
            [("AACG", "GCTG")],
            [("AACG", "TATG"), ("TATG", "GCTG")],
            [("TATG", "GCTG"), ("AACG", "TATG")],
            [("AACG", "TATG"), ("TATG", "TACA"), ("TACA", "GCTG")],
            [("TACA", "GCTG"), ("AACG", "TATG"), ("TATG", "TACA"), ("GCTG", "AACG")],
            [("TATG", "TACA"), ("TACA", "CGTT")],
            [("TATG", "TACA"), ("TACA", "TATG")],
            [("AACG", "TATG"), ("AACG", "TATG")],
        ]
        for (end, start), vec in sorted(vecs.items()):
            for combo in combos:
                fresh = {}
                mods = []
                for k in combo:
                    # repeated keys: sometimes the very same object, sometimes a twin
                    if k not in fresh or rng.random() < 0.5:
                        mcls, rec = pool[k]
                        fresh[k] = mcls(copy.deepcopy(rec))
                    mods.append(fresh[k])
                vec = type(vec)(copy.deepcopy(vec.record))
                before = [state(m.record) for m in mods] + [state(vec.record)]
                res = outcome(vec.assemble, *mods, id="asm", name="nm")
                after = [state(m.record) for m in mods] + [state(vec.record)]
                out("ASM", vcls.__name__, end, start, combo, res,
                    "unchanged" if before == after else after)


# --- F. registries -------------------------------------------------------------


def section_registries():
    from moclo.registry.ytk import YTKRegistry, PTKRegistry
    from moclo.registry.cidar import CIDARRegistry
    from moclo.registry.ecoflex import EcoFlexRegistry
    regs = [YTKRegistry, PTKRegistry, CIDARRegistry, EcoFlexRegistry]
    try:
        from moclo.registry.plant import PlantRegistry
        regs.append(PlantRegistry)
    except ImportError as err:
        out("REG plant", type(err).__name__)
    for factory in regs:
        reg = factory()
        out("REG", factory.__name__, len(reg))
        for key in sorted(reg):
            item = reg[key]
            ent = item.entity
            out("ITEM", factory.__name__, key, item.name, item.resistance, type(ent).__name__,
                outcome(ent.is_valid), outcome(ent.overhang_start), outcome(ent.overhang_end),
                outcome(lambda: hashlib.md5(str(ent.target_sequence().seq).encode()).hexdigest()))
    reg = YTKRegistry()
    for key in sorted(reg)[:40]:
        rec = reg[key].entity.record
        out("CHAR", key, outcome(lambda: type(ytk.YTKPart.characterize(rec)).__name__))


def main():
    section_classes()
    section_cutters()
    section_records()
    section_three()
    section_assemblies()
    section_registries()
    if "--dump" in sys.argv:
        for line in LINES:
            print(line)
    digest = hashlib.sha256("\n".join(LINES).encode("utf-8")).hexdigest()
    print("results:", len(LINES))
    print("digest:", digest)


if __name__ == "__main__":
    main()
