# coding: utf-8
# --- common differential-test harness (inlined in every equiv.py) ------------
import sys

sys.path.insert(0, "/tmp/agentsR3/R13")
import tests  # noqa: F401,E402  (splices the kit packages into the moclo namespace)

import atexit  # noqa: E402
import hashlib  # noqa: E402
import io  # noqa: E402
import os  # noqa: E402
import random  # noqa: E402
import shutil  # noqa: E402
import tarfile  # noqa: E402
import tempfile  # noqa: E402
import warnings  # noqa: E402

import Bio.SeqIO  # noqa: E402
import fs  # noqa: E402
from Bio.Seq import Seq  # noqa: E402
from Bio.SeqFeature import SeqFeature, FeatureLocation  # noqa: E402
from Bio.SeqRecord import SeqRecord  # noqa: E402

from tests._utils import build_registries  # noqa: E402

warnings.simplefilter("ignore")

RNG = random.Random(0x5EED13)
RESULTS = []

LABELS = [
    "KanR", "CamR", "CmR", "KnR", "AmpR", "SmR", "SpecR",  # known cassettes
    "kanr", "AMPR", "ampR", "Kanr", "specr",  # wrong letter case: not recognised
    "GFP", "ori", "AmpR promoter", "KanR-like", "",  # unrelated
]

PKG_NAME = "equivpkg_r13"
PKG_DIR = tempfile.mkdtemp(prefix="r13_equiv_")
atexit.register(shutil.rmtree, PKG_DIR, True)
os.mkdir(os.path.join(PKG_DIR, PKG_NAME))
with open(os.path.join(PKG_DIR, PKG_NAME, "__init__.py"), "w") as _f:
    _f.write("")
sys.path.insert(0, PKG_DIR)
_ARCHIVES = [0]


def log(*values):
    RESULTS.append(repr(values))


def attempt(tag, func, *args, **kwargs):
    """Run func, record either its described result or its exception."""
    try:
        out = func(*args, **kwargs)
    except BaseException as err:  # noqa: B902 (StopIteration & co. included)
        if isinstance(err, (KeyboardInterrupt, SystemExit)):
            raise
        log(tag, "EXC", type(err).__name__, str(err).replace(PKG_DIR, "<PKG>"))
        return None
    else:
        log(tag, "OK", describe(out))
        return out


def describe_record(rec):
    return (
        type(rec).__name__,
        rec.id,
        rec.name,
        rec.description,
        str(rec.seq),
        sorted((k, repr(v)) for k, v in rec.annotations.items()),
        [
            (f.type, str(f.location), sorted((k, list(v)) for k, v in f.qualifiers.items()))
            for f in rec.features
        ],
    )


def describe(obj):
    from moclo.registry.base import Item

    if isinstance(obj, Item):
        ent = obj.entity
        try:
            valid = ent.is_valid()
        except Exception as err:
            valid = (type(err).__name__, str(err))
        return (
            "Item",
            obj.id,
            obj.name,
            obj.resistance,
            type(ent).__module__,
            type(ent).__name__,
            valid,
            describe_record(ent.record),
            obj.record is ent.record,
        )
    if isinstance(obj, SeqRecord):
        return describe_record(obj)
    if isinstance(obj, (list, tuple)):
        return [describe(x) for x in obj]
    if isinstance(obj, dict):
        return [(k, describe(v)) for k, v in obj.items()]
    if isinstance(obj, type):
        return "<class {}.{}>".format(obj.__module__, obj.__name__)
    if obj is None or isinstance(obj, (str, bytes, int, float, bool)):
        return repr(obj)
    return "<{} object>".format(type(obj).__name__)  # no memory addresses in the digest


def rand_seq(n):
    return "".join(RNG.choice("ACGT") for _ in range(n))


def make_record(
    id_,
    name=None,
    description="synthetic",
    labels=(),
    comment=None,
    seq=None,
    upper=True,
):
    """Build a small annotated circular record.

    ``labels`` is a list of label lists: one feature per inner list.
    """
    seq = seq if seq is not None else rand_seq(RNG.randint(40, 120))
    if not upper:
        seq = "".join(RNG.choice((c, c.lower())) for c in seq)
    rec = SeqRecord(Seq(seq), id=id_, name=name or id_[:16], description=description)
    rec.annotations["molecule_type"] = "DNA"
    rec.annotations["topology"] = "circular"
    if comment is not None:
        rec.annotations["comment"] = comment
    for i, lbls in enumerate(labels):
        start = RNG.randint(0, len(seq) - 10)
        end = RNG.randint(start + 1, len(seq))
        quals = {"note": ["feature {}".format(i)]}
        if lbls:
            quals["label"] = list(lbls)
        rec.features.append(
            SeqFeature(
                FeatureLocation(start, end, RNG.choice((1, -1))),
                type=RNG.choice(("CDS", "misc_feature", "promoter")),
                qualifiers=quals,
            )
        )
    return rec


def rand_labels(kind=None):
    """Label lists for the features of a record.

    kind: "one" (exactly one cassette overall), "none", "multi" (one feature
    holding two cassettes), "two" (two features with one cassette each) or
    None (anything).
    """
    known = LABELS[:7]
    other = LABELS[7:]
    kind = kind or RNG.choice(("one", "one", "one", "none", "multi", "two", "any"))
    feats = [[RNG.choice(other)] if RNG.random() < 0.7 else [] for _ in range(RNG.randint(0, 2))]
    if kind == "one":
        feats.insert(RNG.randint(0, len(feats)), [RNG.choice(known)] + RNG.sample(other, RNG.randint(0, 2)))
    elif kind == "multi":
        feats.insert(RNG.randint(0, len(feats)), RNG.sample(known, 2) + RNG.sample(other, RNG.randint(0, 1)))
        if RNG.random() < 0.5:
            feats.append([RNG.choice(known)])
    elif kind == "two":
        feats.insert(RNG.randint(0, len(feats)), [RNG.choice(known)])
        feats.append([RNG.choice(known)] if RNG.random() < 0.5 else RNG.sample(known, 2))
    elif kind == "any":
        feats = [RNG.sample(LABELS, RNG.randint(0, 3)) for _ in range(RNG.randint(0, 4))]
    return feats


def to_genbank(rec):
    buff = io.StringIO()
    Bio.SeqIO.write([rec], buff, "genbank")
    return buff.getvalue()


def make_archive(records, names=None):
    """Write the records to a new tar.gz of the scratch package; return its name."""
    _ARCHIVES[0] += 1
    fname = "archive{:04d}.tar.gz".format(_ARCHIVES[0])
    with tarfile.open(os.path.join(PKG_DIR, PKG_NAME, fname), "w:gz") as tar:
        for i, rec in enumerate(records):
            data = (rec if isinstance(rec, str) else to_genbank(rec)).encode("utf-8")
            info = tarfile.TarInfo(names[i] if names else getattr(rec, "id", "entry{}".format(i)))
            info.size = len(data)
            tar.addfile(info, io.BytesIO(data))
    return fname


def subregistry(base, records, names=None, **attrs):
    """A user-defined subclass of an embedded registry over a scratch archive."""
    attrs.update(_module=PKG_NAME, _file=make_archive(records, names))
    return type(str("User" + base.__name__), (base,), attrs)


def dump_registry(tag, reg, extra_keys=("missing", "", None, 0)):
    """Exercise the whole Mapping API of a registry."""
    attempt((tag, "len"), len, reg)
    keys = attempt((tag, "iter"), lambda: list(reg)) or []
    attempt((tag, "keys"), lambda: list(reg.keys()))
    for key in list(keys) + list(extra_keys):
        attempt((tag, "getitem", key), reg.__getitem__, key)
        attempt((tag, "contains", key), reg.__contains__, key)
        attempt((tag, "get", key), reg.get, key)
    attempt((tag, "values"), lambda: list(reg.values()))
    attempt((tag, "items"), lambda: list(reg.items()))
    attempt((tag, "hash"), lambda: hash(reg) == hash(type(reg)()))
    attempt((tag, "eq"), lambda: (reg == type(reg)(), reg != type(reg)(), reg == 1))


def finish():
    digest = hashlib.sha256("\n".join(RESULTS).encode("utf-8")).hexdigest()
    print("{} results, digest {}".format(len(RESULTS), digest))
    if os.environ.get("EQUIV_DUMP"):  # debugging aid: keep the raw results
        with open(os.environ["EQUIV_DUMP"], "w") as out:
            out.write("\n".join(RESULTS))


# --- end of the common harness -----------------------------------------------
# --- R13_1: renamed private names in CIDARRegistry and registry._utils -------
import copy

from moclo.kits import cidar
from moclo.record import CircularRecord
from moclo.registry.base import FilesystemRegistry, CombinedRegistry
from moclo.registry._utils import find_resistance
from moclo.registry.cidar import CIDARRegistry

for kit in ("cidar", "ytk", "ecoflex", "plant"):
    build_registries(kit)

# A. the real registries (find_resistance runs on every record)
from moclo.registry.ytk import YTKRegistry, PTKRegistry
from moclo.registry.ecoflex import EcoFlexRegistry
from moclo.registry.plant import PlantRegistry

real = CIDARRegistry()
dump_registry("cidar", real)
for cls in (YTKRegistry, PTKRegistry, EcoFlexRegistry, PlantRegistry):
    reg = cls()
    attempt((cls.__name__, "len"), len, reg)
    attempt((cls.__name__, "values"), lambda: [(i.id, i.name, i.resistance, type(i.entity).__name__) for i in reg.values()])

# B. find_resistance on in-memory records
for n in range(400):
    rec = make_record("REC{:03d}".format(n), labels=rand_labels())
    attempt(("find_resistance", n, [f.qualifiers.get("label") for f in rec.features]), find_resistance, rec)
    attempt(("find_resistance/circular", n), find_resistance, CircularRecord(rec))
attempt(("find_resistance", "no features"), find_resistance, make_record("EMPTY"))
attempt(("find_resistance", "not a record"), find_resistance, None)

# C. user subclasses of CIDARRegistry over scratch archives
CLASSES = ["Cassette Vector", "Entry Vector", "Device", "Transcriptional Unit",
           "Basic Part", "Destination Vector"] * 4 + ["Basic Part"] * 12 + ["Level 0", "basic part", "Basic  Part", ""]
TYPES = ["Double terminator", "RBS", "CDS", "Controllable promoter", "Constitutive promoter",
         "cds", "Rbs", "Terminator", "", "CDS ", " RBS", "CDS - with dash", "RBS [B0034]",
         "CDS (GFP)", "Double terminator-B0015"]
IDS = ["DVA_AE", "DVK_AE", "DVX_AE", "dva_ae", "DV", "C0080_CD", "B0015_DE", "X", "DVA", "DVKK"]
real_items = list(real.values())


def cidar_description():
    r = RNG.random()
    if r < 0.08:
        return RNG.choice(["", "synthetic", "moclo Basic Part: CDS", "A MoClo Basic Part: CDS", "MoClo Basic Part CDS", "MoClo : "])
    sep = RNG.choice([": ", ": ", ":  ", ": \t"])
    return "MoClo {}{}{}{}".format(RNG.choice(CLASSES), sep, RNG.choice(TYPES), RNG.choice(["", " - tail", " [x]", "(y)"]))


for n in range(220):
    records = []
    for k in range(RNG.choice((1, 1, 1, 2, 3))):
        if RNG.random() < 0.3:
            rec = copy.deepcopy(RNG.choice(real_items).entity.record)
            rec = SeqRecord(rec.seq, id=rec.id, name=rec.name, description=rec.description,
                            features=rec.features, annotations=rec.annotations)
            if RNG.random() < 0.7:
                rec.description = cidar_description()
            if RNG.random() < 0.5:
                rec.id = RNG.choice(IDS)
        else:
            rec = make_record(RNG.choice(IDS), description=cidar_description(),
                              labels=rand_labels(RNG.choice(("one", "one", "one", None))))
        records.append(rec)
    # duplicate ids inside an archive are possible: the last one wins
    cls = subregistry(CIDARRegistry, records)
    log("archive", n, [(r.id, r.description) for r in records])
    dump_registry(("user-cidar", n), cls())

# a user subclass extending the (private) tables is out of scope; one overriding hooks is not
class Named(CIDARRegistry):
    def _load_name(self, record):
        return record.description.upper()

    def _load_entity(self, record):
        try:
            return super(Named, self)._load_entity(record)
        except RuntimeError as err:
            return cidar.CIDARPart(record)


for n in range(30):
    recs = [make_record(RNG.choice(IDS) + str(k), description=cidar_description(), labels=rand_labels("one")) for k in range(3)]
    dump_registry(("named", n), subregistry(Named, recs)())

# D. FilesystemRegistry / CombinedRegistry (find_resistance without the wrapper)
for n in range(60):
    mem = fs.open_fs("mem://")
    for k in range(RNG.randint(0, 4)):
        if RNG.random() < 0.5:
            rec = RNG.choice(real_items).entity.record
        else:
            rec = make_record("FS{}".format(k), labels=rand_labels())
        with mem.open("f{}.{}".format(k, RNG.choice(("gb", "gbk", "gb", "txt"))), "w") as f:
            f.write(to_genbank(rec))
    reg = FilesystemRegistry(mem, cidar.CIDARPart)
    dump_registry(("fsreg", n), reg, extra_keys=("f0", "f9", "f1.gb"))
    comb = CombinedRegistry()
    attempt(("combined", n), lambda: sorted((comb << real << reg).keys()))
    mem.close()

finish()
