# coding: utf-8
"""Differential test: prints a digest of everything observable through the
existing API for the code touched by the pull request.

Run as:  cd /tmp/agents8/C12 && /venv/bin/python pairs_out/C12_s2/equiv.py
Add --dump FILE to also write the raw lines (for debugging differences).
"""
import sys

sys.path.insert(0, "/tmp/agents8/C12")
import tests  # noqa: F401,E402  (splices the kits in the moclo namespace)

import hashlib  # noqa: E402
import inspect  # noqa: E402
import random  # noqa: E402
import re  # noqa: E402
import warnings  # noqa: E402

import Bio.Restriction as R  # noqa: E402
from Bio.Seq import Seq  # noqa: E402
from Bio.SeqFeature import SeqFeature, FeatureLocation  # noqa: E402
from Bio.SeqRecord import SeqRecord  # noqa: E402

from moclo import errors  # noqa: F401,E402
from moclo._utils import isabstract  # noqa: E402
from moclo.core import (  # noqa: E402
    AbstractModule,
    AbstractPart,
    AbstractVector,
    Cassette,
    CassetteVector,
    Device,
    DeviceVector,
    Entry,
    EntryVector,
    Product,
)
from moclo.core._structured import StructuredRecord  # noqa: E402
from moclo.core._assembly import AssemblyManager  # noqa: E402
from moclo.record import CircularRecord  # noqa: E402
from moclo.regex import DNARegex, SeqMatch  # noqa: F401,E402
from moclo.kits import cidar, ecoflex, moclo as moclo_kit, plant, ytk  # noqa: E402

warnings.simplefilter("ignore")

LINES = []
_ADDR = re.compile(r"0x[0-9a-fA-F]+")


def out(*args):
    line = " | ".join(str(a) for a in args)
    line = _ADDR.sub("0x?", line).replace("/tmp/agents8/C12", "<wt>")
    LINES.append(line)


def exc(e):
    return "EXC {}: {}".format(type(e).__name__, e)


def attempt(func, *args, **kwargs):
    try:
        return func(*args, **kwargs)
    except Exception as e:  # noqa
        return exc(e)


def feats(record):
    res = []
    for f in record.features:
        quals = sorted((k, repr(v)) for k, v in f.qualifiers.items())
        res.append("{}@{}{}".format(f.type, f.location, quals))
    return res


def rec_summary(r):
    if isinstance(r, str):
        return r
    return "{} {} id={} name={} feats={} annots={}".format(
        type(r).__name__,
        str(r.seq),
        r.id,
        r.name,
        feats(r),
        sorted((k, repr(v)) for k, v in r.annotations.items()),
    )


RNG = random.Random(20120)

PUBLIC_BASES = [
    StructuredRecord,
    AbstractModule,
    AbstractVector,
    AbstractPart,
    Product,
    Entry,
    Cassette,
    Device,
    EntryVector,
    CassetteVector,
    DeviceVector,
]

# --- A. generic structures for many enzymes ---------------------------------

ENZYMES_5 = ["BsaI", "BsmBI", "BbsI", "BpiI", "SapI", "BtgZI", "AarI", "BsmAI", "FokI",
             "HgaI", "BccI", "Esp3I", "BspQI", "BfuAI", "BceAI", "EarI", "SfaNI", "LpnPI",
             "MspJI", "AspBHI"]
ENZYMES_ODD = ["BseRI", "BtsI", "BsgI", "BsrDI", "EcoRI", "KpnI", "EcoRV", "SmaI", "NotI",
               "BsrI", "MmeI", "BcgI"]

for name in ENZYMES_5 + ENZYMES_ODD:
    enz = getattr(R, name)
    for base in (AbstractModule, Product, Entry, Cassette, Device, AbstractVector,
                 EntryVector, CassetteVector, DeviceVector):
        cls = type(str("Gen" + base.__name__), (base,), {"cutter": enz})
        out("A", name, base.__name__, attempt(cls.structure), cls._level)
        rec = CircularRecord(Seq("ATGCATGCATGCAAAATTTTGGGGCCCC"), "r")
        inst = attempt(cls, rec)
        if isinstance(inst, str):
            out("A-new", name, base.__name__, inst)
        else:
            out("A-valid", name, base.__name__, attempt(inst.is_valid))
    for sig in (("ATGC", "ATTC"), ("NNNN", "GGGA")):
        for base in (Entry, CassetteVector):
            cls = type(str("GenPart"), (AbstractPart, base), {"cutter": enz, "signature": sig})
            out("A-part", name, base.__name__, sig, attempt(cls.structure))

for base in (AbstractModule, AbstractVector, AbstractPart, Entry, DeviceVector):
    out("A-nocutter", base.__name__, attempt(base, SeqRecord(Seq("ATGC"), "x")))
    out("A-abstract", base.__name__, isabstract(base), inspect.isabstract(base))


class LonePart(AbstractPart):
    cutter = R.BsaI
    signature = ("ATGC", "ATTC")


out("A-lonepart", attempt(LonePart.structure))
out("A-lonepart-valid", attempt(lambda: LonePart(CircularRecord(Seq("ATGC"), "x")).is_valid()))


class NoSigPart(AbstractPart, Entry):
    cutter = R.BsaI


out("A-nosig", attempt(NoSigPart.structure), isabstract(NoSigPart))


class NoCutterPart(AbstractPart, ytk.YTKEntry):
    signature = ("ATGC", "ATTC")


out("A-nocutterpart", attempt(NoCutterPart, SeqRecord(Seq("ATGC"), "x")))

# --- B. every kit class -----------------------------------------------------

KIT_CLASSES = []
for kit in (cidar, ecoflex, moclo_kit, plant, ytk):
    for cname in sorted(dir(kit)):
        obj = getattr(kit, cname)
        if isinstance(obj, type) and issubclass(obj, StructuredRecord):
            if obj.__module__ != kit.__name__:
                out("B-reexport", kit.__name__, cname, obj.__module__)
                continue
            KIT_CLASSES.append(obj)
            out(
                "B",
                kit.__name__,
                cname,
                [b.__name__ for b in PUBLIC_BASES if issubclass(obj, b)],
                [b.__name__ for b in obj.__mro__ if b.__module__ == kit.__name__],
                getattr(obj, "cutter", None),
                getattr(obj, "signature", None),
                getattr(obj, "_level", "n/a"),
                isabstract(obj),
                attempt(obj.structure),
                type(obj.__dict__.get("structure")).__name__,
            )

# --- helpers to build well-formed records -----------------------------------


def rnd(n, alphabet="ACGT"):
    return "".join(RNG.choice(alphabet) for _ in range(n))


def rc(s):
    return str(Seq(s).reverse_complement())


def sites_count(seq, enz):
    both = seq.upper() * 2
    n = len(seq)
    site, rsite = enz.site, rc(enz.site)
    cnt = 0
    for i in range(n):
        if both.startswith(site, i):
            cnt += 1
        if rsite != site and both.startswith(rsite, i):
            cnt += 1
    return cnt


def clean(n, enzymes):
    while True:
        s = rnd(n)
        if all(sites_count(s + "A" * 8, e) == 0 for e in enzymes):
            return s


def fields(enz):
    head, _, rest = enz.elucidate().partition("^")
    ovhg, _, tail = rest.partition("_")
    return head, len(ovhg)


def fill(pattern):
    return "".join(RNG.choice("ACGT") if c == "N" else c for c in pattern)


def make_module(enz, up, down, body_len=12, backbone_len=15, others=()):
    head, _ = fields(enz)
    for _ in range(1000):
        seq = (fill(head) + up + clean(body_len, (enz,) + tuple(others)) + down
               + rc(fill(head)) + clean(backbone_len, (enz,) + tuple(others)))
        if sites_count(seq, enz) == 2:
            return seq
    raise RuntimeError("cannot build module")


def make_vector(enz, up, down, ph_len=10, backbone_len=20, others=()):
    # vector: N (down) (N rc(site) placeholder site N) (up) N backbone
    head, _ = fields(enz)
    for _ in range(1000):
        seq = (RNG.choice("ACGT") + down + rc(fill(head)) + clean(ph_len, (enz,) + tuple(others))
               + fill(head) + up + RNG.choice("ACGT") + clean(backbone_len, (enz,) + tuple(others)))
        if sites_count(seq, enz) == 2:
            return seq
    raise RuntimeError("cannot build vector")


def mixcase(s, mode):
    if mode == "upper":
        return s.upper()
    if mode == "lower":
        return s.lower()
    return "".join(c.lower() if RNG.random() < 0.5 else c.upper() for c in s)


def rotate(s, k):
    k %= len(s)
    return s[k:] + s[:k]


def as_record(seq, kind, rid="rec"):
    if kind == "circular":
        return CircularRecord(Seq(seq), rid, name=rid)
    if kind == "plain":
        return SeqRecord(Seq(seq), rid, name=rid)
    if kind == "plain-circular":
        return SeqRecord(Seq(seq), rid, name=rid, annotations={"topology": "circular"})
    if kind == "plain-linear":
        return SeqRecord(Seq(seq), rid, name=rid, annotations={"topology": "linear"})
    raise ValueError(kind)


def observe(tag, entity):
    out(tag, "valid", attempt(entity.is_valid))
    out(tag, "start", attempt(lambda: str(entity.overhang_start())))
    out(tag, "end", attempt(lambda: str(entity.overhang_end())))
    out(tag, "target", rec_summary(attempt(entity.target_sequence)))
    if isinstance(entity, AbstractVector):
        out(tag, "placeholder", rec_summary(attempt(entity.placeholder_sequence)))
    out(tag, "record-after", rec_summary(entity.record))


def distinct_overhangs(n, k):
    res = []
    while len(res) < k:
        o = rnd(n)
        if o == rc(o):
            continue
        if any(o == p or o == rc(p) for p in res):
            continue
        res.append(o)
    return res


# --- C. generated modules and vectors, all rotations ------------------------

GEN_ENZYMES = [R.BsaI, R.BsmBI, R.BbsI, R.SapI, R.AarI, R.HgaI, R.BccI, R.BtgZI]


def gen_classes(enz):
    M = type(str("GenModule"), (AbstractModule,), {"cutter": enz})
    V = type(str("GenVector"), (AbstractVector,), {"cutter": enz})
    return M, V


for enz in GEN_ENZYMES:
    M, V = gen_classes(enz)
    _, n = fields(enz)
    up, down = distinct_overhangs(n, 2)
    mseq = make_module(enz, up, down)
    vseq = make_vector(enz, up, down)
    for label, cls, seq in (("mod", M, mseq), ("vec", V, vseq)):
        for k in range(len(seq)):
            for mode in ("upper", "mixed"):
                s = mixcase(rotate(seq, k), mode)
                observe("C {} {} rot{} {} circ".format(enz, label, k, mode),
                        cls(as_record(s, "circular")))
                observe("C {} {} rot{} {} circ-rc".format(enz, label, k, mode),
                        cls(as_record(s, "circular").reverse_complement()))
        for kind in ("plain", "plain-circular", "plain-linear"):
            for k in (0, 3, len(seq) // 2, len(seq) - 2):
                observe("C {} {} rot{} {}".format(enz, label, k, kind),
                        cls(as_record(rotate(seq, k), kind)))
    # the wrong class for the record, and broken records
    observe("C {} mod-as-vector".format(enz), V(as_record(mseq, "circular")))
    observe("C {} vec-as-module".format(enz), M(as_record(vseq, "circular")))
    head, _ = fields(enz)
    extra = mseq[: len(head) + n + 4] + fill(head) + mseq[len(head) + n + 4:]
    observe("C {} three-sites".format(enz), M(as_record(extra, "circular")))
    observe("C {} one-site".format(enz), M(as_record(mseq[: len(mseq) // 2], "circular")))
    observe("C {} with-N".format(enz), M(as_record(mseq[:-3] + "NNN", "circular")))
    observe("C {} short".format(enz), V(as_record("ATG", "circular")))

# kit classes on generated records built from their own structure
for cls in KIT_CLASSES:
    st = attempt(cls.structure)
    if st.startswith("EXC"):
        continue
    for trial in range(3):
        body = clean(14, (R.BsaI, R.BsmBI, R.BbsI))
        pat = st.replace("(", "").replace(")", "")
        pat = pat.replace("N*?", body).replace("N*", body)
        seq = fill(pat) + clean(18, (R.BsaI, R.BsmBI, R.BbsI))
        inst = attempt(cls, as_record(rotate(seq, trial * 11), "circular"))
        if isinstance(inst, str):
            out("C-kit", cls.__name__, trial, inst)
            continue
        observe("C-kit {} {}".format(cls.__name__, trial), inst)
        observe("C-kit {} {} rc".format(cls.__name__, trial),
                cls(as_record(rotate(seq, trial * 11), "circular").reverse_complement()))

# --- D. assemblies ----------------------------------------------------------


def decorate(record, with_refs):
    record.features.append(
        SeqFeature(FeatureLocation(2, min(9, len(record))), type="misc_feature",
                   qualifiers={"label": ["f-" + record.id]}))
    if with_refs:
        record.annotations["references"] = ["REF-" + record.id, "REF-common"]
        record.features.append(
            SeqFeature(FeatureLocation(1, 5), type="CDS",
                       qualifiers={"citation": ["[1]", "[2]"], "label": ["c-" + record.id]}))
    return record


def run_assembly(tag, vector, modules, **kwargs):
    with warnings.catch_warnings(record=True) as caught:
        warnings.simplefilter("always")
        res = attempt(vector.assemble, *modules, **kwargs)
    out(tag, "result", rec_summary(res))
    out(tag, "warnings", [(type(w.message).__name__, str(w.message)) for w in caught])
    for e in [vector] + list(modules):
        out(tag, "input-after", rec_summary(e.record))


for enz in GEN_ENZYMES:
    M, V = gen_classes(enz)
    _, n = fields(enz)
    if n < 3:
        continue  # not enough distinct overhangs to build chains
    for nmods in (1, 2, 3, 4):
        for trial in range(2):
            ov = distinct_overhangs(n, nmods + 1)
            vseq = make_vector(enz, ov[-1], ov[0])
            mseqs = [make_module(enz, ov[i], ov[i + 1]) for i in range(nmods)]
            mode = ("upper", "lower", "mixed")[(nmods + trial) % 3]
            vrec = decorate(as_record(mixcase(rotate(vseq, RNG.randrange(len(vseq))), mode),
                                      "circular", "vec"), trial == 1)
            mrecs = [
                decorate(as_record(mixcase(rotate(s, RNG.randrange(len(s))), mode), "circular",
                                   "mod{}".format(i)), trial == 1)
                for i, s in enumerate(mseqs)
            ]
            order = list(range(nmods))
            RNG.shuffle(order)
            tag = "D {} n{} t{}".format(enz, nmods, trial)
            run_assembly(tag, V(vrec), [M(mrecs[i]) for i in order])
            run_assembly(tag + " rc", V(vrec.reverse_complement(id=True, name=True)),
                         [M(mrecs[i].reverse_complement(id=True, name=True)) for i in order],
                         id="rcid", name="rcname")
            if nmods >= 2:
                # missing module, duplicate module, unused module
                run_assembly(tag + " missing", V(vrec), [M(mrecs[i]) for i in order[1:]])
                dup = as_record(make_module(enz, ov[0], ov[1]), "circular", "dup")
                run_assembly(tag + " duplicate", V(vrec), [M(r) for r in mrecs] + [M(dup)])
                spare = distinct_overhangs(n, 2)
                if not any(o in (x, rc(x)) for o in spare for x in ov):
                    unused = as_record(make_module(enz, spare[0], spare[1]), "circular", "unused")
                    run_assembly(tag + " unused", V(vrec), [M(r) for r in mrecs] + [M(unused)])
                rcdup = as_record(make_module(enz, rc(ov[0]), spare[0]), "circular", "rcdup")
                run_assembly(tag + " rcdup", V(vrec), [M(r) for r in mrecs] + [M(rcdup)])
                run_assembly(tag + " invalid-module", V(vrec),
                             [M(r) for r in mrecs[:-1]] + [M(as_record("ATGCATGC", "circular", "bad"))])
                run_assembly(tag + " plain-module", V(vrec),
                             [M(as_record(str(r.seq), "plain", r.id)) for r in mrecs])
    # vector with twice the same overhang, invalid vector, bad citation
    o = distinct_overhangs(n, 2)
    same = V(as_record(make_vector(enz, o[0], o[0]), "circular", "same"))
    mod = M(as_record(make_module(enz, o[0], o[1]), "circular", "m"))
    run_assembly("D {} same-overhangs".format(enz), same, [mod])
    run_assembly("D {} invalid-vector".format(enz), V(as_record("ATGCATGCAA", "circular", "v")), [mod])
    vec = V(decorate(as_record(make_vector(enz, o[1], o[0]), "circular", "v"), True))
    badmod = M(decorate(as_record(make_module(enz, o[0], o[1]), "circular", "m"), True))
    badmod.record.features[-1].qualifiers["citation"] = ["[1]", "nope"]
    run_assembly("D {} bad-citation".format(enz), vec, [badmod])

# AssemblyManager used directly
enz = R.BsaI
M, V = gen_classes(enz)
o = distinct_overhangs(4, 3)
vec = V(as_record(make_vector(enz, o[2], o[0]), "circular", "v"))
mods = [M(as_record(make_module(enz, o[0], o[1]), "circular", "m0")),
        M(as_record(make_module(enz, o[1], o[2]), "circular", "m1"))]
mgr = AssemblyManager(vec, mods, id_="direct", name="direct")
out("D-mgr", rec_summary(attempt(mgr.assemble)), [m.record.id for m in mgr.modules],
    [m.record.id for m in mgr.elements], mgr.name, mgr.id)
out("D-mgr-tuple", attempt(AssemblyManager, vec, tuple(mods)))

# --- E. registries ----------------------------------------------------------

from moclo.registry.cidar import CIDARRegistry  # noqa: E402
from moclo.registry.ecoflex import EcoFlexRegistry  # noqa: E402
from moclo.registry.plant import PlantRegistry  # noqa: E402
from moclo.registry.ytk import YTKRegistry, PTKRegistry  # noqa: E402

REGISTRIES = {}
for reg_cls in (CIDARRegistry, EcoFlexRegistry, PlantRegistry, YTKRegistry, PTKRegistry):
    reg = reg_cls()
    REGISTRIES[reg_cls.__name__] = reg
    out("E", reg_cls.__name__, len(reg))
    for key in sorted(reg):
        item = reg[key]
        ent = item.entity
        tag = "E {} {}".format(reg_cls.__name__, key)
        out(tag, item.name, item.resistance, type(ent).__name__, len(ent.record))
        for label, e in (("fw", ent), ("rc", type(ent)(ent.record.reverse_complement()))):
            valid = attempt(e.is_valid)
            out(tag, label, "valid", valid)
            if valid is True:
                out(tag, label, attempt(lambda: str(e.overhang_start())),
                    attempt(lambda: str(e.overhang_end())),
                    attempt(lambda: hashlib.md5(str(e.target_sequence().seq).encode()).hexdigest()),
                    attempt(lambda: len(e.target_sequence().features)))
                if isinstance(e, AbstractVector):
                    out(tag, label, "placeholder",
                        attempt(lambda: hashlib.md5(str(e.placeholder_sequence().seq).encode()).hexdigest()))

creg = REGISTRIES["CIDARRegistry"]
for vec_id, mod_ids in (
    ("DVK_EF", ("J23102_EB", "BCD2_BC", "E1010m_CD", "B0015_DF")),
    ("DVK_AE", ("J23102_AB", "BCD2_BC", "E1010m_CD", "B0015_DE")),
    ("DVA_EF", ("J23102_EB", "BCD2_BC", "E1010m_CD", "B0015_DF")),
    ("DVA_AE", ("J23102_AB", "BCD2_BC", "E1010m_CD")),
):
    run_assembly("E-assembly " + vec_id, creg[vec_id].entity, [creg[m].entity for m in mod_ids])
    vrc = type(creg[vec_id].entity)(creg[vec_id].entity.record.reverse_complement(id=True))
    mrc = [type(creg[m].entity)(creg[m].entity.record.reverse_complement(id=True)) for m in mod_ids]
    run_assembly("E-assembly-rc " + vec_id, vrc, mrc)

ereg = REGISTRIES["EcoFlexRegistry"]
eco_parts = {}
for k in sorted(ereg):
    if isinstance(ereg[k].entity, ecoflex.EcoFlexPart):
        eco_parts.setdefault(type(ereg[k].entity).__name__, ereg[k].entity)
for k in sorted(ereg):
    if isinstance(ereg[k].entity, AbstractVector):
        run_assembly("E-assembly ecoflex " + k, ereg[k].entity, list(eco_parts.values()))

for key in ("pYTK001", "pYTK002", "pYTK047", "pYTK095", "pYTK096"):
    rec = REGISTRIES["YTKRegistry"][key].entity.record
    out("E-characterize", key, type(attempt(ytk.YTKPart.characterize, rec)).__name__)
out("E-characterize-fail", attempt(cidar.CIDARPart.characterize, CircularRecord(Seq("ATGC"), "nope")))

# --- F. regular expressions -------------------------------------------------

for pattern in ("AA(NN)", "(GGTCTCN)(NNNN)(N*)(NNNN)", "R(Y)K(M)S(W)B(D)H(V)N", "A(C)?(G)"):
    rx = DNARegex(pattern)
    out("F", pattern, rx.pattern, rx.regex.pattern)
    for trial in range(6):
        s = rnd(24) + "AACGGTCTCAACGTTTTTTGCAT"[: 4 * trial]
        for k in (0, 5, len(s) - 1):
            t = mixcase(rotate(s, k), ("upper", "mixed")[trial % 2])
            for target in (Seq(t), SeqRecord(Seq(t), "x"), CircularRecord(Seq(t), "x")):
                for kw in ({}, {"linear": False}, {"pos": 3}, {"pos": 2, "endpos": 9},
                           {"linear": False, "pos": len(t) - 2}):
                    m = attempt(rx.search, target, **kw)
                    if m is None or isinstance(m, str):
                        out("F", pattern, trial, k, type(target).__name__, sorted(kw.items()), m)
                        continue
                    groups = []
                    for g in range(rx.regex.groups + 1):
                        got = attempt(m.group, g)
                        got = got if isinstance(got, str) else str(getattr(got, "seq", got))
                        groups.append((m.span(g), got))
                    out("F", pattern, trial, k, type(target).__name__, sorted(kw.items()),
                        m.start(), m.end(), groups)
out("F-type", attempt(DNARegex("NN").search, "ATGC"))
out("F-lettermap", sorted(DNARegex._lettermap.items()))

# --- G. circular records ----------------------------------------------------

base = CircularRecord(Seq("ATGCATGGGCCCTTTAAACG"), "base", name="base",
                      annotations={"topology": "circular", "references": ["r"]})
base.features.append(SeqFeature(FeatureLocation(15, 20, 1), type="misc_feature"))
base.features.append(SeqFeature(FeatureLocation(0, 20), type="source"))
for k in (-25, -3, 0, 1, 7, 19, 20, 33):
    out("G", k, rec_summary(base >> k), rec_summary(base << k))
out("G-rc", rec_summary(base.reverse_complement()),
    rec_summary(base.reverse_complement(id=True, name=True, annotations=True)))
out("G-slice", rec_summary(base[3:9]), base[4], "ACGAT" in base, "ATGCATGGGCCCTTTAAACGA" in base)
out("G-add", attempt(lambda: base + base), attempt(lambda: "A" + base))
out("G-linear", attempt(CircularRecord, Seq("ATGC"), annotations={"topology": "linear"}))

# --- H. identity of structured records, shared constants --------------------

enz = R.BsaI
M, V = gen_classes(enz)
shared = as_record(make_module(enz, "ATGC", "GGTA"), "circular", "shared")
a, b = M(shared), M(shared)
out("H", a == a, a == b, a != b, a != a, a in {a}, b in {a}, len({a, b, a}), a == 5, a != None,  # noqa
    hash(a) == object.__hash__(a), a.__eq__(b) is NotImplemented, attempt(lambda: a == shared), attempt(lambda: shared != a))
out("H-dup", attempt(V(as_record(make_vector(enz, "GGTA", "ATGC"), "circular", "v")).assemble, a, b))
out("H-lettermap", attempt(lambda: DNARegex._lettermap["N"]), DNARegex._lettermap.get("A"),
    len(DNARegex._lettermap), "N" in DNARegex._lettermap, DNARegex._transcribe("ANRY(N*?)"))
m = DNARegex("(A)(C)?(G*)").search(CircularRecord(Seq("TTTTA"), "x"))
out("H-optional", [(m.span(g), str(m.group(g).seq)) for g in range(4)])
for size in (6, 9):
    s = rnd(size)
    for a_ in range(size):
        rx = DNARegex("N" * a_ + "(N{%d})(N*)" % (size - a_ - 1))
        for target in (CircularRecord(Seq(s), "x"), Seq(s), SeqRecord(Seq(s), "x")):
            for pos in range(size):
                m = rx.search(target, pos=pos, linear=False)
                out("H-span", s, a_, pos, type(target).__name__,
                    None if m is None else [(m.span(g), str(getattr(m.group(g), "seq", m.group(g))))
                                            for g in range(3)])

# --- digest -----------------------------------------------------------------

digest = hashlib.sha256("\n".join(LINES).encode("utf-8")).hexdigest()
if "--dump" in sys.argv:
    with open(sys.argv[sys.argv.index("--dump") + 1], "w") as fh:
        fh.write("\n".join(LINES) + "\n")
print("lines:", len(LINES))
print("digest:", digest)
