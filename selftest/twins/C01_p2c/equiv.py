#!/usr/bin/env python
# coding: utf-8
"""Differential test for the C01 refactorings.

Exercises the structure patterns, the DNA regex, the match groups, the
fragment extraction, the rotation of circular records and the assembly manager
on generated inputs, and prints a digest of everything observable: results,
exception types and messages, warnings, and the state of the inputs afterwards.
The digest must be identical before and after a behaviour-preserving change.
"""
import sys

sys.path.insert(0, "/tmp/agents5/C01")
import tests  # noqa: F401,E402

import copy  # noqa: E402
import hashlib  # noqa: E402
import itertools  # noqa: E402
import random  # noqa: E402
import re  # noqa: E402
import warnings  # noqa: E402

from Bio import Restriction  # noqa: E402
from Bio.Seq import Seq  # noqa: E402
from Bio.SeqFeature import SeqFeature, FeatureLocation, CompoundLocation  # noqa: E402
from Bio.SeqRecord import SeqRecord  # noqa: E402

from moclo.record import CircularRecord  # noqa: E402
from moclo.regex import DNARegex  # noqa: E402
from moclo.core.modules import AbstractModule, Entry  # noqa: E402
from moclo.core.vectors import AbstractVector, EntryVector  # noqa: E402
from moclo.core.parts import AbstractPart  # noqa: E402
from moclo.core._utils import add_as_source, cutter_check  # noqa: E402

LOG = []
SECTIONS = []


ADDRESS = re.compile(r" at 0x[0-9a-fA-F]+")


def emit(*items):
    # object addresses differ from run to run
    LOG.append(ADDRESS.sub(" at 0x?", repr(items)))


def section(name):
    SECTIONS.append((name, len(LOG)))


# --- rendering -------------------------------------------------------------


def show_feature(f):
    quals = sorted((k, repr(v)) for k, v in f.qualifiers.items())
    return (f.type, str(f.location), f.id, quals)


def show_record(r):
    if r is None:
        return None
    if isinstance(r, Seq):
        return ("Seq", str(r))
    return (
        type(r).__name__,
        str(r.seq),
        r.id,
        r.name,
        r.description,
        list(r.dbxrefs),
        sorted((k, repr(v)) for k, v in r.annotations.items()),
        [show_feature(f) for f in r.features],
        sorted((k, repr(v)) for k, v in r.letter_annotations.items()),
    )


def attempt(fn, *args, **kwargs):
    """Run, and describe the result or the exception, and the warnings."""
    with warnings.catch_warnings(record=True) as caught:
        warnings.simplefilter("always")
        try:
            out = ("ok", fn(*args, **kwargs))
        except Exception as err:  # noqa
            out = ("raise", type(err).__name__, str(err), repr(getattr(err, "__cause__", None)))
    warns = [(type(w.message).__name__, str(w.message)) for w in caught]
    return out, warns


# --- generators ------------------------------------------------------------

COMPLEMENT = {"A": "T", "C": "G", "G": "C", "T": "A"}


def rc(text):
    return "".join(COMPLEMENT[c] for c in reversed(text))


def rand(rng, n, alphabet="ACGT"):
    return "".join(rng.choice(alphabet) for _ in range(n))


def rot(text, r):
    r %= len(text)
    return text[r:] + text[:r]


def mixed(rng, text):
    return "".join(c.lower() if rng.random() < 0.5 else c for c in text)


def count_sites(circular, site):
    doubled = circular + circular[: len(site) - 1]
    fwd = sum(doubled.startswith(site, i) for i in range(len(circular)))
    rev = sum(doubled.startswith(rc(site), i) for i in range(len(circular)))
    return fwd, rev


def usable_enzymes():
    out = []
    for enz in sorted(Restriction.AllEnzymes, key=str):
        try:
            cutter_check(enz, name="x")
        except Exception:
            continue
        out.append(enz)
    return out


def typeiis_5prime():
    chosen = {}
    for enz in usable_enzymes():
        if enz.cut_twice() or enz.is_palindromic() or not enz.is_5overhang():
            continue
        if set(enz.site) - set("ACGT") or not 5 <= enz.size <= 7:
            continue
        if enz.fst5 <= enz.size:
            continue
        chosen.setdefault((enz.size, enz.fst5 - enz.size, -enz.ovhg), enz)
    return [chosen[k] for k in sorted(chosen)]


def typeiis_3prime():
    chosen = {}
    for enz in usable_enzymes():
        if enz.cut_twice() or enz.is_palindromic() or not enz.is_3overhang():
            continue
        if set(enz.site) - set("ACGT") or not 5 <= enz.size <= 7:
            continue
        if enz.fst5 <= enz.size or enz.fst3 is None:
            continue
        chosen.setdefault((enz.size, enz.fst5 - enz.size, enz.ovhg), enz)
    return [chosen[k] for k in sorted(chosen)][:4]


def features_for(rng, length, n=4, refs=0):
    feats = []
    for i in range(n):
        a = rng.randrange(length)
        b = rng.randrange(a, length) + 1
        strand = rng.choice([1, -1, None])
        if rng.random() < 0.25 and b < length - 1 and a > 0:
            loc = CompoundLocation(
                [FeatureLocation(b, length, strand=strand), FeatureLocation(0, a, strand=strand)]
            )
        else:
            loc = FeatureLocation(a, b, strand=strand)
        quals = {"label": ["f{}".format(i)]}
        if refs and rng.random() < 0.6:
            quals["citation"] = ["[{}]".format(rng.randint(1, refs))]
        feats.append(SeqFeature(loc, type=rng.choice(["CDS", "misc_feature", "promoter"]), qualifiers=quals))
    if rng.random() < 0.5:
        feats.append(SeqFeature(FeatureLocation(0, length), type="source", qualifiers={"organism": ["x"]}))
    return feats


class Ref(object):
    """A stand-in for Bio.SeqFeature.Reference that compares by value."""

    def __init__(self, title):
        self.title = title

    def __eq__(self, other):
        return isinstance(other, Ref) and other.title == self.title

    def __ne__(self, other):
        return not self == other

    def __hash__(self):
        return hash(self.title)

    def __repr__(self):
        return "Ref({!r})".format(self.title)


def make_record(rng, text, rid, circular=True, annotate=True, refs=0, topology=None):
    kwargs = dict(id=rid, name=rid + "_name", description="record " + rid)
    if annotate:
        kwargs["features"] = features_for(rng, len(text), refs=refs)
        kwargs["annotations"] = {"molecule_type": "DNA", "organism": "E. coli"}
        if refs:
            kwargs["annotations"]["references"] = [Ref("{}-{}".format(rid, i)) for i in range(refs)]
        if topology:
            kwargs["annotations"]["topology"] = topology
        if rng.random() < 0.3:
            kwargs["dbxrefs"] = ["db:{}".format(rid)]
        if rng.random() < 0.3:
            kwargs["letter_annotations"] = {"q": [rng.randrange(40) for _ in text]}
    cls = CircularRecord if circular else SeqRecord
    return cls(Seq(text), **kwargs)


def pick_overhangs(rng, width, count):
    picked = []
    tries = 0
    while len(picked) < count:
        tries += 1
        if tries > 20000:
            raise RuntimeError("no overhangs")
        o = rand(rng, width)
        if o == rc(o) or any(o == p or o == rc(p) for p in picked):
            continue
        picked.append(o)
    return picked


def module_text(rng, enz, o5, o3, tlen=None, extra=""):
    site, off = enz.site, enz.fst5 - enz.size
    while True:
        t = rand(rng, tlen if tlen is not None else rng.randint(2, 12)) + extra
        m = site + rand(rng, off) + o5 + t + o3 + rand(rng, off) + rc(site) + rand(rng, rng.randint(0, 10))
        if extra or count_sites(m, site) == (1, 1):
            return m


def vector_text(rng, enz, odown, oup, extra=""):
    site, off = enz.site, enz.fst5 - enz.size
    while True:
        b = rand(rng, rng.randint(2, 12)) + extra
        v = odown + rand(rng, off) + rc(site) + rand(rng, rng.randint(0, 8)) + site + rand(rng, off) + oup + b
        if extra or count_sites(v, site) == (1, 1):
            return v


def classes_for(enz):
    class Vec(AbstractVector):
        cutter = enz

    class Mod(AbstractModule):
        cutter = enz

    return Vec, Mod


# --- 1. structure patterns -------------------------------------------------


def run_structures():
    section("structures")
    for enz in usable_enzymes():
        Vec, Mod = classes_for(enz)
        emit(str(enz), attempt(Mod.structure), attempt(Vec.structure))

    class NoCutter(AbstractModule):
        pass

    emit(attempt(NoCutter, SeqRecord(Seq("ATGC"))))

    class Blunt(AbstractVector):
        cutter = Restriction.EcoRV

    emit(attempt(Blunt, SeqRecord(Seq("ATGC"))))
    for enz in (Restriction.BsaI, Restriction.BsmBI, Restriction.BbsI, Restriction.SapI):
        for base in (Entry, EntryVector):
            part = type(str("P"), (AbstractPart, base), {"cutter": enz, "signature": ("ATGC"[: -enz.ovhg], "GGTA"[: -enz.ovhg])})
            emit(str(enz), base.__name__, attempt(part.structure))


# --- 2. DNA regex and match groups -------------------------------------------


def show_match(m, groups):
    if m is None:
        return None
    out = [m.start(), m.end(), m.shift]
    for g in range(groups + 1):
        out.append((m.span(g), show_record(m.group(g))))
    return out


def run_regex(rng):
    section("regex")
    patterns = [("AA(NN)", 1), ("(RY)N*(SW)", 2), ("GGTCTCN(NNNN)(NN*N)(NNNN)NGAGACC", 3), ("(K)(M)(B)(D)(H)(V)", 6), ("ac(n)t", 1), ("X(N)", 1)]
    for pattern, groups in patterns:
        rx = DNARegex(pattern)
        emit(pattern, rx.pattern, rx.regex.pattern)
        for _ in range(12):
            n = rng.randint(2, 40)
            text = rand(rng, n, "ACGTacgtN")
            if rng.random() < 0.4:
                text = rot(text + "GGTCTCAATGCTTGGCATGAGACC", rng.randrange(n))
            for kind in range(4):
                if kind == 0:
                    target = Seq(text)
                elif kind == 1:
                    target = SeqRecord(Seq(text), id="lin")
                elif kind == 2:
                    target = CircularRecord(Seq(text), id="circ")
                else:
                    target = make_record(rng, text, "ann")
                for kwargs in ({}, {"linear": False}, {"pos": rng.randrange(len(text))}, {"pos": 1, "endpos": rng.randrange(len(text) + 2)}, {"endpos": 0}):
                    out, warns = attempt(rx.search, target, **kwargs)
                    if out[0] == "ok":
                        out = ("ok", show_match(out[1], groups))
                    emit(pattern, text, kind, sorted(kwargs.items()), out, warns)
        for bad in ("ATGC", None, 12, b"ATGC", ["A"]):
            emit(pattern, attempt(rx.search, bad))


# --- 3. circular records ---------------------------------------------------


def run_records(rng):
    section("records")
    for i in range(25):
        n = rng.randint(1, 30)
        text = rand(rng, n, "ACGTacgt")
        rec = make_record(rng, text, "r{}".format(i), refs=rng.choice([0, 2]))
        before = show_record(rec)
        for k in (0, 1, n - 1, n, n + 1, -1, -n, 2 * n + 3, rng.randrange(-50, 50)):
            emit("rshift", i, k, [(o[0], show_record(o[1])) if o[0] == "ok" else o for o in [attempt(lambda: rec >> k)[0]]])
            emit("lshift", i, k, [(o[0], show_record(o[1])) if o[0] == "ok" else o for o in [attempt(lambda: rec << k)[0]]])
            emit("same", (rec >> k) is rec, (rec << k) is rec)
        a, b = sorted((rng.randrange(n + 1), rng.randrange(n + 1)))
        emit("slice", show_record(rec[a:b]), rec[0] if n else None)
        emit("contains", text[:2] in rec, rot(text, 1) in rec, (text + text) in rec)
        emit("rc", show_record(rec.reverse_complement()))
        emit("add", attempt(lambda: rec + rec)[0], attempt(lambda: "A" + rec)[0])
        emit("unchanged", show_record(rec) == before)
    emit(attempt(CircularRecord, SeqRecord(Seq("ATGC"), annotations={"topology": "linear"})))
    emit(show_record(CircularRecord(SeqRecord(Seq("ATGC"), id="x", annotations={"topology": "Circular"}))))


# --- 4. fragments ----------------------------------------------------------


def describe_entity(ent):
    out = []
    for name in ("is_valid", "overhang_start", "overhang_end", "target_sequence", "placeholder_sequence"):
        fn = getattr(ent, name, None)
        if fn is None:
            continue
        res, warns = attempt(fn)
        if res[0] == "ok" and not isinstance(res[1], bool):
            res = ("ok", show_record(res[1]))
        out.append((name, res, warns))
    return out


def run_fragments(rng):
    section("fragments")
    for enz in typeiis_5prime() + typeiis_3prime():
        Vec, Mod = classes_for(enz)
        width = abs(enz.ovhg)
        if enz.is_3overhang():
            # the pattern of a 3' cutter does not compile the same way: just record what happens
            text = enz.site + rand(rng, 30) + rc(enz.site) + rand(rng, 10)
            for cls in (Vec, Mod):
                emit(str(enz), cls.__name__, describe_entity(cls(CircularRecord(Seq(text), id="t"))))
            continue
        chain = 1 if width == 1 else 2
        ovhgs = pick_overhangs(rng, width, chain + 1)
        m = module_text(rng, enz, ovhgs[0], ovhgs[1])
        v = vector_text(rng, enz, ovhgs[0], ovhgs[chain])
        for label, text, cls in (("module", m, Mod), ("vector", v, Vec), ("module-as-vector", m, Vec), ("vector-as-module", v, Mod)):
            shifts = range(len(text)) if label in ("module", "vector") else [0, 3, len(text) - 1]
            for r in shifts:
                turned = rot(text, r)
                annotate = r % 5 == 0
                rec = make_record(rng, turned, "{}{}".format(label[0], r), annotate=annotate, refs=2 if annotate else 0)
                before = show_record(rec)
                emit(str(enz), label, r, describe_entity(cls(rec)), show_record(rec) == before)
            emit(str(enz), label, "mixed", describe_entity(cls(CircularRecord(Seq(mixed(rng, text)), id="mx"))))
            emit(str(enz), label, "lower", describe_entity(cls(CircularRecord(Seq(text.lower()), id="lo"))))
            # plain records: linear search, no rotation operator
            emit(str(enz), label, "plain", describe_entity(cls(SeqRecord(Seq(text), id="pl"))))
            emit(str(enz), label, "plain-rot", describe_entity(cls(SeqRecord(Seq(rot(text, 7)), id="pr"))))
            emit(str(enz), label, "plain-circular", describe_entity(cls(SeqRecord(Seq(rot(text, 7)), id="pc", annotations={"topology": "circular"}))))
            emit(str(enz), label, "linear-topology", describe_entity(cls(make_record(rng, rot(text, 7), "lt", circular=False, topology="linear"))))
        # a third site in the target, in the backbone, and garbage
        bad = module_text(rng, enz, ovhgs[0], ovhgs[1], extra="AA" + enz.site + "AA")
        emit(str(enz), "illegal-module", describe_entity(Mod(CircularRecord(Seq(bad), id="bad"))))
        bad = module_text(rng, enz, ovhgs[0], ovhgs[1], extra="AA" + rc(enz.site) + "AA")
        emit(str(enz), "illegal-module-rc", describe_entity(Mod(CircularRecord(Seq(bad), id="bad"))))
        bad = vector_text(rng, enz, ovhgs[0], ovhgs[1], extra="AA" + enz.site + "AA")
        emit(str(enz), "site-in-backbone", describe_entity(Vec(CircularRecord(Seq(bad), id="bad"))))
        for junk in ("ATG", "", rand(rng, 50)):
            for cls in (Vec, Mod):
                emit(str(enz), "junk", junk, describe_entity(cls(CircularRecord(Seq(junk), id="junk"))))
    rec = SeqRecord(Seq("ATGCATGC"), id="dst")
    src = SeqRecord(Seq("AT"), id="src")
    emit(show_record(add_as_source(src, rec)))
    emit(show_record(add_as_source(src, rec, FeatureLocation(1, 3))))


# --- 5. assemblies ---------------------------------------------------------


def show_state(entities):
    return [show_record(e.record) for e in entities]


def assemble(label, vector, modules, **kwargs):
    before = show_state([vector] + list(modules))
    res, warns = attempt(vector.assemble, *modules, **kwargs)
    if res[0] == "ok":
        res = ("ok", show_record(res[1]))
    after = show_state([vector] + list(modules))
    emit(label, res, warns, before == after, after)


def run_assemblies(rng):
    section("assemblies")
    for enz in typeiis_5prime():
        Vec, Mod = classes_for(enz)
        width = -enz.ovhg
        longest = {1: 1, 2: 5}.get(width, 6)
        for chain in sorted({1, 2, longest}):
            if chain > longest:
                continue
            ovhgs = pick_overhangs(rng, width, chain + 1 + (2 if width > 2 else 0))
            texts = [module_text(rng, enz, ovhgs[i], ovhgs[i + 1]) for i in range(chain)]
            vtext = vector_text(rng, enz, ovhgs[0], ovhgs[chain])
            label = "{}/{}".format(enz, chain)

            def build(vt=vtext, mts=texts, annotate=True, case=None, turn=True, refs=2, circular=True):
                def prep(t):
                    if turn:
                        t = rot(t, rng.randrange(len(t)))
                    if case == "lower":
                        t = t.lower()
                    elif case == "mixed":
                        t = mixed(rng, t)
                    return t

                vec = Vec(make_record(rng, prep(vt), "vec", annotate=annotate, refs=refs))
                mods = [
                    Mod(make_record(rng, prep(t), "mod{}".format(i), annotate=annotate, refs=refs, circular=circular))
                    for i, t in enumerate(mts)
                ]
                return vec, mods

            # plain successes: as built, rotated, shuffled, recased, named
            vec, mods = build(turn=False, annotate=False)
            assemble(label + " as built", vec, mods)
            for k in range(4):
                vec, mods = build()
                rng.shuffle(mods)
                assemble(label + " rotated/shuffled", vec, mods)
            vec, mods = build(case="lower")
            assemble(label + " lower", vec, mods)
            vec, mods = build(case="mixed")
            assemble(label + " mixed", vec, mods)
            vec, mods = build(refs=0)
            assemble(label + " named", vec, mods, id="my_id", name="my_name")
            # origin right at the cuts
            off = enz.fst5 - enz.size
            for shift in (0, 1, width, width + off, width + off + enz.size, -1, -width):
                vec, mods = build(turn=False, annotate=False)
                vec = Vec(CircularRecord(Seq(rot(vtext, shift)), id="vec"))
                mods = [Mod(CircularRecord(Seq(rot(t, enz.size + off + shift)), id="m{}".format(i))) for i, t in enumerate(texts)]
                assemble(label + " origin {}".format(shift), vec, mods)
            # twice with the same objects: cached matches, citations restored
            vec, mods = build()
            assemble(label + " first", vec, mods)
            assemble(label + " again", vec, mods)
            # failures
            if chain > 1:
                vec, mods = build()
                assemble(label + " missing", vec, mods[:-1])
                vec, mods = build()
                assemble(label + " missing first", vec, mods[1:])
            vec, mods = build()
            twin = Mod(make_record(rng, module_text(rng, enz, ovhgs[0], ovhgs[1]), "twin"))
            assemble(label + " duplicate", vec, mods + [twin])
            assemble(label + " duplicate first", vec, [twin] + mods)
            assemble(label + " same twice", vec, mods + [mods[0]])
            vec, mods = build()
            anti = Mod(make_record(rng, module_text(rng, enz, rc(ovhgs[0]), ovhgs[1]), "anti"))
            assemble(label + " reverse-complement", vec, mods + [anti])
            if width > 2:
                vec, mods = build()
                spare = Mod(make_record(rng, module_text(rng, enz, ovhgs[chain + 1], ovhgs[chain + 2]), "spare"))
                spare2 = Mod(make_record(rng, module_text(rng, enz, ovhgs[chain + 2], ovhgs[chain + 1]), "spare2"))
                assemble(label + " unused", vec, [spare] + mods)
                assemble(label + " unused two", vec, mods + [spare2, spare])
            if width > 1 and chain == 2:
                # junctions that are complementary without being reverse-complementary
                while True:
                    first = rand(rng, width)
                    trio = [first, "".join(COMPLEMENT[c] for c in first), rand(rng, width)]
                    if any(o == rc(o) for o in trio) or len(set(trio) | set(map(rc, trio))) < 6:
                        continue
                    break
                cvec = Vec(make_record(rng, vector_text(rng, enz, trio[0], trio[2]), "cvec"))
                cmods = [Mod(make_record(rng, module_text(rng, enz, trio[i], trio[i + 1]), "cmod{}".format(i))) for i in range(2)]
                assemble(label + " complementary junctions", cvec, cmods)
                assemble(label + " complementary junctions, swapped", cvec, cmods[::-1])
            vec, mods = build()
            loop = Vec(make_record(rng, vector_text(rng, enz, ovhgs[0], ovhgs[0]), "loop"))
            assemble(label + " unsuitable vector", loop, mods)
            junk = Mod(make_record(rng, rand(rng, 40), "junk"))
            assemble(label + " invalid module", vec, mods + [junk])
            assemble(label + " invalid vector", Vec(make_record(rng, rand(rng, 40), "junkv")), mods)
            bad = Mod(CircularRecord(Seq(module_text(rng, enz, ovhgs[0], ovhgs[1], extra="AA" + enz.site + "AA")), id="third"))
            assemble(label + " illegal site", vec, [bad] + mods[1:])
            # plain SeqRecord modules cannot be rotated
            vec, mods = build(circular=False, turn=False)
            assemble(label + " plain modules", vec, mods)
            vec, mods = build(circular=False, turn=False)
            assemble(label + " plain modules, one missing", vec, mods[:-1] if chain > 1 else mods)
            # a citation that cannot be resolved
            vec, mods = build()
            mods[0].record.features.append(SeqFeature(FeatureLocation(0, 1), type="misc", qualifiers={"citation": ["nope"]}))
            assemble(label + " bad citation", vec, mods)
            vec, mods = build()
            vec.record.features.append(SeqFeature(FeatureLocation(0, 1), type="misc", qualifiers={"citation": ["[7]"]}))
            assemble(label + " citation out of range", vec, mods)


def run_kits():
    section("kits")
    try:
        from moclo.registry.cidar import CIDARRegistry
    except Exception as err:  # noqa
        emit("no cidar registry", type(err).__name__)
        return
    reg = CIDARRegistry()
    for vname, names in (
        ("DVK_EF", ("J23102_EB", "BCD2_BC", "E1010m_CD", "B0015_DF")),
        ("DVK_AE", ("J23102_AB", "BCD2_BC", "E1010m_CD", "B0015_DE")),
        ("DVA_AE", ("B0015_DE", "E1010m_CD", "BCD2_BC", "J23102_AB")),
        ("DVK_AE", ("J23102_AB", "BCD2_BC", "E1010m_CD")),
    ):
        vec = reg[vname].entity
        mods = [reg[n].entity for n in names]
        assemble("cidar " + vname, vec, mods)
        # the same plasmids, turned around
        vec2 = type(vec)(vec.record >> 1234)
        mods2 = [type(m)(m.record << 321) for m in mods]
        assemble("cidar turned " + vname, vec2, mods2)


def main():
    rng = random.Random(5150)
    run_structures()
    run_regex(rng)
    run_records(rng)
    run_fragments(rng)
    run_assemblies(rng)
    run_kits()
    bounds = SECTIONS + [("end", len(LOG))]
    for (name, lo), (_, hi) in zip(bounds, bounds[1:]):
        h = hashlib.sha256("\n".join(LOG[lo:hi]).encode("utf-8")).hexdigest()
        print("{:<12} {:>6} observations  {}".format(name, hi - lo, h[:32]))
    print("DIGEST {} {}".format(len(LOG), hashlib.sha256("\n".join(LOG).encode("utf-8")).hexdigest()))
    if len(sys.argv) > 2 and sys.argv[1] == "--dump":
        with open(sys.argv[2], "w") as dst:
            dst.write("\n".join(LOG) + "\n")


if __name__ == "__main__":
    main()
