# coding: utf-8
"""Differential test for the rewrite of AbstractPart.characterize."""
import sys

sys.path.insert(0, "/tmp/agentsR4/R15")
import tests  # noqa: E402,F401

import hashlib  # noqa: E402
import random  # noqa: E402
import re  # noqa: E402
import warnings  # noqa: E402

warnings.simplefilter("ignore")

from Bio.Seq import Seq  # noqa: E402
from Bio.SeqRecord import SeqRecord  # noqa: E402
from Bio.Restriction import BsaI, BpiI, BsmBI  # noqa: E402

from moclo.record import CircularRecord  # noqa: E402
from moclo.core.parts import AbstractPart  # noqa: E402
from moclo.core.modules import Entry, Cassette  # noqa: E402
from moclo.core.vectors import EntryVector, CassetteVector  # noqa: E402
from moclo.kits import ytk, cidar, ecoflex, moclo as moclokit  # noqa: E402
from moclo.registry.ytk import YTKRegistry, PTKRegistry  # noqa: E402
from moclo.registry.cidar import CIDARRegistry  # noqa: E402
from moclo.registry.ecoflex import EcoFlexRegistry  # noqa: E402
from moclo.registry.plant import PlantRegistry  # noqa: E402

rng = random.Random(150005)
ADDR = re.compile(r"0x[0-9a-fA-F]+")
results = []


def outcome(fn, *args, **kwargs):
    try:
        return ("ok", fn(*args, **kwargs))
    except Exception as exc:  # noqa
        return ("exc", type(exc).__name__, ADDR.sub("0x?", str(exc)))


def show_entity(o, record=None):
    if o[0] != "ok":
        return o
    ent = o[1]
    out = ["ok", type(ent).__name__, [c.__name__ for c in type(ent).__mro__[:4]]]
    if record is not None:
        out.append(ent.record is record)
    out.append(ent.is_valid())
    for meth in ("overhang_start", "overhang_end"):
        r = outcome(getattr(ent, meth))
        out.append(str(r[1]) if r[0] == "ok" else r)
    return out


def randseq(n, alphabet="ACGT"):
    return "".join(rng.choice(alphabet) for _ in range(n))


# --- 1. real registries (loading them goes through characterize) -----------
BASES = [ytk.YTKPart, cidar.CIDARPart, ecoflex.EcoFlexPart, moclokit.MoCloPart]
records = []
for factory in (YTKRegistry, PTKRegistry, CIDARRegistry, EcoFlexRegistry, PlantRegistry):
    o = outcome(lambda: sorted(factory().values(), key=lambda item: item.id))
    if o[0] != "ok":
        results.append(("registry", factory.__name__) + o)
        continue
    for item in o[1]:
        results.append(("registry", factory.__name__, item.id, item.name, type(item.entity).__name__,
                        item.resistance))
        records.append(item.entity.record)

for rec in records:
    for base in BASES:
        results.append(("real", rec.id, base.__name__, show_entity(outcome(base.characterize, rec), rec)))

# rotated / reverse-complemented / mutated real records
for case in range(250):
    rec = rng.choice(records)
    r = rng.random()
    if r < 0.4:
        new = rec >> rng.randint(-len(rec), 2 * len(rec))
    elif r < 0.6:
        new = rec.reverse_complement(id=True, name=True)
    elif r < 0.8:
        s = str(rec.seq)
        at = rng.randrange(len(s))
        new = CircularRecord(Seq(s[:at] + randseq(rng.randint(1, 8)) + s[at + rng.randint(0, 8):]), id=rec.id + "_mut")
    else:
        new = CircularRecord(Seq(str(rec.seq).lower()), id=rec.id + "_lower")
    base = rng.choice(BASES)
    results.append(("variant", case, rec.id, base.__name__, show_entity(outcome(base.characterize, new), new)))

# characterize called on concrete leaf classes and on an intermediate class
LEAVES = [ytk.YTKPart1, ytk.YTKPart3, ytk.YTKPart8, ytk.YTKPart234r, cidar.CIDARPromoter,
          ecoflex.EcoFlexTerminator, moclokit.MoCloCDS1]
for case in range(150):
    rec = rng.choice(records)
    leaf = rng.choice(LEAVES)
    results.append(("leaf", case, rec.id, leaf.__name__, show_entity(outcome(leaf.characterize, rec), rec)))


# --- 2. user-defined hierarchies -------------------------------------------
class MyPart(AbstractPart):
    cutter = BsaI
    signature = NotImplemented


class MyPromoter(MyPart, Entry):
    signature = ("GGAG", "TACT")


class MyCDS(MyPart, Entry):
    signature = ("TACT", "GCTT")


class MyGreedy(MyPart, Entry):
    # overlaps with both of the above: first declared wins
    signature = ("NNNN", "NNNN")


class MyBackbone(MyPart, EntryVector):
    signature = ("GGAG", "GCTT")


class Concrete(AbstractPart, Entry):
    """Not abstract, no subclasses: characterizes as itself."""

    cutter = BpiI
    signature = ("ATGC", "CGTA")


class ConcreteWithChild(AbstractPart, Entry):
    """Not abstract, with a child: the child is tried first, then the class itself."""

    cutter = BsmBI
    signature = ("NNNN", "TTTT")


class Child(ConcreteWithChild):
    signature = ("AAAA", "TTTT")


class NoCutter(AbstractPart):
    signature = NotImplemented


class NoCutterChild(NoCutter, Entry):
    signature = ("AAAA", "CCCC")


class Orphan(AbstractPart):
    cutter = BsaI
    signature = NotImplemented


class Neither(AbstractPart):
    cutter = BsaI
    signature = ("AAAA", "CCCC")


class Broken(AbstractPart):
    cutter = BsaI
    signature = NotImplemented


class BrokenFirst(Broken, Entry):
    signature = ("AAAA", "CCCC")

    @classmethod
    def structure(cls):
        return "GGTCTCN(AAAA(NN*N)(CCCC)NGAGACC"


class BrokenSecond(Broken, Entry):
    signature = ("AAAA", "CCCC")


class Lying(AbstractPart):
    cutter = BsaI
    signature = NotImplemented


class LyingNo(Lying, Entry):
    signature = ("NNNN", "NNNN")

    def is_valid(self):
        return 0


class LyingYes(Lying, Cassette):
    signature = ("NNNN", "NNNN")

    def is_valid(self):
        return "yes"


class LyingVec(Lying, CassetteVector):
    signature = ("NNNN", "NNNN")


USER = [MyPart, MyPromoter, MyGreedy, Concrete, ConcreteWithChild, Child, NoCutter, NoCutterChild, Orphan,
        Neither, Broken, BrokenSecond, Lying, AbstractPart]

for cls in USER:
    results.append(("structure", cls.__name__, outcome(cls.structure),
                    [c.__name__ for c in cls.__subclasses__() if c.__module__ == "__main__"]))


def module_seq(cutter, up, down):
    site = cutter.site
    rc = str(Seq(site).reverse_complement())
    gap = cutter.elucidate().index("^") - len(site)
    return site + randseq(gap) + up + randseq(rng.randint(2, 20)) + down + randseq(gap) + rc + randseq(rng.randint(0, 20))


def vector_seq(cutter, up, down):
    site = cutter.site
    rc = str(Seq(site).reverse_complement())
    gap = cutter.elucidate().index("^") - len(site)
    return (randseq(rng.randint(1, 10)) + down + randseq(gap) + rc + randseq(rng.randint(0, 20)) + site
            + randseq(gap) + up + randseq(rng.randint(1, 10)))


TARGETED = [(BsaI, "GGAG", "TACT", 0.0), (BsaI, "TACT", "GCTT", 0.0), (BsaI, "GGAG", "GCTT", 0.7),
            (BsaI, "ggag", "tact", 0.0), (BpiI, "ATGC", "CGTA", 0.0), (BsmBI, "AAAA", "TTTT", 0.0),
            (BsmBI, "ACGT", "TTTT", 0.0), (BsaI, "AAAA", "CCCC", 0.0), (BsaI, "ACGT", "CGTA", 0.7)]
OVS = ["GGAG", "TACT", "GCTT", "ATGC", "CGTA", "AAAA", "TTTT", "CCCC", "ACGT", "ggag", "tAcT"]
for case in range(700):
    cutter = rng.choice([BsaI, BsaI, BpiI, BsmBI])
    up, down = rng.choice(OVS), rng.choice(OVS)
    r = rng.random()
    if rng.random() < 0.55:
        cutter, up, down, r = rng.choice(TARGETED)
    if r < 0.6:
        s = module_seq(cutter, up, down)
    elif r < 0.85:
        s = vector_seq(cutter, up, down)
    else:
        s = randseq(rng.randint(0, 60))
    if rng.random() < 0.2:
        s = s.lower()
    k = rng.randint(0, len(s))
    s = s[k:] + s[:k]
    topo = rng.choice(["circular", "circular", "linear", None])
    if topo == "linear":
        rec = SeqRecord(Seq(s), id="u{}".format(case), annotations={"topology": "linear"})
    elif topo is None:
        rec = rng.choice([SeqRecord, CircularRecord])(Seq(s), id="u{}".format(case))
    else:
        rec = CircularRecord(Seq(s), id="u{}".format(case), annotations={"topology": "circular"})
    cls = rng.choice(USER)
    results.append(("user", case, cls.__name__, cutter.__name__, up, down, topo, type(rec).__name__,
                    show_entity(outcome(cls.characterize, rec), rec)))

# records without an id, and other odd arguments
for bad in (None, "ATGC", Seq("GGTCTCAAAAATTTTTCCCCAGAGACC"), 12):
    for cls in (MyPart, Concrete, Orphan, NoCutter):
        results.append(("bad", repr(bad), cls.__name__, show_entity(outcome(cls.characterize, bad))))

digest = hashlib.sha256(repr(results).encode("utf-8")).hexdigest()
print(len(results), digest)
