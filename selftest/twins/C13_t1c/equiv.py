# coding: utf-8
"""Differential test for the code behind `CircularRecord` rotations.

Exercises `moclo.record.CircularRecord` (`>>`, `<<`, construction, slicing),
`moclo.regex` (`DNARegex.search`, `SeqMatch`), and the kit classes that use
them (`target_sequence`, overhangs, assemblies, every embedded registry)
through the existing API, and prints a digest of everything observed: results,
exception types / messages / args, warnings, sharing of mutable state between
input and output, and the state of the inputs afterwards.

Run as: cd <worktree> && /venv/bin/python pairs_out/<dir>/equiv.py [dumpfile]
"""
import os
import sys

sys.path.insert(0, os.path.abspath(os.path.join(os.path.dirname(__file__), "..", "..")))
import tests  # noqa: F401,E402  (splices the kit packages into the namespace)

import fractions  # noqa: E402
import hashlib  # noqa: E402
import random  # noqa: E402
import re  # noqa: E402
import warnings  # noqa: E402

from Bio.Seq import Seq, MutableSeq  # noqa: E402
from Bio.SeqFeature import (  # noqa: E402
    SeqFeature,
    FeatureLocation,
    CompoundLocation,
    ExactPosition,
    BeforePosition,
    AfterPosition,
)
from Bio.SeqRecord import SeqRecord  # noqa: E402
from Bio import Restriction  # noqa: E402

from moclo import errors  # noqa: E402
from moclo.record import CircularRecord  # noqa: E402
from moclo.regex import DNARegex, SeqMatch  # noqa: E402
from moclo.core.modules import AbstractModule  # noqa: E402
from moclo.core.vectors import AbstractVector  # noqa: E402

LINES = []


_ADDRESS = re.compile(r" at 0x[0-9a-fA-F]+")


def log(*items):
    LINES.append(_ADDRESS.sub(" at 0x?", " | ".join(str(i) for i in items)))


# --- serialisation -----------------------------------------------------------


def ser_loc(loc):
    if loc is None:
        return "None"
    if not hasattr(loc, "parts"):
        return "{}:{!r}".format(type(loc).__name__, loc)
    out = [type(loc).__name__, repr(loc)]
    if isinstance(loc, CompoundLocation):
        out.append(loc.operator)
    for part in loc.parts:
        out.append(
            "{}:{}:{}:{}:{}:{}:{}".format(
                type(part.start).__name__,
                int(part.start),
                type(part.end).__name__,
                int(part.end),
                part.strand,
                part.ref,
                part.ref_db,
            )
        )
    return "/".join(out)


def ser_feature(feat):
    quals = sorted((k, repr(v)) for k, v in feat.qualifiers.items())
    return "F({} {} {} {} {})".format(
        type(feat).__name__, feat.type, feat.id, quals, ser_loc(feat.location)
    )


def ser_seq(seq):
    if seq is None:
        return "None"
    try:
        return "{}:{}".format(type(seq).__name__, str(seq))
    except Exception as err:  # undefined sequences
        return "{}:<{}>".format(type(seq).__name__, type(err).__name__)


def ser(obj):
    if isinstance(obj, SeqRecord):
        return "R({} {} id={} name={} desc={} dbx={} ann={} let={} feats=[{}])".format(
            type(obj).__name__,
            ser_seq(obj.seq),
            obj.id,
            obj.name,
            obj.description,
            obj.dbxrefs,
            sorted((k, repr(v)) for k, v in obj.annotations.items()),
            sorted(
                (k, type(v).__name__, repr(v)) for k, v in obj.letter_annotations.items()
            ),
            ", ".join(ser_feature(f) for f in obj.features),
        )
    if isinstance(obj, (Seq, MutableSeq)):
        return ser_seq(obj)
    if isinstance(obj, SeqMatch):
        return "M({} {} {})".format(obj.match.span(), obj.shift, ser(obj.rec))
    if isinstance(obj, (list, tuple)):
        return "{}[{}]".format(type(obj).__name__, ", ".join(ser(x) for x in obj))
    return "{}:{!r}".format(type(obj).__name__, obj)


def short(text):
    if len(text) > 400:
        return "{}..#{}#{}".format(
            text[:80], len(text), hashlib.sha256(text.encode("utf-8")).hexdigest()[:16]
        )
    return text


def ser_exc(err):
    args = []
    for a in err.args:
        if isinstance(a, (AbstractModule, AbstractVector)):
            args.append("{}<{}>".format(type(a).__name__, a.record.id))
        elif isinstance(a, (SeqRecord, Seq)):
            args.append(short(ser(a)))
        else:
            args.append(repr(a))
    cause = type(err.__cause__).__name__ if err.__cause__ is not None else None
    return "EXC {} msg={!r} args={} cause={} suppress={}".format(
        type(err).__name__, str(err), args, cause, err.__suppress_context__
    )


def attempt(label, func, *args, **kwargs):
    """Run func, log result or exception + warnings; return the result."""
    with warnings.catch_warnings(record=True) as caught:
        warnings.simplefilter("always")
        try:
            res = func(*args, **kwargs)
            out = short(ser(res))
        except RecursionError:
            res, out = None, "EXC RecursionError"
        except Exception as err:
            res, out = None, ser_exc(err)
    warns = [(w.category.__name__, str(w.message)) for w in caught]
    log(label, out, "W={}".format(warns) if warns else "")
    return res


# --- part 1: rotations of synthetic records ----------------------------------

rng = random.Random(20240913)
ALPHABET = "ABCDEFGHIJKLMNOPQRSTUVWXYZ"


def random_simple(length, beyond=True):
    limit = 2 * length if beyond else length
    start = rng.randrange(0, max(1, limit))
    end = rng.randrange(start, max(start + 1, min(limit, start + length) + 1))
    strand = rng.choice([1, -1, 0, None])
    kind = rng.randrange(8)
    if kind == 0:
        return FeatureLocation(BeforePosition(start), ExactPosition(end), strand=strand)
    if kind == 1:
        return FeatureLocation(ExactPosition(start), AfterPosition(end), strand=strand)
    if kind == 2:
        return FeatureLocation(start, end, strand=strand, ref="REF1")
    if kind == 3:
        return FeatureLocation(start, end, strand=strand, ref="REF2", ref_db="DB")
    return FeatureLocation(start, end, strand=strand)


def random_location(length):
    kind = rng.randrange(10)
    if kind < 4:
        return random_simple(length)
    if kind < 7:
        parts = [random_simple(length) for _ in range(rng.randrange(2, 5))]
        return CompoundLocation(parts, operator=rng.choice(["join", "order"]))
    if kind == 7:
        return FeatureLocation(0, length, strand=rng.choice([1, -1, None]))
    if kind == 8:  # origin-spanning, as the rotation itself writes it
        start = rng.randrange(0, length)
        return FeatureLocation(start, start + length, strand=rng.choice([1, -1]))
    return None


def random_features(length):
    feats = []
    for i in range(rng.randrange(0, 6)):
        loc = random_location(length)
        ftype = rng.choice(["source", "source", "CDS", "misc_feature", "promoter"])
        quals = {"label": ["f{}".format(i)]}
        if rng.random() < 0.3:
            quals["citation"] = ["[1]"]
        if rng.random() < 0.5:
            feats.append(SeqFeature(loc, type=ftype, qualifiers=quals))
        else:
            feats.append(SeqFeature(loc, type=ftype, id="id{}".format(i), qualifiers=quals))
    return feats


def random_tracks(length):
    tracks = {}
    if rng.random() < 0.7:
        tracks["phred_quality"] = [rng.randrange(60) for _ in range(length)]
    if rng.random() < 0.5:
        tracks["structure"] = "".join(rng.choice("().") for _ in range(length))
    if rng.random() < 0.3:
        tracks["tuple"] = tuple(range(length))
    return tracks


def random_record(length, cls=CircularRecord, word=None):
    word = word or ALPHABET[:length]
    ann = {}
    if rng.random() < 0.5:
        ann["topology"] = rng.choice(["circular", "Circular", "CIRCULAR"])
    if rng.random() < 0.5:
        ann["references"] = ["ref-a", "ref-b"]
    if rng.random() < 0.5:
        ann["molecule_type"] = "DNA"
    return cls(
        Seq(word),
        id="id{}".format(length),
        name="name{}".format(length),
        description="description {}".format(length),
        dbxrefs=["DB:{}".format(length)] if rng.random() < 0.5 else None,
        features=random_features(length),
        annotations=ann if (ann or rng.random() < 0.5) else None,
        letter_annotations=random_tracks(length) or None,
    )


class SubRecord(CircularRecord):
    """A user subclass: rotations must keep the class."""


def sharing(src, dst):
    """Which mutable parts of `src` are shared (by identity) with `dst`."""
    if dst is None or src is None:
        return "-"
    out = [
        "same" if dst is src else "new",
        "ann" if dst.annotations is src.annotations else "-",
        "dbx" if dst.dbxrefs is src.dbxrefs else "-",
        "feats" if dst.features is src.features else "-",
        "seq" if dst.seq is src.seq else "-",
    ]
    if len(dst.features) == len(src.features):
        for a, b in zip(src.features, dst.features):
            flags = ""
            flags += "f" if a is b else "-"
            flags += "q" if a.qualifiers is b.qualifiers else "-"
            flags += "l" if a.location is b.location else "-"
            flags += "v" if all(a.qualifiers[k] is b.qualifiers.get(k) for k in a.qualifiers) else "-"
            out.append(flags)
    for key in src.letter_annotations:
        out.append("t" if dst.letter_annotations.get(key) is src.letter_annotations[key] else "-")
    return ",".join(out)


def rotations_of(rec, label, ks):
    before = ser(rec)
    for k in ks:
        for name, op in ((">>", lambda r, n: r >> n), ("<<", lambda r, n: r << n)):
            res = attempt("{} {} {!r}".format(label, name, k), op, rec, k)
            if isinstance(res, SeqRecord):
                log("   share", sharing(rec, res))
    log(label, "input unchanged", before == ser(rec))


def part_rotations():
    count = 0
    for length in list(range(1, 11)) + [13, 17]:
        for variant in range(3):
            cls = SubRecord if (length + variant) % 5 == 0 else CircularRecord
            rec = random_record(length, cls=cls)
            label = "rot L{} v{}".format(length, variant)
            log(label, "input", ser(rec))
            ks = sorted(set(list(range(-2 * length - 1, 2 * length + 2)) + [5 * length, -7 * length + 1, 100]))
            rotations_of(rec, label, ks)
            count += len(ks) * 2
            # compositions
            for c in range(4):
                steps = [rng.randrange(-3 * length, 3 * length + 1) for _ in range(rng.randrange(2, 5))]
                cur = rec
                for s in steps:
                    cur = (cur >> s) if rng.random() < 0.5 else (cur << s)
                log(label, "compose", steps, short(ser(cur)))
    # periodic / DNA words, lower and mixed case
    for word in ["ATGCATGCATGC", "atgcatgc", "AtGc", "AAAA", "A", "ACGTTGCA"]:
        rec = random_record(len(word), word=word)
        log("rot word", word, ser(rec))
        rotations_of(rec, "rot word {}".format(word), [-9, -1, 0, 1, 2, 3, len(word), len(word) + 1, 27])
    # features given exactly like the test-suite does
    ft = [
        SeqFeature(FeatureLocation(ExactPosition(0), ExactPosition(2), strand=+1), type="promoter"),
        SeqFeature(FeatureLocation(ExactPosition(2), ExactPosition(4), strand=+1), type="promoter"),
    ]
    cr = CircularRecord(SeqRecord(seq=Seq("ATGC"), id="feats", features=ft))
    rotations_of(cr, "rot testsuite", range(-9, 10))
    # odd offsets
    rec = random_record(6)
    log("rot odd", ser(rec))
    odd = [True, False, 2.0, 2.5, -1.5, "a", None, fractions.Fraction(1, 2), fractions.Fraction(4, 2), [1], 10 ** 30, -(10 ** 30) + 1]
    try:
        import numpy

        odd += [numpy.int64(3), numpy.int32(-2), numpy.uint8(7), numpy.float64(1.0)]
    except ImportError:
        pass
    rotations_of(rec, "rot odd", odd)
    # degenerate records
    rotations_of(CircularRecord(Seq("")), "rot empty", [0, 1, -1])
    rotations_of(CircularRecord(None), "rot noseq", [0, 1, "a"])
    rotations_of(CircularRecord(Seq(None, length=5)), "rot undefined", [0, 1, 7])
    rotations_of(CircularRecord(MutableSeq("ABCDE"), features=[SeqFeature(FeatureLocation(1, 3))]), "rot mutable", [0, 1, 7, -2])
    # tracks that cannot be concatenated
    rec = CircularRecord(Seq("ABCD"), letter_annotations={"r": range(4)}, features=[SeqFeature(FeatureLocation(1, 3))])
    rotations_of(rec, "rot range track", [0, 1, 5])
    # feature whose location cannot be shifted
    rec = CircularRecord(Seq("ABCD"), features=[SeqFeature(FeatureLocation(1, 3))])
    rec.features[0].location = "not a location"
    rotations_of(rec, "rot bad location", [0, 1])
    rec = CircularRecord(Seq("ABCD"))
    rec.features = (SeqFeature(FeatureLocation(1, 3)),)
    rotations_of(rec, "rot tuple features", [0, 1])
    rec = CircularRecord(Seq("ABCD"), annotations={"topology": "circular"})
    rec.annotations["topology"] = "linear"
    rotations_of(rec, "rot became linear", [0, 1])
    # construction / slicing / misc. API of the class
    sr = SeqRecord(Seq("ATGCAT"), id="x", annotations={"topology": "linear"})
    attempt("init linear", CircularRecord, sr)
    sr = SeqRecord(Seq("ATGCAT"), id="x", name="n", description="d", dbxrefs=["a"], annotations={"topology": "circular", "k": [1]}, letter_annotations={"q": [1, 2, 3, 4, 5, 6]}, features=[SeqFeature(FeatureLocation(1, 4, strand=-1), type="CDS", qualifiers={"label": ["l"]})])
    cr = attempt("init copy", CircularRecord, sr)
    log("init copy share", sharing(sr, cr))
    for sl in [slice(1, 4), slice(None, None), slice(4, 1), slice(None, None, -1), 2, -1, 10, "a"]:
        attempt("getitem {!r}".format(sl), cr.__getitem__, sl)
    for needle in ["ATGC", "TAT", "ATGCATA", "", "CATATG", Seq("TA")]:
        attempt("contains {!r}".format(needle), cr.__contains__, needle)
    attempt("add", lambda: cr + cr)
    attempt("radd", lambda: "A" + cr)
    attempt("revcomp", cr.reverse_complement)
    attempt("revcomp id", lambda: cr.reverse_complement(id=True, name="z", annotations=True))
    attempt("revcomp of rotated", lambda: (cr >> 2).reverse_complement() << 2)
    log("init copy unchanged", ser(sr))


# --- part 2: regex -----------------------------------------------------------


def ser_match(match, ngroups):
    if match is None:
        return "None"
    out = [ser(match), match.start(), match.end()]
    for i in range(ngroups + 2):
        try:
            out.append(match.span(i))
        except Exception as err:
            out.append(ser_exc(err))
        try:
            out.append(short(ser(match.group(i))))
        except Exception as err:
            out.append(ser_exc(err))
    return " ; ".join(str(x) for x in out)


def part_regex():
    patterns = [
        "AA(NN)",
        "GGTCTCN(NNNN)(N*)(NNNN)NGAGACC",
        "(A)?(T+)",
        "N*",
        "(N*)",
        "",
        "(GC)(AT)(G)",
        "RYSW(K)M",
        "(T)(G)?(C)",
    ]
    words = ["ATGCAAGCAATA", "ATGCAGCATA", "atgcaagcaata", "AtGcAaGgTcTcAaCgTaTgAgAcCtT", "GAGACCAAAAGGTCTCATTTTCCCCCGGGGA", "A", "", "TGCA"]
    for pattern in patterns:
        dr = attempt("regex new {!r}".format(pattern), DNARegex, pattern)
        if dr is None:
            continue
        ngroups = dr.regex.groups
        for word in words:
            subjects = [
                ("seq", Seq(word)),
                ("rec", SeqRecord(Seq(word), id="r", features=[SeqFeature(FeatureLocation(0, min(3, len(word))), type="misc")])),
                ("circ", CircularRecord(Seq(word), id="c", features=[SeqFeature(FeatureLocation(0, min(3, len(word))), type="misc")], letter_annotations={"q": list(range(len(word)))})),
            ]
            for sname, subject in subjects:
                for kwargs in [{}, {"linear": False}, {"linear": True}, {"pos": 3}, {"pos": 2, "endpos": 5, "linear": False}, {"pos": len(word)}, {"endpos": 0}, {"pos": -2, "linear": False}, {"linear": 0}, {"linear": None}]:
                    label = "regex {!r} {} {} {}".format(pattern, word, sname, sorted(kwargs.items()))
                    before = ser(subject)
                    with warnings.catch_warnings(record=True) as caught:
                        warnings.simplefilter("always")
                        try:
                            m = dr.search(subject, **kwargs)
                            out = ser_match(m, ngroups)
                        except Exception as err:
                            out = ser_exc(err)
                    log(label, out, [(w.category.__name__, str(w.message)) for w in caught], before == ser(subject))
    dr = DNARegex("NN")
    for bad in ["ATGC", None, 12, MutableSeq("ATGC"), b"ATGC", ["A"]]:
        attempt("regex bad {!r}".format(type(bad).__name__), dr.search, bad)
    attempt("regex positional", lambda: ser_match(dr.search(Seq("ATGC"), 1, 3, False), 0))
    # SeqMatch built by hand on a doubled text
    rx = re.compile("(?i)(GC)(A*)(T)?")
    for word in ["ATGCAAGC", "GCAT", "TTGC"]:
        for subject in [Seq(word), SeqRecord(Seq(word), id="h"), CircularRecord(Seq(word), id="h")]:
            for pos in range(0, 2 * len(word)):
                m = rx.match(word * 2, pos)
                if m is not None:
                    sm = SeqMatch(m, subject, shift=pos)
                    log("seqmatch", word, type(subject).__name__, pos, ser_match(sm, 3))
    sm = SeqMatch(rx.match("GCAT"), rec=Seq("GCAT"))
    log("seqmatch attrs", ser(sm.rec), sm.shift, sm.match.span())
    sm.rec = CircularRecord(Seq("ATGC"), id="swapped")
    log("seqmatch rec swapped", ser(sm.rec), short(ser(sm.group(0))), sm.span(1))
    attempt("seqmatch kw", lambda: ser_match(SeqMatch(match=rx.match("GCAT"), rec=Seq("GCAT"), shift=2), 3))
    attempt("seqmatch missing", lambda: SeqMatch(rx.match("GCAT")))
    attempt("seqmatch extra", lambda: SeqMatch(rx.match("GCAT"), Seq("GCAT"), 0, 1))
    attempt("seqmatch no len", lambda: SeqMatch(rx.match("GCAT"), None).group(0))
    attempt("seqmatch named group", lambda: SeqMatch(re.compile("(?P<x>GC)A").match("GCAT"), Seq("GCAT")).group("x"))


# --- part 3: kit classes, registries, assemblies -------------------------------


def make_mock(cutter):
    module = type(str("Mock{}Module".format(cutter.__name__)), (AbstractModule,), {"cutter": cutter})
    vector = type(str("Mock{}Vector".format(cutter.__name__)), (AbstractVector,), {"cutter": cutter})
    return module, vector


def fill_site(cutter, letters):
    site = cutter.elucidate().replace("^", "").replace("_", "")
    it = iter(letters)
    return "".join(next(it) if c == "N" else c for c in site)


def describe_entity(label, entity):
    attempt(label + " valid", entity.is_valid)
    attempt(label + " start", entity.overhang_start)
    attempt(label + " end", entity.overhang_end)
    attempt(label + " target", entity.target_sequence)
    if isinstance(entity, AbstractVector):
        attempt(label + " placeholder", entity.placeholder_sequence)


def part_mock():
    for name in ["BsaI", "BpiI", "BsmBI", "SapI", "BseRI", "BsgI", "BtsI", "MmeI", "EcoRI", "EcoRV", "BsrDI"]:
        cutter = getattr(Restriction, name)
        try:
            Module, Vector = make_mock(cutter)
        except Exception as err:
            log("mock", name, ser_exc(err))
            continue
        log("mock", name, cutter.is_3overhang(), cutter.is_5overhang(), cutter.elucidate())
        attempt("mock {} module structure".format(name), Module.structure)
        attempt("mock {} vector structure".format(name), Vector.structure)
        up = fill_site(cutter, "ACGTTGCAACCGGTTAAGCTTCGA" * 2)
        down = str(Seq(fill_site(cutter, "TTGGCCAATCAGGACTGATCCAAG" * 2)).reverse_complement())
        insert = "ATGAAACCCGGGTTTTAA"
        backbone = "CCCCATATATGGGG"
        mseq = up + insert + down + backbone
        n_count = cutter.elucidate().count("N")
        used_up = str(Seq(("ACGTTGCAACCGGTTAAGCTTCGA" * 2)[:n_count]).reverse_complement())
        used_down = str(Seq(("TTGGCCAATCAGGACTGATCCAAG" * 2)[:n_count]).reverse_complement())
        vup = str(Seq(fill_site(cutter, used_up)).reverse_complement())
        vdown = fill_site(cutter, used_down)
        vseq = vup + "GGGAAATTTCCC" + vdown + "TATATATACGCG"
        for case, (ms, vs) in {"upper": (mseq, vseq), "lower": (mseq.lower(), vseq.lower()), "mixed": (mseq.swapcase()[:20] + mseq[20:], vseq[:10] + vseq[10:].lower())}.items():
            for k in [0, 1, len(up) + 3, len(ms) - 2, len(ms) - len(up) + 2, -5, len(ms) // 2]:
                label = "mock {} {} k={}".format(name, case, k)
                feats = [
                    SeqFeature(FeatureLocation(0, len(ms)), type="source", qualifiers={"label": ["whole"]}),
                    SeqFeature(FeatureLocation(len(up), len(up) + len(insert), strand=1), type="CDS", qualifiers={"label": ["cds"], "citation": ["[1]"]}),
                    SeqFeature(CompoundLocation([FeatureLocation(len(up) + 2, len(up) + 5, strand=-1), FeatureLocation(len(up) + 8, len(up) + 12, strand=-1)]), type="misc_feature"),
                ]
                mrec = CircularRecord(Seq(ms), id="mod", name="modname", features=feats, annotations={"references": ["the-ref"]}, letter_annotations={"q": list(range(len(ms)))})
                vrec = CircularRecord(Seq(vs), id="vec", name="vecname", features=[SeqFeature(FeatureLocation(2, len(vs) - 2, strand=-1), type="rep_origin")])
                try:
                    mrec_k, vrec_k = mrec >> k, vrec << k
                    module, vector = Module(mrec_k), Vector(vrec_k)
                except Exception as err:
                    log(label, ser_exc(err))
                    continue
                describe_entity(label + " module", module)
                describe_entity(label + " vector", vector)
                attempt(label + " assemble", vector.assemble, module)
                attempt(label + " assemble named", lambda: vector.assemble(module, id="my-id", name="my-name"))
                log(label, "inputs after", short(ser(mrec_k)), short(ser(vrec_k)))
                # linear topology
                lin = SeqRecord(Seq(ms), id="lin", annotations={"topology": "linear"})
                describe_entity(label + " linear module", Module(lin))
    # the scenarios of tests/test_assembly.py
    Module, Vector = make_mock(Restriction.BpiI)
    scenarios = {
        "invalid": ("CCATGCTTGTCTTCCACAGAAGACTTATGCGG", ["GAAGACTTATGCCACAATGCTTGTCTTC"]),
        "duplicate": ("CCATGCTTGTCTTCCACAGAAGACTTCGTAGG", ["GAAGACTTATGCCACACGTATTGTCTTC", "GAAGACTTATGCTATACGTATTGTCTTC"]),
        "missing": ("CCATGCTTGTCTTCCACAGAAGACTTCGTAGG", ["GAAGACTTATGACACACGTATTGTCTTC"]),
        "unused": ("CCATGCTTGTCTTCCACAGAAGACTTCGTAGG", ["GAAGACTTATGCTATACGTATTGTCTTC", "GAAGACTTAAAACACACCCCTTGTCTTC"]),
        "revcomp": ("CCATGCTTGTCTTCCACAGAAGACTTCGTAGG", ["GAAGACTTATGCTATACGTATTGTCTTC", "GAAGACTTGCATCACACCCCTTGTCTTC"]),
        "nosite": ("CCATGCTTGTCTTCCACAGAAGACTTCGTAGG", ["GAAGACTTATGCTATACGTA"]),
        "illegal": ("CCATGCTTGTCTTCCACAGAAGACTTCGTAGG", ["GAAGACTTATGCTAGAAGACTACGTATTGTCTTC"]),
    }
    for sname, (vs, mss) in scenarios.items():
        for k in [0, 3, 11, -4]:
            vector = Vector(CircularRecord(Seq(vs), "vector") >> k)
            modules = [Module(CircularRecord(Seq(ms), "mod{}".format(i + 1)) << k) for i, ms in enumerate(mss)]
            attempt("scenario {} k={}".format(sname, k), vector.assemble, *modules)


def part_registries():
    from moclo.registry.ytk import YTKRegistry, PTKRegistry
    from moclo.registry.cidar import CIDARRegistry
    from moclo.registry.ecoflex import EcoFlexRegistry
    from moclo.registry.plant import PlantRegistry

    regs = [YTKRegistry, PTKRegistry, CIDARRegistry, EcoFlexRegistry, PlantRegistry]
    for factory in regs:
        reg = factory()
        for n, key in enumerate(sorted(reg)):
            item = reg[key]
            entity = item.entity
            label = "reg {} {} {}".format(factory.__name__, key, type(entity).__name__)
            log(label, item.id, item.name, item.resistance, hashlib.sha256(ser(entity.record).encode("utf-8")).hexdigest()[:16])
            describe_entity(label, entity)
            if n % 6 == 0:
                rec = entity.record
                try:
                    start = entity._match.span(0)[0]
                except errors.InvalidSequence:
                    start = 0
                for k in [1, start + 3, start + 9, len(rec) - 7, -(len(rec) + 11)]:
                    rot = rec << k
                    log(label, "<<", k, hashlib.sha256(ser(rot).encode("utf-8")).hexdigest()[:16], sharing(rec, rot)[:40])
                    describe_entity("{} <<{}".format(label, k), type(entity)(rot))
    # real assemblies (the ones of tests/test_cidar.py), and a failing one
    reg = CIDARRegistry()
    for vec, mods in [
        ("DVK_EF", ("J23102_EB", "BCD8_BC", "E1010m_CD", "B0015_DF")),
        ("DVK_AE", ("J23102_AB", "BCD2_BC", "E0040m_CD", "B0015_DE")),
        ("DVK_AE", ("J23102_AB", "BCD2_BC", "B0015_DE")),
        ("DVK_AE", ("J23102_AB", "BCD2_BC", "E0040m_CD", "E1010m_CD", "B0015_DE")),
    ]:
        try:
            vector = reg[vec].entity
            modules = [reg[m].entity for m in mods]
        except KeyError as err:
            log("assembly", vec, mods, ser_exc(err))
            continue
        res = attempt("assembly {} {}".format(vec, mods), vector.assemble, *modules)
        if res is not None:
            log("assembly rotated", short(ser(res >> 1234)), short(ser(res << 99999)))
        log("assembly inputs after", [hashlib.sha256(ser(e.record).encode("utf-8")).hexdigest()[:16] for e in modules + [vector]])


def main():
    part_rotations()
    part_regex()
    part_mock()
    part_registries()
    text = "\n".join(LINES)
    if len(sys.argv) > 1:
        with open(sys.argv[1], "w") as handle:
            handle.write(text + "\n")
    print("observations:", len(LINES))
    print("digest:", hashlib.sha256(text.encode("utf-8")).hexdigest())


if __name__ == "__main__":
    main()
