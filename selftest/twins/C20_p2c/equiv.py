# coding: utf-8
"""Differential test for the registry code (property C20).

Run as:  cd /tmp/agents5/C20 && /venv/bin/python pairs_out/C20_p2/equiv.py

Prints a digest of everything observable (results, exception types and
messages, warnings, state of the inputs afterwards).  The digest must be the
same before and after a behaviour-preserving refactoring.  Set the environment
variable C20_DUMP=<path> to also get the log lines the digest is made of.
"""
import sys

sys.path.insert(0, "/tmp/agents5/C20")
import tests  # noqa: F401,E402  (splices the kit packages in the namespace)

import copy  # noqa: E402
import hashlib  # noqa: E402
import io  # noqa: E402
import os  # noqa: E402
import random  # noqa: E402
import re  # noqa: E402
import shutil  # noqa: E402
import tarfile  # noqa: E402
import tempfile  # noqa: E402
import warnings  # noqa: E402

import fs  # noqa: E402
import Bio.SeqIO  # noqa: E402
from Bio.Seq import Seq  # noqa: E402
from Bio.SeqFeature import SeqFeature, FeatureLocation  # noqa: E402
from Bio.SeqRecord import SeqRecord  # noqa: E402

from moclo.core import AbstractPart, AbstractModule, AbstractVector  # noqa: E402
from moclo.kits import ytk, cidar, ecoflex, moclo as ig, plant  # noqa: E402
from moclo.record import CircularRecord  # noqa: E402
from moclo.registry import base  # noqa: E402
from moclo.registry._utils import find_resistance  # noqa: E402
from moclo.registry.cidar import CIDARRegistry  # noqa: E402
from moclo.registry.ecoflex import EcoFlexRegistry  # noqa: E402
from moclo.registry.elabftw import ELabFTWRegistry  # noqa: E402
from moclo.registry.plant import PlantRegistry  # noqa: E402
from moclo.registry.ytk import YTKRegistry, PTKRegistry  # noqa: E402

LOG = []
RNG = random.Random(20200)


def log(*fields):
    LOG.append(" | ".join(str(f) for f in fields))


def attempt(label, func, *args, **kwargs):
    """Call, log the outcome and the warnings, return (ok, value)."""
    with warnings.catch_warnings(record=True) as caught:
        warnings.simplefilter("always")
        try:
            value = func(*args, **kwargs)
            outcome = (True, value)
        except BaseException as err:  # noqa: B902
            if isinstance(err, (KeyboardInterrupt, SystemExit)):
                raise
            log(label, "RAISED", type(err).__name__, str(err))
            outcome = (False, None)
    for w in caught:
        if "pkg_resources" in str(w.message):
            continue
        log(label, "WARNED", w.category.__name__, str(w.message))
    return outcome


def describe_record(record):
    comment = record.annotations.get("comment")
    return "rec(%s,%s,%s,%s,%d,%d,%s,%r)" % (
        type(record).__name__,
        record.id,
        record.name,
        record.description,
        len(record.seq),
        len(record.features),
        hashlib.md5(str(record.seq).encode()).hexdigest()[:8],
        comment,
    )


def describe_item(item):
    if not isinstance(item, base.Item):
        return "not-an-item:%r" % (item,)
    return "item(%s,%s,%s,%s,%s)" % (
        item.id,
        item.name,
        type(item.entity).__name__,
        item.resistance,
        describe_record(item.entity.record),
    )


def mapping_report(label, registry, extra_keys=()):
    """Everything the Mapping interface of a registry lets us see."""
    ok, keys = attempt(label + ".iter", lambda: list(registry))
    attempt(label + ".len", lambda: log(label, "len", len(registry)))
    if not ok:
        keys = []
    log(label, "keys", keys)
    for key in list(keys) + list(extra_keys):
        ok, item = attempt(label + "[%r]" % (key,), registry.__getitem__, key)
        if ok:
            log(label, "get", repr(key), describe_item(item))
        attempt(
            label + " has %r" % (key,),
            lambda k=key: log(label, "in", repr(k), k in registry),
        )
    attempt(
        label + ".values",
        lambda: log(label, "values", [describe_item(i) for i in registry.values()]),
    )
    attempt(
        label + ".items",
        lambda: log(label, "items", [(k, i.id) for k, i in registry.items()]),
    )
    attempt(label + ".get", lambda: log(label, "get-absent", registry.get("<absent>", 42)))


# --- pools of material -------------------------------------------------------

EMBEDDED = [
    ("ytk", YTKRegistry),
    ("ptk", PTKRegistry),
    ("cidar", CIDARRegistry),
    ("ecoflex", EcoFlexRegistry),
    ("plant", PlantRegistry),
]


def genbank_text(record, new_id=None, new_name=None, comment=None, drop=None):
    record = copy.deepcopy(record)
    if new_id is not None:
        record.id = new_id
    if new_name is not None:
        record.name = new_name
    if comment is not None:
        record.annotations["comment"] = comment
    if drop is not None:
        record.features = [
            f for f in record.features if not drop(f.qualifiers.get("label", []))
        ]
    out = io.StringIO()
    with warnings.catch_warnings():
        warnings.simplefilter("ignore")
        Bio.SeqIO.write([record], out, "genbank")
    return out.getvalue()


def is_cassette(labels):
    return any(
        l in ("KanR", "CamR", "CmR", "KnR", "AmpR", "SmR", "SpecR") for l in labels
    )


# --- 1. the embedded registries ----------------------------------------------


def check_embedded():
    instances = {}
    for name, factory in EMBEDDED:
        registry = instances[name] = factory()
        mapping_report(
            "emb:" + name, registry, extra_keys=["pYTK200", "", "pytk001", None, 3]
        )
        log("emb:" + name, "again", list(registry) == list(registry), len(registry))
        log("emb:" + name, "cached", registry._data is registry._data)
    for name, registry in instances.items():
        for other_name, other_factory in EMBEDDED:
            other = other_factory()
            log(
                "emb:eq",
                name,
                other_name,
                registry == other,
                hash(registry) == hash(other),
                registry != other,
            )
        log("emb:eq", name, "str", registry == name, registry == None)  # noqa: E711
    return instances


# --- 2. hand-made embedded archives -----------------------------------------


def make_archive(path, members, compress=True):
    mode = "w:gz" if compress else "w"
    with tarfile.open(path, mode) as tar:
        for name, text in members:
            if text is None:
                info = tarfile.TarInfo(name)
                info.type = tarfile.DIRTYPE
                tar.addfile(info)
                continue
            data = text.encode("utf-8")
            info = tarfile.TarInfo(name)
            info.size = len(data)
            tar.addfile(info, io.BytesIO(data))


def check_fake_archives(instances, tmp):
    pkg = os.path.join(tmp, "c20fakepkg")
    os.mkdir(pkg)
    with open(os.path.join(pkg, "__init__.py"), "w") as f:
        f.write("")
    sys.path.insert(0, tmp)
    __import__("c20fakepkg")

    yreg = instances["ytk"]
    hints = {"pYTK002": "1", "pYTK038": "3a", "pYTK047": "234r", "pYTK095": "cassette vector", "pYTK085": "cassette vector", "pYTK090": "cassette vector"}

    def ytk_text(key, new_id=None, hint=None, comment_extra="", **kw):
        record = yreg[key].entity.record
        hint = hints[key] if hint is None else hint
        base_comment = record.annotations.get("comment", "")
        lines = [l for l in (base_comment, comment_extra) if l]
        if hint != "<none>":
            lines.insert(RNG.randrange(len(lines) + 1), "YTK:" + hint)
        return genbank_text(record, new_id=new_id, comment="\n".join(lines), **kw)

    archives = {
        "plain.tar.gz": [(k, ytk_text(k)) for k in hints],
        "renamed.tar.gz": [
            ("dir/%s.gb" % k, ytk_text(k, new_id="X" + k[1:], comment_extra="kept line"))
            for k in hints
        ],
        "dupes.tar.gz": [
            ("a", ytk_text("pYTK002", new_id="same")),
            ("b", ytk_text("pYTK038", new_id="same")),
            ("a", ytk_text("pYTK047", new_id="other")),
        ],
        "nores.tar.gz": [
            ("ok", ytk_text("pYTK002")),
            ("bad", ytk_text("pYTK038", drop=is_cassette)),
            ("after", ytk_text("pYTK047")),
        ],
        "nohint.tar.gz": [("x", ytk_text("pYTK002", hint="<none>", comment_extra="hello"))],
        "badhint.tar.gz": [("x", ytk_text("pYTK002", hint="9z"))],
        "twohints.tar.gz": [("x", ytk_text("pYTK002", comment_extra="YTK:3a"))],
        "withdir.tar.gz": [("ok", ytk_text("pYTK002")), ("folder", None)],
        "empty.tar.gz": [],
        "notgb.tar.gz": [("x", "this is not a GenBank file\n")],
    }
    for filename, members in sorted(archives.items()):
        make_archive(os.path.join(pkg, filename), members)
    make_archive(os.path.join(pkg, "notgz.tar.gz"), archives["plain.tar.gz"], compress=False)
    names = sorted(archives) + ["notgz.tar.gz", "missing.tar.gz"]

    for filename in names:
        cls = type(str("Fake"), (YTKRegistry,), {"_module": "c20fakepkg", "_file": filename})
        registry = cls()
        mapping_report("fake:" + filename, registry, extra_keys=["same", "a", "pYTK002", "nope"])
        attempt(
            "fake:" + filename + ".data",
            lambda: log("fake:" + filename, "data", list(registry._data)),
        )

    # a registry with its own naming / typing rules
    class Custom(base.EmbeddedRegistry):
        _module = "c20fakepkg"
        _file = "renamed.tar.gz"

        def _load_name(self, record):
            return "name-of-" + record.id

        def _load_entity(self, record):
            return ytk.YTKPart.characterize(record)

    mapping_report("fake:custom", Custom(), extra_keys=["XYTK002"])

    class Abstractish(base.EmbeddedRegistry):
        _module = "c20fakepkg"
        _file = "plain.tar.gz"

    attempt("fake:abstract", lambda: mapping_report("fake:abstract", Abstractish()))


# --- 3. the loaders of the kits, fed with crafted records --------------------


def crafted(id_, description="", comment=None, labels=()):
    record = CircularRecord(
        Seq("ATGC" * 20), id=id_, name="n-" + id_, description=description
    )
    if comment is not None:
        record.annotations["comment"] = comment
    for i, label in enumerate(labels):
        qualifiers = {} if label is None else {"label": label}
        record.features.append(
            SeqFeature(FeatureLocation(i, i + 4), type="misc_feature", qualifiers=qualifiers)
        )
    return record


def check_loaders(instances):
    creg, yreg, ereg, preg = (instances[k] for k in ("cidar", "ytk", "ecoflex", "plant"))

    classes = ["Cassette Vector", "Entry Vector", "Device", "Transcriptional Unit",
               "Basic Part", "Destination Vector", "Unknown Thing", ""]
    types = ["Double terminator", "RBS", "CDS", "Controllable promoter",
             "Constitutive promoter", "Terminator", "rbs", "", " RBS ", "CDS - x", "CDS [y]", "CDS (z)"]
    ids = ["DVA_AE", "DVK_EF", "DVX_1", "dva_ae", "B0015_DE", "", "DVADVK"]
    descriptions = ["no match here", "MoClo", "MoClo : ", "moclo Basic Part: RBS",
                    "prefix MoClo Basic Part: RBS", "MoClo Basic Part:RBS", "MoClo Basic Part RBS"]
    for _ in range(160):
        descriptions.append("MoClo %s: %s" % (RNG.choice(classes), RNG.choice(types)))
    for n, description in enumerate(descriptions):
        record = crafted(RNG.choice(ids), description)
        label = "cidar#%d(%s,%s)" % (n, record.id, description)
        ok, entity = attempt(label, creg._load_entity, record)
        if ok:
            log(label, type(entity).__name__, entity.record is record)
        log(label, "after", describe_record(record))

    comments = ["YTK:1", "YTK:3a\nmore", "first\nYTK:234r\nlast", "YTK:8\nYTK:1", "x\nYTK: 1",
                " YTK:1", "ytk:1", "YTK:cassette vector  ", "YTK:", "", "nothing", "YTK:1:2",
                "a\r\nYTK:5\r\nb", "YTK:entry vector\n\n", "YTK:1\nYTK:1", "dup\nYTK:2\ndup"]
    for key in sorted(yreg._types):
        comments.append("line\nYTK:%s\nother" % key)
    for n, comment in enumerate(comments):
        for registry, tag in ((yreg, "ytk"), (instances["ptk"], "ptk")):
            record = crafted("pX%03d" % n, "d", comment=comment)
            label = "%s#%d(%r)" % (tag, n, comment)
            ok, entity = attempt(label, registry._load_entity, record)
            if ok:
                log(label, type(entity).__name__, entity.record is record)
            log(label, "after", describe_record(record))
    record = crafted("pNoComment")
    attempt("ytk#nocomment", yreg._load_entity, record)
    log("ytk#nocomment", "after", describe_record(record))

    for n, id_ in enumerate(["pTU1-A", "pTU2-b", "pTU3", "ptu1", "xpTU1", "pTU", "pTU12", "pBP-x", ""]):
        record = crafted(id_)
        label = "ecoflex#%d(%s)" % (n, id_)
        ok, entity = attempt(label, ereg._load_entity, record)
        if ok:
            log(label, type(entity).__name__, entity.record is record)
    for key in list(ereg)[:12]:
        record = copy.deepcopy(ereg[key].entity.record)
        ok, entity = attempt("ecoflex-real:" + key, ereg._load_entity, record)
        if ok:
            log("ecoflex-real:" + key, type(entity).__name__)

    class TypedPlant(PlantRegistry):
        _types = {"special": plant.Plant1 if hasattr(plant, "Plant1") else ig.MoCloEntryVector,
                  "none": None}

    for registry, tag in ((preg, "plant"), (TypedPlant(), "typedplant")):
        for id_ in ["special", "none", "other", ""]:
            record = crafted(id_)
            label = "%s(%s)" % (tag, id_)
            ok, entity = attempt(label, registry._load_entity, record)
            if ok:
                log(label, type(entity).__name__)
        for key in list(preg)[:8]:
            record = copy.deepcopy(preg[key].entity.record)
            ok, entity = attempt("%s-real:%s" % (tag, key), registry._load_entity, record)
            if ok:
                log("%s-real:%s" % (tag, key), type(entity).__name__)

    # names and resistances as the embedded loader sees them
    pool = ["KanR", "CamR", "CmR", "KnR", "AmpR", "SmR", "SpecR", "kanr", "ori", "GFP", "AmpR promoter", ""]
    for n in range(260):
        labels = []
        for _ in range(RNG.randrange(5)):
            kind = RNG.random()
            if kind < 0.15:
                labels.append(None)
            elif kind < 0.25:
                labels.append(RNG.choice(pool))  # a bare string, not a list
            else:
                labels.append([RNG.choice(pool) for _ in range(RNG.randrange(4))])
        record = crafted("r%03d" % n, labels=labels)
        plain = SeqRecord(Seq("ATGC"), id="plain%03d" % n, features=list(record.features))
        label = "resistance#%d%r" % (n, labels)
        for tag, func, arg in (
            ("find", find_resistance, record),
            ("find-plain", find_resistance, plain),
            ("load", creg._load_resistance, record),
            ("name", yreg._load_name, record),
        ):
            ok, value = attempt(label + tag, func, arg)
            if ok:
                log(label, tag, value)
        log(label, "after", describe_record(record), [sorted(f.qualifiers) for f in record.features])
    try:
        creg._load_resistance(crafted("ctx"))
    except RuntimeError as err:
        log("resistance-context", err.__cause__, err.__suppress_context__)


# --- 4. registries on a filesystem -------------------------------------------


def check_filesystem(instances):
    yreg, creg = instances["ytk"], instances["cidar"]
    ytk_sources = [yreg[k].entity.record for k in
                   ("pYTK002", "pYTK038", "pYTK047", "pYTK095", "pYTK085", "pYTK090", "pYTK008", "pYTK073")]
    cidar_sources = [creg[k].entity.record for k in ("C0062_CD", "BCD8_BC", "R0010_AB", "B0015_DE")]
    sources = ytk_sources + cidar_sources
    stems = ["alpha", "beta", "gamma", "with.dot", "UPPER", "pYTK002", "sp ace", "7", "delta", "x.gb"]
    extensions = ["gb", "gbk", "gb", "gbk", "gb", "genbank", "txt", "GB", "gb.txt", "fa"]
    bases = [ytk.YTKPart] * 9 + [cidar.CIDARPart] * 3 + [
        ytk.YTKPart8, ytk.YTKEntryVector, ytk.YTKCassetteVector, AbstractPart,
        AbstractModule, AbstractVector, cidar.CIDAREntryVector, ytk.YTKPart1]
    exts_choices = [None] * 4 + [("gb", "gbk"), ("gbk", "gb"), ("gbk", "gb"), ("genbank", "gb"),
                                 ("gb.txt", "gb"), (), ["gb"], ("GB",), ("txt", "fa")]

    for bad in (None, "ytk.YTKPart", object, ytk.YTKPart1(sources[0]), 3, CircularRecord, (ytk.YTKPart,)):
        attempt("fs:badbase(%s)" % (getattr(bad, "__name__", type(bad).__name__),),
                base.FilesystemRegistry, "mem://", bad)
    attempt("fs:badurl", base.FilesystemRegistry, "no-such-protocol://x", ytk.YTKPart)
    attempt("fs:badurl+badbase", base.FilesystemRegistry, "no-such-protocol://x", None)

    for round_ in range(90):
        memfs = fs.open_fs("mem://")
        layout = []
        kit_base = RNG.choice(bases)
        if RNG.random() < 0.85:
            sources = cidar_sources if kit_base.__name__.startswith("CIDAR") else ytk_sources
        else:
            sources = ytk_sources + cidar_sources
        for stem in RNG.sample(stems, RNG.randrange(2, 8)):
            for extension in RNG.sample(extensions, RNG.randrange(1, 3)):
                filename = "%s.%s" % (stem, extension)
                kind = RNG.random()
                if memfs.exists(filename):
                    continue
                if kind < 0.05:
                    memfs.makedir(filename)
                    layout.append(filename + "/")
                    if RNG.random() < 0.5:
                        memfs.writetext(filename + "/inner.gb", genbank_text(sources[0]))
                    continue
                if kind < 0.10:
                    text = "not a genbank file\n"
                elif kind < 0.17:
                    text = genbank_text(RNG.choice(sources), drop=is_cassette)
                elif kind < 0.21:
                    text = genbank_text(sources[0]) + genbank_text(sources[1])
                else:
                    source = RNG.choice(sources)
                    new_id = RNG.choice([None, stem.replace(" ", "_").replace(".", "_"), "OTHER01"])
                    text = genbank_text(source, new_id=new_id)
                memfs.writetext(filename, text)
                layout.append(filename)
        if RNG.random() < 0.4:
            memfs.makedir("subdir")
            memfs.writetext("subdir/hidden.gb", genbank_text(sources[-1]))
            layout.append("subdir/")
        if RNG.random() < 0.3:
            memfs.writetext("README", "hello")
            layout.append("README")
        before = sorted(memfs.walk.files()) + sorted(memfs.walk.dirs())
        exts = RNG.choice(exts_choices)
        label = "fs#%d(%s,%s)" % (round_, kit_base.__name__, exts)
        log(label, "layout", layout)
        if exts is None:
            ok, registry = attempt(label, base.FilesystemRegistry, memfs, kit_base)
        else:
            ok, registry = attempt(label, base.FilesystemRegistry, memfs, kit_base, exts)
        if not ok:
            continue
        log(label, "attrs", registry.base.__name__, registry._extensions, registry._files, registry._recurse)
        keys = ["alpha", "absent", "", "subdir", "subdir/hidden", "README", 7, None, "alpha.gb", "x"]
        mapping_report(label, registry, extra_keys=keys)
        ok, iterator = attempt(label + ".lazy", iter, registry)
        if ok:
            log(label, "iterator", type(iterator).__name__)
        attempt(label + ".write", registry.fs.writetext, "new.gb", "x")
        after = sorted(memfs.walk.files()) + sorted(memfs.walk.dirs())
        log(label, "untouched", before == after)
        memfs.close()
        attempt(label + ".closed-iter", lambda: list(registry))
        attempt(label + ".closed-len", lambda: len(registry))
        attempt(label + ".closed-get", lambda: registry["alpha"])


# --- 5. combinations ----------------------------------------------------------


class BrokenRegistry(dict):
    """Yields a few items, then fails."""

    def values(self):
        for n, item in enumerate(dict.values(self)):
            if n == 2:
                raise OSError("disk on fire")
            yield item

    itervalues = values


def check_combined(instances):
    yreg = instances["ytk"]
    sources = {k: yreg[k].entity.record for k in
               ("pYTK002", "pYTK038", "pYTK047", "pYTK095", "pYTK085", "pYTK090")}
    source_keys = sorted(sources)
    shared = ["one", "two", "three", "four", "pYTK001", "pPTK002", "B0015_DE"]

    def make_fs_registry(tag):
        memfs = fs.open_fs("mem://")
        for stem in RNG.sample(shared, RNG.randrange(1, 5)):
            key = RNG.choice(source_keys)
            memfs.writetext(stem + RNG.choice([".gb", ".gbk"]), genbank_text(sources[key], new_name=tag))
            if RNG.random() < 0.2:  # the same stem twice in one directory
                memfs.writetext(stem + ".gbk", genbank_text(sources[RNG.choice(source_keys)], new_name=tag + "bis"))
        return base.FilesystemRegistry(memfs, ytk.YTKPart)

    def make_plain_mapping(tag):
        mapping = {}
        for stem in RNG.sample(shared, RNG.randrange(1, 5)):
            entity = yreg[RNG.choice(source_keys)].entity
            # the key in the member is NOT what counts: the id of the item is
            mapping["key-" + stem] = base.Item(id=stem, name=tag, entity=entity, resistance="Ampicillin")
            if RNG.random() < 0.3:  # the same id twice inside one member
                mapping["dup-" + stem] = base.Item(id=stem, name=tag + "-dup", entity=entity, resistance="Kanamycin")
        return mapping

    def make_broken(tag):
        broken = BrokenRegistry()
        for stem in RNG.sample(shared, 4):
            broken[stem] = base.Item(id=stem, name=tag, entity=yreg["pYTK002"].entity, resistance="Kanamycin")
        return broken

    for round_ in range(60):
        combined = base.CombinedRegistry()
        label = "comb#%d" % round_
        members = []
        for n in range(RNG.randrange(0, 6)):
            tag = "m%d" % n
            kind = RNG.random()
            if kind < 0.25:
                name = RNG.choice(sorted(instances))
                member = instances[name]
                tag += ":" + name
            elif kind < 0.55:
                member = make_fs_registry(tag)
                tag += ":fs"
            elif kind < 0.75:
                member = make_plain_mapping(tag)
                tag += ":dict"
            elif kind < 0.85 and members:
                member = RNG.choice(members)[1]  # a repeated member
                tag += ":again"
            elif kind < 0.93:
                member = make_broken(tag)
                tag += ":broken"
            else:
                member = base.CombinedRegistry()
                for _, earlier in members[:2]:
                    attempt(label + ".nest", member.add_registry, earlier)
                tag += ":nested"
            keys_before = attempt(label + ".keys-before", lambda m=member: sorted(map(str, m)))[1]
            if RNG.random() < 0.5:
                ok, result = attempt(label + "<<" + tag, combined.__lshift__, member)
                if ok:
                    log(label, "lshift returns self", result is combined)
            else:
                ok, result = attempt(label + ".add(" + tag + ")", combined.add_registry, member)
                if ok:
                    log(label, "add returns", result)
            keys_after = attempt(label + ".keys-after", lambda m=member: sorted(map(str, m)))[1]
            log(label, tag, "member untouched", keys_before == keys_after)
            members.append((tag, member))
            log(label, "after", tag, list(combined), len(combined))
        log(label, "members", [tag for tag, _ in members])
        mapping_report(label, combined, extra_keys=["one", "absent", "key-one", None])
        for key in combined:
            item = combined[key]
            log(label, "who", key, item.name, item.resistance, type(item.entity).__name__)
        log(label, "data-is-dict", type(combined._data).__name__, list(combined._data) == list(combined))
    attempt("comb:bad-member", base.CombinedRegistry().add_registry, None)
    attempt("comb:bad-values", base.CombinedRegistry().add_registry, {"a": "not an item"})
    entity = yreg["pYTK002"].entity
    odd = base.CombinedRegistry()
    good = base.Item(id="good", name="n", entity=entity, resistance="Ampicillin")
    for ident in (["unhashable"], None, 3, ("t", 1), "good"):
        member = {"0": good, "1": base.Item(id=ident, name="odd", entity=entity, resistance="Ampicillin"),
                  "2": base.Item(id="later", name="n", entity=entity, resistance="Ampicillin")}
        attempt("comb:odd-id(%r)" % (ident,), odd.add_registry, member)
        log("comb:odd-id", repr(ident), [repr(k) for k in odd], [i.name for i in odd.values()])


# --- 6. the eLabFTW registry (construction only: no network here) -------------


def check_elabftw():
    servers = ["https://elab.example.org", "http://x:80", "ftp://nope", "", None, 3, b"https://bytes"]
    kit_bases = [ytk.YTKPart, AbstractVector, None, "YTKPart", object, ytk.YTKPart8]
    for server in servers:
        for kit_base in kit_bases:
            label = "elab(%r,%s)" % (server, getattr(kit_base, "__name__", kit_base))
            ok, registry = attempt(label, ELabFTWRegistry, server, "token", kit_base,
                                   include_tags=["a", "b", "a"], exclude_tags=None)
            if ok:
                log(label, registry.base.__name__, registry.server, registry.token, registry.category,
                    registry._strict, registry._ignore_unknown, sorted(registry._include), registry._exclude)


def main():
    tmp = tempfile.mkdtemp(prefix="c20equiv")
    try:
        with warnings.catch_warnings():
            warnings.simplefilter("ignore")
            instances = {name: factory() for name, factory in EMBEDDED}
            for registry in instances.values():
                registry._data
        check_embedded()
        check_fake_archives(instances, tmp)
        check_loaders(instances)
        check_filesystem(instances)
        check_combined(instances)
        check_elabftw()
    finally:
        shutil.rmtree(tmp, ignore_errors=True)
    blob = "\n".join(LOG).replace(tmp, "<tmp>")
    blob = re.sub(r"0x[0-9a-fA-F]+", "0x?", blob)
    dump = os.environ.get("C20_DUMP")
    if dump:
        with open(dump, "w") as f:
            f.write(blob + "\n")
    print("lines: %d" % len(LOG))
    print("raised: %d" % sum(" | RAISED | " in l for l in LOG))
    print("digest: %s" % hashlib.sha256(blob.encode("utf-8")).hexdigest())


if __name__ == "__main__":
    main()
