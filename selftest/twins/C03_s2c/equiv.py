# coding: utf-8
"""Differential test for the C03_s2 pull request (defensive assembly manager:
overhangs normalised in one place, ordered start-overhang map, bounded walk,
narrow ``except``; read-only letter / antibiotics tables).

Run as ``cd /tmp/agents8/C03 && /venv/bin/python pairs_out/C03_s2/equiv.py``;
prints a digest of everything observed (``--dump`` prints the lines as well).
"""
import sys

sys.path.insert(0, "/tmp/agents8/C03")
import tests  # noqa: E402,F401

import copy  # noqa: E402
import hashlib  # noqa: E402
import inspect  # noqa: E402
import itertools  # noqa: E402
import random  # noqa: E402
import warnings  # noqa: E402

from Bio import Restriction  # noqa: E402
from Bio.Restriction import BsaI, BbsI, BpiI, BsmBI, BtsI, EcoRV  # noqa: E402
from Bio.Seq import Seq  # noqa: E402
from Bio.SeqFeature import SeqFeature, FeatureLocation  # noqa: E402
from Bio.SeqRecord import SeqRecord  # noqa: E402

import moclo.core  # noqa: E402
from moclo import errors  # noqa: E402
from moclo.core import modules, vectors, parts  # noqa: E402
from moclo.core._structured import StructuredRecord  # noqa: E402
from moclo.kits import ytk, cidar, ecoflex, moclo as mocloKit, plant  # noqa: E402
from moclo.record import CircularRecord  # noqa: E402

LINES = []


def out(*fields):
    LINES.append(" | ".join(str(f) for f in fields).replace("\n", "\\n"))


def rc(s):
    return str(Seq(s).reverse_complement())


def outcome(func, *args, **kwargs):
    """Call and describe the result or the exception (type and message)."""
    try:
        with warnings.catch_warnings(record=True) as caught:
            warnings.simplefilter("always")
            res = func(*args, **kwargs)
    except Exception as exc:  # noqa
        return "EXC {}: {}".format(type(exc).__name__, describe_exc(exc))
    ws = [
        "{}: {}".format(type(w.message).__name__, w.message)
        for w in caught
        if isinstance(w.message, errors.MocloError)
    ]
    return "OK {} {}".format(describe(res), ws)


def describe_exc(exc):
    if isinstance(exc, errors.InvalidSequence):
        seq = exc.sequence
        if isinstance(seq, SeqRecord):
            return "<{} {}> details={!r}".format(type(seq).__name__, seq.id, exc.details)
        if isinstance(seq, StructuredRecord):
            return "<{} {}> details={!r}".format(
                type(seq).__name__, seq.record.id, exc.details
            )
        return "{} details={!r}".format(str(seq), exc.details)
    if isinstance(exc, errors.DuplicateModules):
        return "{} dup={}".format(exc, [d.record.id for d in exc.duplicates])
    if isinstance(exc, errors.MissingModule):
        return "{} start={!r}".format(exc, str(exc.start_overhang))
    return str(exc)


def describe_features(rec):
    feats = []
    for f in rec.features:
        quals = sorted((k, str(v)) for k, v in f.qualifiers.items())
        feats.append("{}@{}:{}".format(f.type, f.location, quals))
    return feats


def describe(res):
    if isinstance(res, SeqRecord):
        return "<{} id={} name={} seq={} feats={} ann={}>".format(
            type(res).__name__,
            res.id,
            res.name,
            str(res.seq),
            describe_features(res),
            sorted((k, str(v)) for k, v in res.annotations.items()),
        )
    if isinstance(res, Seq):
        return "Seq({})".format(str(res))
    return repr(res)


def state(rec):
    return "{}:{}:{}:{}:{}".format(
        type(rec).__name__,
        rec.id,
        hashlib.md5(str(rec.seq).encode()).hexdigest()[:8],
        describe_features(rec),
        sorted((k, str(v)) for k, v in rec.annotations.items()),
    )


# --- C. generated records ---------------------------------------------------

SITES = {"BsaI": ("GGTCTC", 1), "BbsI": ("GAAGAC", 2), "BpiI": ("GAAGAC", 2), "BsmBI": ("CGTCTC", 1)}
ALL_SITES = ["GGTCTC", "GAGACC", "GAAGAC", "GTCTTC", "CGTCTC", "GAGACG"]
BACKBONE = "TTAATTAACCTTAATTAAGGTTAATTAATT"


def payload(i, n=10):
    bits = format(i, "0{}b".format(n))
    return "AT" + "".join("A" if b == "0" else "T" for b in bits) + "TA"


def module_seq(cutter, start, end, idx, backbone=BACKBONE):
    site, gap = SITES[str(cutter)]
    return site + "A" * gap + start + payload(idx) + end + "T" * gap + rc(site) + backbone


# layout of the kit vectors: (outer site, outer gap, adjacent outer overhang ?)
VECTOR_LAYOUT = {
    "CIDAREntryVector": ("GGTCTC", 1, False),
    "CIDARCassetteVector": ("GAAGAC", 2, False),
    "CIDARDeviceVector": ("GGTCTC", 1, False),
    "EcoFlexCassetteVector": ("CGTCTC", 1, True),
    "EcoFlexDeviceVector": ("GGTCTC", 1, True),
    "MoCloEntryVector": ("GGTCTC", 1, False),
    "MoCloCassetteVector": ("GAAGAC", 2, True),
}


def vector_seq(cls, end, start, filler="ACACAC", outer=("CATG", "GTCA"), backbone=BACKBONE):
    """vector: ...[outer]-end-(placeholder)-start-[outer]... (end = downstream overhang)"""
    site, gap = SITES[str(cls.cutter)]
    left, right = "C", "G"
    layout = VECTOR_LAYOUT.get(cls.__name__)
    if layout is not None:
        osite, ogap, adjacent = layout
        left = osite + "A" * ogap + (outer[0] if adjacent else "")
        right = (outer[1] if adjacent else "") + "T" * ogap + rc(osite)
    return "".join([
        backbone[:12], left, end, "T" * gap, rc(site), filler, site, "A" * gap, start, right,
        backbone[12:],
    ])


def mixcase(s, rng):
    return "".join(c.lower() if rng.random() < 0.5 else c for c in s)


MODULE_CLASSES = [
    ytk.YTKEntry, ytk.YTKCassette, cidar.CIDARProduct, cidar.CIDAREntry, cidar.CIDARCassette,
    cidar.CIDARDevice, ecoflex.EcoFlexEntry, ecoflex.EcoFlexCassette, ecoflex.EcoFlexDevice,
    mocloKit.MoCloProduct, mocloKit.MoCloEntry, mocloKit.MoCloCassette,
]
VECTOR_CLASSES = [
    ytk.YTKEntryVector, ytk.YTKCassetteVector, ytk.YTKDeviceVector,
    cidar.CIDAREntryVector, cidar.CIDARCassetteVector, cidar.CIDARDeviceVector,
    ecoflex.EcoFlexCassetteVector, ecoflex.EcoFlexDeviceVector,
    mocloKit.MoCloEntryVector, mocloKit.MoCloCassetteVector,
    mocloKit.MoCloSingleCassetteVector, mocloKit.MoCloDeviceVector,
]
OVERHANGS = ["AACG", "CGTT", "TATG", "ACGT", "GCTG", "TACA"]




def citation_features(n):
    return [
        SeqFeature(FeatureLocation(1, 9), type="misc_feature",
                   qualifiers={"label": ["cited"], "citation": ["[1]"] if n else []}),
    ]


class MockVector(vectors.AbstractVector):
    cutter = BpiI


class MockModule(modules.AbstractModule):
    cutter = BpiI


VECTOR_CLASSES.append(MockVector)
MODULE_CLASSES.append(MockModule)

# --- A. assemblies through AbstractVector.assemble -------------------------------

GOOD_COMBOS = [
    [("AACG", "GCTG")],
    [("AACG", "TATG"), ("TATG", "GCTG")],
    [("TATG", "GCTG"), ("AACG", "TATG")],
    [("AACG", "TATG"), ("TATG", "TACA"), ("TACA", "GCTG")],
    [("TACA", "GCTG"), ("AACG", "TATG"), ("TATG", "TACA"), ("GCTG", "AACG")],
    [("TATG", "TACA"), ("TACA", "CGTT")],
    [("TATG", "TACA"), ("TACA", "TATG")],
    [("AACG", "TATG"), ("AACG", "TATG")],
    [("AACG", "TATG"), ("TATG", "AACG")],
    [("AACG", "TATG"), ("TATG", "TACA")],
    [("AACG", "TACA"), ("TACA", "TATG"), ("TATG", "TACA")],
    [("TATG", "GCTG"), ("GCTG", "TACA"), ("TACA", "TATG")],
]


def build_pool(mclasses, rng, idx):
    pool = {}
    for s in OVERHANGS:
        for e in OVERHANGS:
            idx += 1
            mcls = mclasses[idx % len(mclasses)]
            seq = module_seq(mcls.cutter, s, e, idx)
            if idx % 5 == 0:
                seq = mixcase(seq, rng)
            rec = CircularRecord(Seq(seq), id="{}{}_{}".format(s, e, idx))
            if idx % 3 == 0:
                rec = rec >> (idx % len(seq))
            if idx % 4 == 0:
                rec.annotations["references"] = ["ref-{}".format(idx)]
                rec.features.extend(citation_features(1))
            if idx % 7 == 0:
                rec = SeqRecord(rec.seq, id=rec.id)
            pool[s, e] = (mcls, rec)
    return pool, idx


def section_assemblies():
    rng = random.Random(1703)
    by_cutter = {}
    for cls in MODULE_CLASSES:
        by_cutter.setdefault(str(cls.cutter), []).append(cls)
    by_cutter["BbsI"] = by_cutter["BpiI"] = by_cutter["BbsI"] + by_cutter["BpiI"]
    idx = 5000
    for vcls in VECTOR_CLASSES:
        pool, idx = build_pool(by_cutter[str(vcls.cutter)], rng, idx)
        vecs = {}
        for end, start in [("AACG", "GCTG"), ("TATG", "CGTT"), ("aaCG", "GCtg"),
                           ("TACA", "TACA"), ("AACG", "aacg"), ("ACGT", "TATG")]:
            seq = vector_seq(vcls, end, start, outer=("GCTG", "TATG"))
            rec = CircularRecord(Seq(seq), id="vec_{}_{}".format(end, start),
                                 annotations={"references": ["ref-v"]},
                                 features=citation_features(1))
            vecs[end, start] = (vcls, rec >> (idx % 17))
        keys = sorted(pool)
        combos = list(GOOD_COMBOS)
        for n in (1, 2, 3, 4, 5):
            for _ in range({1: 10, 2: 25, 3: 35, 4: 20, 5: 8}[n]):
                combos.append([rng.choice(keys) for _ in range(n)])
        for (end, start), (_, vrec) in sorted(vecs.items()):
            for combo in combos:
                fresh = {}
                mods = []
                for k in combo:
                    # repeated keys: sometimes the very same object, sometimes a twin
                    if k not in fresh or rng.random() < 0.5:
                        mcls, rec = pool[k]
                        fresh[k] = mcls(copy.deepcopy(rec))
                    mods.append(fresh[k])
                vec = vcls(copy.deepcopy(vrec))
                before = [state(m.record) for m in mods] + [state(vec.record)]
                if rng.random() < 0.5:
                    res = outcome(vec.assemble, *mods, id="asm", name="nm")
                else:
                    res = outcome(vec.assemble, *mods)
                after = [state(m.record) for m in mods] + [state(vec.record)]
                out("ASM", vcls.__name__, end, start, combo, res,
                    "unchanged" if before == after else after)


# --- B. the manager itself ---------------------------------------------------


def section_manager():
    from moclo.core._assembly import AssemblyManager
    rng = random.Random(99)
    pool, _ = build_pool([MockModule], rng, 9000)
    keys = sorted(pool)
    combos = list(GOOD_COMBOS) + [[rng.choice(keys) for _ in range(rng.randint(1, 4))]
                                  for _ in range(60)]
    for end, start in [("AACG", "GCTG"), ("TACA", "TACA"), ("tatg", "CGTT")]:
        for combo in combos:
            vec = MockVector(CircularRecord(Seq(vector_seq(MockVector, end, start)), id="v"))
            mods = [pool[k][0](copy.deepcopy(pool[k][1])) for k in combo]
            given = list(mods)
            try:
                mgr = AssemblyManager(vec, given, id_="i", name="n")
            except Exception as exc:  # noqa
                out("MGR-INIT", end, start, combo, type(exc).__name__, describe_exc(exc))
                continue
            out("MGR", end, start, combo, mgr.vector is vec, mgr.modules is given,
                [e is x for e, x in zip(mgr.elements, mods + [vec])], mgr.id, mgr.name)

            def themap():
                m = mgr._generate_modules_map()
                return [(str(k), v.record.id) for k, v in m.items()], isinstance(m, dict)

            out("MGR-MAP", end, start, combo, outcome(themap))

            def walk():
                m = mgr._generate_modules_map()
                rec = mgr._generate_assembly(m)
                return str(rec.seq), type(rec).__name__, [(str(k), v.record.id) for k, v in m.items()]

            out("MGR-WALK", end, start, combo, outcome(walk))
            # the manager can be used again
            out("MGR-1", end, start, combo, outcome(mgr.assemble))
            out("MGR-2", end, start, combo, outcome(mgr.assemble))
            out("MGR-given", [m is g for m, g in zip(mods, given)], len(given))
    for bad in ((), None, "x"):
        vec = MockVector(CircularRecord(Seq(vector_seq(MockVector, "AACG", "GCTG")), id="v"))
        out("MGR-BAD", repr(bad), outcome(lambda: AssemblyManager(vec, bad)))
    vec = MockVector(CircularRecord(Seq(vector_seq(MockVector, "AACG", "GCTG")), id="v"))
    out("ASM-NOARG", outcome(vec.assemble))
    out("ASM-BADMOD", outcome(vec.assemble, "not a module"))
    out("ASM-BADMOD2", outcome(vec.assemble, MockModule(CircularRecord(Seq("ATGC"), id="short"))))
    out("ASM-BADVEC", outcome(MockVector(CircularRecord(Seq("ATGC"), id="short")).assemble,
                              pool[keys[0]][0](pool[keys[0]][1])))


# --- C. DNA patterns ------------------------------------------------------------


def section_regex():
    from moclo.regex import DNARegex
    out("LETTERS", sorted(DNARegex._lettermap.items()), len(DNARegex._lettermap),
        "N" in DNARegex._lettermap, DNARegex._lettermap.get("Z"), DNARegex._lettermap["R"])
    rng = random.Random(5)
    letters = "ACGTBDHKMNRSVWY"
    targets = ["".join(rng.choice("ACGT") for _ in range(40)) for _ in range(12)]
    patterns = ["".join(rng.choice(letters) for _ in range(rng.randint(2, 6))) for _ in range(40)]
    patterns += ["(NN)(RY*)S", "GGTCTCN(NNNN)", "X", "N*?AT", "[AC]G"]
    for pat in patterns:
        out("RX", pat, outcome(lambda: DNARegex._transcribe(pat)), outcome(lambda: DNARegex(pat).pattern))
        for t in targets:
            for label, subject in (
                ("seq", Seq(t)), ("rec", SeqRecord(Seq(t), id="t")),
                ("circ", CircularRecord(Seq(t), id="t")), ("lower", Seq(t.lower())),
                ("str", t),
            ):
                def search():
                    m = DNARegex(pat).search(subject)
                    if m is None:
                        return None
                    g = m.group(0)
                    return m.span(), str(g.seq if isinstance(g, SeqRecord) else g)
                out("RXS", pat, label, t[:6], outcome(search))
                if label == "rec":
                    def search2():
                        m = DNARegex(pat).search(subject, linear=False)
                        return None if m is None else (m.span(), str(m.group(0).seq))
                    out("RXC", pat, t[:6], outcome(search2))


# --- D. registries / antibiotics --------------------------------------------------


def section_registries():
    from moclo.registry import _utils
    from moclo.registry.ytk import YTKRegistry, PTKRegistry
    from moclo.registry.cidar import CIDARRegistry
    from moclo.registry.ecoflex import EcoFlexRegistry
    out("ANTIBIOTICS", sorted(_utils._ANTIBIOTICS.items()), len(_utils._ANTIBIOTICS))
    for labels in (["KanR"], ["CamR", "x"], ["AmpR", "SmR"], [], ["nope"], ["SpecR"], ["KnR"], ["CmR"]):
        rec = SeqRecord(Seq("ATGC"), id="r", features=[
            SeqFeature(FeatureLocation(0, 2), type="misc", qualifiers={}),
            SeqFeature(FeatureLocation(0, 2), type="misc", qualifiers={"label": labels}),
        ])
        out("RESIST", labels, outcome(_utils.find_resistance, rec))
    for factory in (YTKRegistry, PTKRegistry, CIDARRegistry, EcoFlexRegistry):
        reg = factory()
        out("REG", factory.__name__, len(reg))
        for key in sorted(reg):
            item = reg[key]
            ent = item.entity
            out("ITEM", factory.__name__, key, item.name, item.resistance, type(ent).__name__,
                outcome(ent.is_valid), outcome(ent.overhang_start), outcome(ent.overhang_end))


def section_real():
    """Assemblies with the plasmids of the kits."""
    from moclo.registry.ytk import YTKRegistry
    reg = YTKRegistry()
    names = ["pYTK002", "pYTK003", "pYTK009", "pYTK033", "pYTK047", "pYTK051", "pYTK067", "pYTK074",
             "pYTK081", "pYTK084", "pYTK095", "pYTK096", "pYTK008", "pYTK072"]
    ents = {n: reg[n].entity for n in names if n in reg}
    out("REAL", sorted((n, type(e).__name__) for n, e in ents.items()))
    vec = ents.get("pYTK095")
    rng = random.Random(8)
    mods = [n for n in sorted(ents) if not hasattr(ents[n], "placeholder_sequence")]
    for _ in range(40):
        chosen = rng.sample(mods, rng.randint(1, min(8, len(mods))))
        res = outcome(vec.assemble, *[ents[n] for n in chosen])
        out("REAL-ASM", chosen, hashlib.md5(res.encode()).hexdigest(), res[:120])
    for vname, chosen in (
        ("pYTK095", ["pYTK002", "pYTK009", "pYTK033", "pYTK051", "pYTK067"]),
        ("pYTK095", ["pYTK002", "pYTK047", "pYTK067", "pYTK074", "pYTK081"]),
        ("pYTK084", ["pYTK002", "pYTK009", "pYTK033", "pYTK051", "pYTK067", "pYTK074", "pYTK081"]),
        ("pYTK084", ["pYTK002", "pYTK009", "pYTK033", "pYTK051", "pYTK067", "pYTK074"]),
        ("pYTK096", ["pYTK009", "pYTK033", "pYTK051"]),
    ):
        for _ in range(4):
            rng.shuffle(chosen)
            res = outcome(ents[vname].assemble, *[ents[n] for n in chosen])
            out("REAL-FULL", vname, chosen, hashlib.md5(res.encode()).hexdigest(), res[:60])


def main():
    section_assemblies()
    section_manager()
    section_regex()
    section_registries()
    section_real()
    if "--dump" in sys.argv:
        for line in LINES:
            print(line)
    digest = hashlib.sha256("\n".join(LINES).encode("utf-8")).hexdigest()
    print("results:", len(LINES))
    print("digest:", digest)


if __name__ == "__main__":
    main()
