# coding: utf-8
"""Differential test for the rewrite of ``CircularRecord.__rshift__``.

Prints a digest of the results of many rotations (``>>`` and ``<<``) of
randomly generated circular records through the public API.
"""
import hashlib
import random
import sys
import warnings

sys.path.insert(0, "/tmp/agentsR4/R18")
import tests  # noqa: E402,F401

from Bio.Seq import Seq  # noqa: E402
from Bio.SeqFeature import (  # noqa: E402
    SeqFeature,
    FeatureLocation,
    CompoundLocation,
    BeforePosition,
    AfterPosition,
    ExactPosition,
)
from Bio.SeqRecord import SeqRecord  # noqa: E402

from moclo.record import CircularRecord  # noqa: E402

warnings.simplefilter("ignore")
rng = random.Random(1801)


class MyRecord(CircularRecord):
    """A user-defined subclass: rotations must preserve the type."""


def dump_location(loc):
    if loc is None:
        return None
    return (
        type(loc).__name__,
        repr(loc),
        [
            (type(p.start).__name__, int(p.start), type(p.end).__name__, int(p.end),
             p.strand, p.ref, p.ref_db)
            for p in loc.parts
        ],
        getattr(loc, "operator", None),
    )


def dump_record(rec):
    return (
        type(rec).__name__,
        str(rec.seq),
        rec.id,
        rec.name,
        rec.description,
        list(rec.dbxrefs),
        sorted((k, repr(v)) for k, v in rec.annotations.items()),
        sorted((k, repr(v)) for k, v in rec.letter_annotations.items()),
        [
            (f.type, f.id, dump_location(f.location), sorted((k, repr(v)) for k, v in f.qualifiers.items()))
            for f in rec.features
        ],
    )


def random_simple_location(n, wrap_ok=True):
    kind = rng.random()
    strand = rng.choice([1, -1, 0, None])
    if kind < 0.15 and n:
        # whole-sequence location
        return FeatureLocation(0, n, strand)
    if kind < 0.25:
        # location lying beyond the end (as produced by previous shifts)
        start = rng.randint(n, 3 * n + 1)
        end = start + rng.randint(0, n)
        return FeatureLocation(start, end, strand)
    if kind < 0.35:
        # straddling the end
        start = rng.randint(0, max(n - 1, 0))
        end = n + rng.randint(0, n)
        return FeatureLocation(start, end, strand)
    if kind < 0.45:
        start = rng.randint(0, n)
        end = rng.randint(start, n)
        return FeatureLocation(BeforePosition(start), AfterPosition(end), strand)
    if kind < 0.5:
        start = rng.randint(0, n)
        end = rng.randint(start, n)
        return FeatureLocation(ExactPosition(start), ExactPosition(end), strand, ref="REF", ref_db="DB")
    start = rng.randint(0, n)
    end = rng.randint(start, n)
    return FeatureLocation(start, end, strand)


def random_location(n):
    if rng.random() < 0.3:
        parts = [random_simple_location(n) for _ in range(rng.randint(2, 4))]
        return CompoundLocation(parts, operator=rng.choice(["join", "order"]))
    return random_simple_location(n)


def random_feature(n):
    ftype = rng.choice(["source", "source", "CDS", "misc_feature", "promoter"])
    quals = {"label": ["f{}".format(rng.randint(0, 99))]}
    if rng.random() < 0.3:
        quals["citation"] = ["[1]"]
    feat = SeqFeature(random_location(n), type=ftype, id="id{}".format(rng.randint(0, 9)), qualifiers=quals)
    if rng.random() < 0.08:
        feat.location = None
    return feat


def random_record(cls):
    n = rng.choice([1, 2, 3, 5, 8, 13, 21, 34, 55])
    seq = Seq("".join(rng.choice("ACGTacgtN") for _ in range(n)))
    features = [random_feature(n) for _ in range(rng.randint(0, 5))]
    if rng.random() < 0.4:
        # the canonical whole-plasmid source feature
        features.insert(
            rng.randint(0, len(features)),
            SeqFeature(FeatureLocation(0, n), type="source", qualifiers={"plasmid": "x"}),
        )
    letan = {}
    if rng.random() < 0.5:
        letan["phred_quality"] = [rng.randint(0, 40) for _ in range(n)]
    if rng.random() < 0.3:
        letan["marks"] = "".join(rng.choice("xyz") for _ in range(n))
    annotations = {}
    if rng.random() < 0.5:
        annotations["topology"] = rng.choice(["circular", "Circular", "CIRCULAR"])
    if rng.random() < 0.3:
        annotations["references"] = ["ref-a", "ref-b"]
    return cls(
        seq,
        id="rec{}".format(rng.randint(0, 999)),
        name="name",
        description="desc",
        dbxrefs=["db:1"] if rng.random() < 0.3 else None,
        features=features,
        annotations=annotations or None,
        letter_annotations=letan or None,
    )


def attempt(fn):
    try:
        return ("ok", fn())
    except Exception as exc:  # noqa: B902
        return ("err", type(exc).__name__, str(exc))


def rotate_case(rec, op, amount):
    before = dump_record(rec)
    quals_before = [f.qualifiers for f in rec.features]

    def run():
        out = (rec >> amount) if op == ">>" else (rec << amount)
        same = out is rec
        shared_quals = [
            a.qualifiers is b for a, b in zip(out.features, quals_before)
        ]
        return (
            same,
            dump_record(out),
            shared_quals,
            out.annotations is rec.annotations,
            out.dbxrefs is rec.dbxrefs,
        )

    res = attempt(run)
    after = dump_record(rec)
    return (op, amount, res, before == after)


results = []
for i in range(400):
    cls = MyRecord if i % 5 == 0 else CircularRecord
    rec = random_record(cls)
    n = len(rec)
    amounts = {0, 1, -1, n, -n, n + 1, -(n + 1), 2 * n, 3 * n + 2, -(2 * n + 3), n - 1, n // 2}
    amounts.update(rng.randint(-4 * n, 4 * n) for _ in range(4))
    for amount in sorted(amounts):
        for op in (">>", "<<"):
            results.append(rotate_case(rec, op, amount))
    # chained rotations come back to the same sequence
    k = rng.randint(1, 3 * n)
    results.append(attempt(lambda: dump_record((rec >> k) << k)))
    results.append(attempt(lambda: dump_record((rec << k) >> (k + n))))

# edge cases: empty sequence, non-integer amounts, SeqRecord input
empty = CircularRecord(Seq(""), id="empty")
for amount in (0, 1, -1):
    results.append(attempt(lambda: dump_record(empty >> amount)))
    results.append(attempt(lambda: dump_record(empty << amount)))
plain = CircularRecord(SeqRecord(Seq("ATGCATGC"), id="plain", features=[SeqFeature(FeatureLocation(6, 8), type="x")]))
for amount in ("a", None, 1.5, 2.0, True):
    results.append(attempt(lambda: dump_record(plain >> amount)))
    results.append(attempt(lambda: dump_record(plain << amount)))

# a feature wrapping the origin, rotated all the way around, several times
wrap = CircularRecord(
    Seq("AAACCCGGGTTT"),
    id="wrap",
    features=[
        SeqFeature(CompoundLocation([FeatureLocation(9, 12, 1), FeatureLocation(0, 3, 1)]), type="CDS"),
        SeqFeature(FeatureLocation(0, 12, 1), type="source"),
        SeqFeature(FeatureLocation(0, 12, -1), type="misc"),
    ],
)
cur = wrap
for step in range(40):
    cur = cur >> (step % 7 + 1)
    results.append(dump_record(cur))
    cur = cur << (step % 3)
    results.append(dump_record(cur))

blob = repr(results).encode("utf-8")
print(len(results), hashlib.sha256(blob).hexdigest())
