# coding: utf-8
"""Differential test: prints a digest that must be identical before/after."""
import sys

sys.path.insert(0, "/tmp/agentsR3/R14")
import tests  # noqa: F401,E402  (splices the kit packages into the moclo namespace)

import hashlib  # noqa: E402
import re  # noqa: E402
import random  # noqa: E402
import warnings  # noqa: E402

warnings.simplefilter("ignore")

from Bio.Seq import Seq  # noqa: E402
from Bio.SeqFeature import (  # noqa: E402
    SeqFeature,
    FeatureLocation,
    CompoundLocation,
    Reference,
)
from Bio.SeqRecord import SeqRecord  # noqa: E402
from Bio.Restriction import BpiI, BsaI, BsmBI, SapI, SacI  # noqa: E402

from moclo import errors  # noqa: E402
from moclo.record import CircularRecord  # noqa: E402
from moclo.regex import DNARegex, SeqMatch  # noqa: E402
from moclo.core import (  # noqa: E402
    AbstractModule,
    AbstractVector,
    AbstractPart,
    Entry,
    EntryVector,
    Product,
    Cassette,
    CassetteVector,
)

RESULTS = []
ADDRESS = re.compile(r" at 0x[0-9a-fA-F]+")


def show_loc(loc):
    if loc is None:
        return None
    return [
        (int(p.start), int(p.end), p.strand, p.ref, p.ref_db, type(p).__name__)
        for p in loc.parts
    ] + [type(loc).__name__, getattr(loc, "operator", None)]


def show_ref(ref):
    if isinstance(ref, Reference):
        return ("Reference", ref.title, ref.authors, ref.journal, show_loc_list(ref.location))
    return repr(ref)


def show_loc_list(locs):
    return [show_loc(l) for l in locs]


def show_ann(ann):
    out = []
    for k, v in ann.items():  # insertion order is part of the behaviour
        if k == "references":
            out.append((k, [show_ref(r) for r in v]))
        else:
            out.append((k, repr(v)))
    return out


def show_feat(f):
    quals = []
    for k, v in f.qualifiers.items():
        if k == "citation":
            quals.append((k, [show_ref(r) for r in v]))
        else:
            quals.append((k, repr(v)))
    return (f.type, f.id, show_loc(f.location), quals)


def show(obj):
    """A stable, deep description of a value."""
    if isinstance(obj, SeqRecord):
        return (
            type(obj).__name__,
            str(obj.seq),
            obj.id,
            obj.name,
            obj.description,
            list(obj.dbxrefs),
            [show_feat(f) for f in obj.features],
            show_ann(obj.annotations),
            sorted((k, repr(v)) for k, v in obj.letter_annotations.items()),
        )
    if isinstance(obj, Seq):
        return ("Seq", str(obj))
    if isinstance(obj, SeqMatch):
        return ("SeqMatch", obj.start(), obj.end(), obj.span(), obj.shift)
    if isinstance(obj, (list, tuple)):
        return [show(o) for o in obj]
    if isinstance(obj, BaseException):
        return ("EXC", type(obj).__name__, ADDRESS.sub(" at 0x?", str(obj)))
    return ADDRESS.sub(" at 0x?", repr(obj))


def attempt(label, func, *args, **kwargs):
    """Run func, record the result or the exception and the warnings."""
    with warnings.catch_warnings(record=True) as caught:
        warnings.simplefilter("always")
        try:
            res = ("OK", show(func(*args, **kwargs)))
        except Exception as exc:  # noqa: B902
            res = (
                "EXC",
                type(exc).__name__,
                ADDRESS.sub(" at 0x?", str(exc)),
                repr(getattr(exc, "details", None)),
            )
    warns = [
        (w.category.__name__, str(w.message))
        for w in caught
        if issubclass(w.category, errors.MocloError)
    ]
    RESULTS.append((label, res, warns))
    return res


def record_value(label, value):
    RESULTS.append((label, show(value)))


def digest():
    blob = repr(RESULTS).encode("utf-8")
    print(len(RESULTS), hashlib.sha256(blob).hexdigest())


def rand_dna(rng, n, alphabet="ACGT"):
    return "".join(rng.choice(alphabet) for _ in range(n))


SITES = ("GAAGAC", "GTCTTC", "GGTCTC", "GAGACC", "CGTCTC", "GAGACG", "GCTCTTC", "GAAGAGC", "GAGCTC")


def clean_dna(rng, n):
    """Random DNA without any of the restriction sites used here."""
    while True:
        s = rand_dna(rng, n)
        if not any(site in s for site in SITES):
            return s


def mixcase(rng, s):
    return "".join(c.lower() if rng.random() < 0.5 else c for c in s)


def rc(s):
    return str(Seq(s).reverse_complement())


def decorate(rng, rec, ncit=2, none_loc=False):
    """Add features (some wrapping the origin), references and citations."""
    n = len(rec)
    refs = []
    for i in range(rng.randint(0, 3)):
        r = Reference()
        r.title = "title {} of {}".format(i, rec.id)
        r.authors = "author {}".format(rng.randint(0, 2))
        r.journal = "journal"
        refs.append(r)
    if refs or rng.random() < 0.3:
        rec.annotations["references"] = refs
    for i in range(rng.randint(0, 4)):
        a, b = sorted((rng.randrange(n), rng.randrange(n)))
        strand = rng.choice([1, -1, None])
        if rng.random() < 0.25 and 0 < a < b:
            loc = CompoundLocation(
                [FeatureLocation(b, n, strand), FeatureLocation(0, a, strand)]
            )
        else:
            loc = FeatureLocation(a, max(b, a + 1), strand)
        quals = {"label": ["feat{}".format(i)]}
        if refs and rng.random() < 0.6:
            quals["citation"] = [
                "[{}]".format(rng.randint(1, len(refs)))
                for _ in range(rng.randint(1, ncit))
            ]
        rec.features.append(SeqFeature(loc, type=rng.choice(["CDS", "misc_feature", "source"]), qualifiers=quals))
    if rng.random() < 0.3:
        rec.features.append(SeqFeature(FeatureLocation(0, n), type="source", qualifiers={"label": ["whole"]}))
    if none_loc and rng.random() < 0.2:
        rec.features.append(SeqFeature(None, type="misc_feature"))
    return rec


def rotate(rng, rec):
    """Rotate by amounts possibly negative or larger than the length."""
    n = len(rec)
    k = rng.choice([0, 1, n - 1, n, n + 3, -2, -n - 5, rng.randrange(n), 3 * n + rng.randrange(n)])
    return rec >> k if rng.random() < 0.5 else rec << k


# --- Golden Gate material for the Type IIS enzymes with a 4 nt 5' overhang ---

ENZ = {
    "BpiI": (BpiI, "GAAGAC", "NN"),
    "BsaI": (BsaI, "GGTCTC", "N"),
    "BsmBI": (BsmBI, "CGTCTC", "N"),
}


def module_seq(rng, enz, oh1, oh2, n=None, illegal=False):
    _, site, pad = ENZ[enz]
    n = rng.randint(1, 30) if n is None else n
    target = clean_dna(rng, n)
    if illegal:
        target = target + site + clean_dna(rng, 3)
    body = (
        site + rand_dna(rng, len(pad)) + oh1 + target + oh2
        + rand_dna(rng, len(pad)) + rc(site)
    )
    return body + clean_dna(rng, rng.randint(0, 25))


def vector_seq(rng, enz, oh_start, oh_end, illegal=False):
    """Vector whose overhang_start() is oh_start and overhang_end() is oh_end."""
    _, site, pad = ENZ[enz]
    placeholder = clean_dna(rng, rng.randint(0, 20))
    backbone = clean_dna(rng, rng.randint(5, 40))
    if illegal:
        backbone = backbone + site + clean_dna(rng, 4)
    return (
        oh_end + rand_dna(rng, len(pad)) + rc(site) + placeholder + site
        + rand_dna(rng, len(pad)) + oh_start + backbone
    )


def overhangs(rng, k):
    """k distinct 4-mers, none the reverse complement of another nor palindromic."""
    out = []
    while len(out) < k:
        o = rand_dna(rng, 4)
        if o in out or rc(o) in out or rc(o) == o:
            continue
        out.append(o)
    return out


class BpiModule(AbstractModule):
    cutter = BpiI


class BpiVector(AbstractVector):
    cutter = BpiI


class BsaEntry(Entry):
    cutter = BsaI


class BsaCassetteVector(CassetteVector):
    cutter = BsaI


class BsmProduct(Product):
    cutter = BsmBI


class BsmEntryVector(EntryVector):
    cutter = BsmBI


class SapModule(AbstractModule):  # 3 nt overhang
    cutter = SapI


class SacModule(AbstractModule):  # not Type IIS, 3' overhang
    cutter = SacI


class SacVector(AbstractVector):
    cutter = SacI


KIT = {
    "BpiI": (BpiModule, BpiVector),
    "BsaI": (BsaEntry, BsaCassetteVector),
    "BsmBI": (BsmProduct, BsmEntryVector),
}


def make_record(rng, seq, id_, circular_cls=True, topology=None):
    if rng.random() < 0.4:
        seq = mixcase(rng, seq)
    if circular_cls:
        rec = CircularRecord(Seq(seq), id=id_, name=id_ + "_name")
    else:
        rec = SeqRecord(Seq(seq), id=id_, name=id_ + "_name")
    if topology is not None:
        rec.annotations["topology"] = topology
    return rec


def assembly_case(rng, enz=None, nmods=None):
    """Return (vector, modules) for a (possibly broken) assembly."""
    enz = enz or rng.choice(sorted(ENZ))
    mcls, vcls = KIT[enz]
    nmods = nmods or rng.randint(1, 4)
    ohs = overhangs(rng, nmods + 1)
    vrec = make_record(rng, vector_seq(rng, enz, ohs[-1], ohs[0], illegal=rng.random() < 0.02), "vec")
    vrec = rotate(rng, decorate(rng, vrec))
    mods = []
    for i in range(nmods):
        mrec = make_record(rng, module_seq(rng, enz, ohs[i], ohs[i + 1], illegal=rng.random() < 0.02), "mod{}".format(i))
        mods.append(rotate(rng, decorate(rng, mrec)))
    return enz, vcls, mcls, vrec, mods, ohs


def entity_probe(label, ent):
    """Everything public an entity can tell about its record."""
    attempt(label + ".is_valid", ent.is_valid)
    attempt(label + ".overhang_start", ent.overhang_start)
    attempt(label + ".overhang_end", ent.overhang_end)
    attempt(label + ".target_sequence", ent.target_sequence)
    if hasattr(ent, "placeholder_sequence"):
        attempt(label + ".placeholder_sequence", ent.placeholder_sequence)
    attempt(label + ".is_valid(again)", ent.is_valid)


def run_assembly_scenarios(rng, count, probe=True):
    for case in range(count):
        enz, vcls, mcls, vrec, mods, ohs = assembly_case(rng)
        kind = rng.choice(
            ["ok", "ok", "ok", "dup", "missing", "unused", "rcdup", "samevec",
             "junk", "badcite", "linear", "same_obj_twice", "lower_dup"]
        )
        if kind == "dup":
            i = rng.randrange(len(mods))
            mods.append(make_record(rng, module_seq(rng, enz, ohs[i], rand_dna(rng, 4)), "dupmod"))
        elif kind == "lower_dup":
            i = rng.randrange(len(mods))
            mods.insert(0, make_record(rng, module_seq(rng, enz, ohs[i], ohs[i + 1]).lower(), "lowdup"))
        elif kind == "missing":
            del mods[rng.randrange(len(mods))]
        elif kind == "unused":
            a, b = overhangs(rng, 2)
            mods.append(decorate(rng, make_record(rng, module_seq(rng, enz, a, b), "extra")))
            if rng.random() < 0.5:
                c, d = overhangs(rng, 2)
                mods.insert(0, make_record(rng, module_seq(rng, enz, c, d), "extra2"))
        elif kind == "rcdup":
            i = rng.randrange(len(mods))
            mods.append(make_record(rng, module_seq(rng, enz, rc(ohs[i]), rand_dna(rng, 4)), "rcmod"))
        elif kind == "samevec":
            vrec = make_record(rng, vector_seq(rng, enz, ohs[0], ohs[0]), "samevec")
        elif kind == "junk":
            mods[rng.randrange(len(mods))] = make_record(rng, clean_dna(rng, 40), "junk")
        elif kind == "badcite":
            victim = rng.choice(mods + [vrec])
            victim.features.append(
                SeqFeature(FeatureLocation(0, 1), type="misc_feature",
                           qualifiers={"citation": [rng.choice(["1", "[x]", "[]", "[99]", "[0]", "[1"])]})
            )
        elif kind == "linear":
            victim = rng.choice(mods + [vrec])
            victim.annotations["topology"] = rng.choice(["linear", "Linear", "CIRCULAR"])
        rng.shuffle(mods)
        vector = vcls(vrec)
        modules = [mcls(m) for m in mods]
        if kind == "same_obj_twice":
            modules.append(modules[0])
        if not modules:
            modules = [mcls(make_record(rng, clean_dna(rng, 30), "lonely"))]
        label = "asm{}:{}".format(case, kind)
        kwargs = rng.choice([{}, {"id": "myid"}, {"name": "myname", "id": "x"}])
        attempt(label, vector.assemble, *modules, **kwargs)
        # the arguments are mutated (citations) : record their state afterwards
        record_value(label + ":vec-after", vector.record)
        for m in modules:
            record_value(label + ":mod-after", m.record)
        if probe:
            entity_probe(label + ":vec", vector)
            for j, m in enumerate(modules):
                entity_probe(label + ":mod{}".format(j), m)
        # a second assembly with the very same (mutated, cached) objects
        if case % 3 == 0:
            attempt(label + ":again", vector.assemble, *modules)


# === R14_3: CircularRecord.__rshift__ split into helpers ====================

from Bio.SeqFeature import BeforePosition, AfterPosition, ExactPosition  # noqa: E402


class MyRecord(CircularRecord):
    """A user-defined subclass: rotation must keep the type."""


def rand_location(rng, n):
    strand = rng.choice([1, -1, 0, None])
    kind = rng.choice(["simple", "simple", "wrap", "multi", "whole", "fuzzy", "ref", "beyond", "point"])
    if kind == "simple":
        a, b = sorted((rng.randrange(n + 1), rng.randrange(n + 1)))
        return FeatureLocation(a, b, strand)
    if kind == "point":
        a = rng.randrange(n + 1)
        return FeatureLocation(a, a, strand)
    if kind == "wrap" and n > 2:
        a = rng.randrange(1, n)
        b = rng.randrange(1, n)
        parts = [FeatureLocation(a, n, strand), FeatureLocation(0, b, strand)]
        if strand == -1:
            parts.reverse()
        return CompoundLocation(parts)
    if kind == "multi":
        parts = []
        for _ in range(rng.randint(2, 4)):
            a, b = sorted((rng.randrange(n + 1), rng.randrange(n + 1)))
            parts.append(FeatureLocation(a, b, strand))
        return CompoundLocation(parts, operator=rng.choice(["join", "order"]))
    if kind == "whole":
        return FeatureLocation(0, n, strand)
    if kind == "fuzzy":
        a, b = sorted((rng.randrange(n + 1), rng.randrange(n + 1)))
        return FeatureLocation(BeforePosition(a), AfterPosition(b), strand)
    if kind == "ref":
        a, b = sorted((rng.randrange(n + 1), rng.randrange(n + 1)))
        return FeatureLocation(a, b, strand, ref="XY0001.1", ref_db=rng.choice([None, "GenBank"]))
    if kind == "beyond":  # a location past the end, as a previous rotation may leave
        a = rng.randrange(n + 1)
        return FeatureLocation(n + a, n + a + rng.randrange(n + 1), strand)
    a, b = sorted((rng.randrange(n + 1), rng.randrange(n + 1)))
    return FeatureLocation(a, b, strand)


def rotation_scenarios(rng, count):
    for case in range(count):
        n = rng.choice([1, 2, 3, 5, 8, 13, 30, 61])
        cls = rng.choice([CircularRecord, CircularRecord, MyRecord])
        seq = rand_dna(rng, n)
        if rng.random() < 0.3:
            seq = mixcase(rng, seq)
        rec = cls(Seq(seq), id="rec{}".format(case), name="name", description="desc", dbxrefs=["db:1"])
        if rng.random() < 0.5:
            rec.annotations["topology"] = rng.choice(["circular", "CIRCULAR"])
        if rng.random() < 0.5:
            rec.annotations["extra"] = ["kept", case]
        if rng.random() < 0.4:
            rec.letter_annotations["phred_quality"] = [rng.randrange(40) for _ in range(n)]
        if rng.random() < 0.2:
            rec.letter_annotations["txt"] = rand_dna(rng, n, "xyz")
        for i in range(rng.randint(0, 5)):
            ftype = rng.choice(["CDS", "misc_feature", "source", "source"])
            loc = rand_location(rng, n) if rng.random() < 0.93 else None
            rec.features.append(
                SeqFeature(loc, type=ftype, id="f{}".format(i), qualifiers={"label": ["l{}".format(i)]})
            )
        amounts = [0, 1, -1, n, -n, n - 1, n + 1, 2 * n, 5 * n + 2, -3 * n - 1,
                   rng.randrange(-200, 200), rng.randrange(10 ** 6), 2.0, "3", None, True]
        for k in amounts:
            for op in (">>", "<<"):
                label = "rot{}:{}{!r}".format(case, op, k)
                func = (lambda r=rec, k=k: r >> k) if op == ">>" else (lambda r=rec, k=k: r << k)
                res = attempt(label, func)
                if res[0] == "OK":
                    out = func()
                    RESULTS.append(
                        (
                            label + ":identity",
                            out is rec,
                            type(out).__name__,
                            [a.qualifiers is b.qualifiers for a, b in zip(out.features, rec.features)],
                            out.annotations is rec.annotations,
                            out.dbxrefs is rec.dbxrefs,
                            [a.location is b.location for a, b in zip(out.features, rec.features)],
                        )
                    )
        # rotations compose; the original is never modified
        k1, k2 = rng.randrange(-2 * n, 2 * n + 1), rng.randrange(-2 * n, 2 * n + 1)
        attempt("rot{}:compose".format(case), lambda: (rec >> k1) >> k2)
        attempt("rot{}:compose-mixed".format(case), lambda: (rec << k1) >> k2)
        attempt("rot{}:sliced".format(case), lambda: (rec << k1)[: max(1, n // 2)])
        attempt("rot{}:revcomp".format(case), lambda: (rec >> k1).reverse_complement(id=True, name=True))
        record_value("rot{}:orig-after".format(case), rec)
    empty = CircularRecord(Seq(""), id="empty")
    attempt("empty>>", lambda: empty >> 1)
    attempt("empty<<", lambda: empty << 0)
    plain = SeqRecord(Seq("ACGT"), id="plain")
    attempt("plain>>", lambda: plain >> 1)


rng = random.Random(14003)
rotation_scenarios(rng, 160)
run_assembly_scenarios(rng, 60)
digest()
