# coding: utf-8
"""Differential test for the C19 pull requests.

Exercises the class families (core + five kits), the structure templates, the
DNA regex / match objects, the assembly manager (successful, failing, warning
assemblies; rotated, mixed-case, linear, plain SeqRecord inputs; citations) and
the embedded registries, and prints a digest of everything observed.

Run as:  cd <worktree> && /venv/bin/python pairs_out/<pair>/equiv.py [dump-file]
"""
from __future__ import print_function

import hashlib
import inspect
import os
import random
import re
import sys
import warnings

ROOT = os.path.abspath(os.path.join(os.path.dirname(os.path.abspath(__file__)), "..", ".."))
sys.path.insert(0, ROOT)
import tests  # noqa: E402,F401  (splices the kits into the moclo namespace)

import Bio.Restriction  # noqa: E402
from Bio.Seq import Seq  # noqa: E402
from Bio.SeqFeature import SeqFeature, FeatureLocation, Reference  # noqa: E402
from Bio.SeqRecord import SeqRecord  # noqa: E402

import moclo.core  # noqa: E402
from moclo import errors  # noqa: E402
from moclo.core import (  # noqa: E402
    AbstractModule,
    AbstractPart,
    AbstractVector,
    Entry,
    EntryVector,
    Product,
    Cassette,
    CassetteVector,
    Device,
    DeviceVector,
)
from moclo.core import modules as core_modules  # noqa: E402
from moclo.core import parts as core_parts  # noqa: E402
from moclo.core import vectors as core_vectors  # noqa: E402
from moclo.core._assembly import AssemblyManager  # noqa: E402
from moclo.kits import cidar, ecoflex, moclo as kmoclo, plant, ytk  # noqa: E402
from moclo.record import CircularRecord  # noqa: E402
from moclo.regex import DNARegex, SeqMatch  # noqa: E402

LINES = []


def out(*fields):
    LINES.append(" | ".join(str(f) for f in fields))


def h(text):
    return hashlib.sha256(str(text).encode("utf-8")).hexdigest()[:16]


# --- generic helpers ----------------------------------------------------------


def rc(s):
    return str(Seq(s).reverse_complement())


def rand_dna(rng, n, alphabet="ACGT"):
    return "".join(rng.choice(alphabet) for _ in range(n))


def tokens(pattern):
    i = 0
    while i < len(pattern):
        if pattern.startswith("N*?", i):
            yield "*"
            i += 3
        elif pattern.startswith("N*", i):
            yield "*"
            i += 2
        else:
            yield pattern[i]
            i += 1


AMBIG = {
    "N": "ACGT", "R": "AG", "Y": "CT", "S": "CG", "W": "AT", "K": "GT",
    "M": "AC", "B": "CGT", "D": "AGT", "H": "ACT", "V": "ACG",
}


def instantiate(rng, pattern, filler, groups=None):
    """Build a concrete sequence matching `pattern` (moclo structure syntax)."""
    groups = groups or {}
    res, gi, cur = [], 0, None
    stack = []
    for tok in tokens(pattern):
        if tok == "(":
            gi += 1
            stack.append((gi, len(res)))
        elif tok == ")":
            idx, pos = stack.pop()
            want = groups.get(idx)
            if want is not None and len(res) - pos == len(want):
                res[pos:] = list(want)
        elif tok == "*":
            res.extend(filler)
        elif tok in AMBIG:
            res.append(rng.choice(AMBIG[tok]))
        else:
            res.append(tok)
    return "".join(res)


def count_sites(seq, cutter):
    s = (seq + seq[: len(cutter.site) - 1]).upper()
    site = cutter.site
    n = 0
    for pat in {site, rc(site)}:
        start = 0
        while True:
            k = s.find(pat, start)
            if k < 0:
                break
            n += 1
            start = k + 1
    return n


def clean_dna(rng, n, cutters):
    for _ in range(200):
        s = rand_dna(rng, n)
        if all(count_sites(s, c) == 0 for c in cutters):
            return s
    return "A" * n


def describe_feature(f):
    quals = []
    for k in sorted(f.qualifiers):
        v = f.qualifiers[k]
        if isinstance(v, list):
            v = [describe_ref(x) for x in v]
        quals.append((k, v))
    return "{}@{}{}".format(f.type, f.location, quals)


def describe_ref(x):
    if isinstance(x, Reference):
        return "Ref<{}>".format(x.title)
    return x


def describe_record(rec):
    if rec is None:
        return "None"
    ann = []
    for k in sorted(rec.annotations):
        v = rec.annotations[k]
        if k == "references":
            v = [describe_ref(x) for x in v]
        ann.append((k, v))
    return "{}:{}:{}:{}:{}:{}:{}".format(
        type(rec).__name__,
        rec.id,
        rec.name,
        len(rec),
        h(str(rec.seq)),
        h(sorted(describe_feature(f) for f in rec.features)),
        h(ann),
    )


def attempt(label, func, *args, **kwargs):
    """Call func, record result / exception / warnings."""
    with warnings.catch_warnings(record=True) as caught:
        warnings.simplefilter("always")
        try:
            res = func(*args, **kwargs)
            status = "ok"
        except BaseException as e:  # noqa
            res = None
            msg = re.sub(r" at 0x[0-9a-f]+", " at 0x?", str(e)).replace("\n", "\\n")
            status = "{}: {}".format(type(e).__name__, h(msg) if len(msg) > 200 else msg)
    warns = [
        "{}: {}".format(type(w.message).__name__, str(w.message))
        for w in caught
        if "moclo" in type(w.message).__module__
    ]
    if isinstance(res, SeqRecord):
        shown = describe_record(res)
    elif isinstance(res, Seq):
        shown = "Seq:" + str(res)
    elif isinstance(res, dict):
        shown = "dict:" + repr(sorted(str(k) for k in res))
    else:
        shown = repr(res) if not hasattr(res, "__dict__") else type(res).__name__
    out(label, status, shown, warns)
    return res


# --- 1. class families --------------------------------------------------------


def all_classes():
    mods = [core_modules, core_vectors, core_parts, cidar, ecoflex, kmoclo, plant, ytk]
    seen = []
    for m in mods:
        for name, obj in sorted(vars(m).items()):
            if inspect.isclass(obj) and issubclass(
                obj, (AbstractModule, AbstractVector, AbstractPart)
            ):
                if obj.__module__ == m.__name__ and obj not in seen:
                    seen.append(obj)
    return seen


PUBLIC = [
    AbstractModule, AbstractVector, AbstractPart, Entry, EntryVector, Product,
    Cassette, CassetteVector, Device, DeviceVector,
]


def section_classes():
    probe = CircularRecord(Seq("ATGC" * 10), id="probe")
    for cls in all_classes():
        tag = "{}.{}".format(cls.__module__, cls.__name__)
        out("class", tag, [b.__name__ for b in cls.__bases__ if b.__module__.startswith("moclo.kits") or b in PUBLIC])
        out("class-pub-mro", tag, [b.__name__ for b in cls.__mro__ if b in PUBLIC or b.__module__.startswith("moclo.kits")])
        out("class-attrs", tag, cls._level if hasattr(cls, "_level") else "-", getattr(cls, "cutter", "-"), getattr(cls, "signature", "-"), inspect.isabstract(cls), bool(cls.__doc__))
        attempt("structure " + tag, cls.structure)
        rx = attempt("regex " + tag, cls._get_regex)
        if rx is not None:
            out("regex-pattern", tag, rx.pattern, rx.regex.pattern, rx.regex.flags)
        ent = attempt("instantiate " + tag, cls, probe)
        if ent is not None:
            attempt("probe-valid " + tag, lambda: ent.is_valid())
            attempt("probe-target " + tag, lambda: ent.target_sequence())
            attempt("probe-ovs " + tag, lambda: ent.overhang_start())
    for name in sorted(moclo.core.__all__):
        out("core-all", name, getattr(moclo.core, name).__module__)
    for modname, names in (
        ("moclo.core.modules", ["cutter_check", "add_as_source", "StructuredRecord", "cached_property", "errors", "Seq"]),
        ("moclo.core.vectors", ["cutter_check", "add_as_source", "StructuredRecord", "AssemblyManager", "cached_property", "errors", "Seq"]),
        ("moclo.core.parts", ["cutter_check", "StructuredRecord", "isabstract", "AbstractModule", "AbstractVector", "Seq"]),
        ("moclo.core._assembly", ["AssemblyManager", "CircularRecord", "catch_warnings", "errors", "SeqRecord", "Seq"]),
        ("moclo.core._structured", ["StructuredRecord", "DNARegex", "errors", "cached_property"]),
        ("moclo.core._utils", ["cutter_check", "add_as_source"]),
        ("moclo.regex", ["DNARegex", "SeqMatch", "CircularRecord"]),
    ):
        m = __import__(modname, fromlist=["x"])
        out("names", modname, [n for n in names if hasattr(m, n)])


# --- 2. user-defined classes on other enzymes ----------------------------------

ENZ5 = ["BsaI", "BsmBI", "BbsI", "BpiI", "SapI", "AarI", "BsmFI", "Esp3I", "BtgZI"]
ENZ3 = ["BseRI", "BtsI", "BsrDI", "MmeI"]
BAD = ["EcoRV", "SmaI"]


def user_classes():
    res = {}
    for name in ENZ5 + ENZ3 + BAD + ["EcoRI"]:
        enz = getattr(Bio.Restriction, name)
        res[name] = (
            type(str("Mod" + name), (AbstractModule,), {"cutter": enz}),
            type(str("Vec" + name), (AbstractVector,), {"cutter": enz}),
        )
    return res


def part_classes(name, up, down):
    enz = getattr(Bio.Restriction, name)
    P = type(str("P" + name), (AbstractPart,), {"cutter": enz})
    PM = type(str("PM" + name), (P, Entry), {"cutter": enz, "signature": (up, down)})
    PV = type(str("PV" + name), (P, CassetteVector), {"cutter": enz, "signature": (down, up)})
    return P, PM, PV


def section_user_classes(rng):
    probe = CircularRecord(Seq("ATGC" * 10), id="probe")
    for name, (M, V) in sorted(user_classes().items()):
        attempt("user-structure-M " + name, M.structure)
        attempt("user-structure-V " + name, V.structure)
        attempt("user-new-M " + name, M, probe)
        attempt("user-new-V " + name, V, probe)
    for name in ENZ5 + ENZ3:
        enz = getattr(Bio.Restriction, name)
        n = len(enz.ovhgseq)
        up, down = rand_dna(rng, n), rand_dna(rng, n)
        P, PM, PV = part_classes(name, up, down)
        attempt("part-structure-P " + name, P.structure)
        attempt("part-structure-PM " + name, PM.structure)
        attempt("part-structure-PV " + name, PV.structure)
        attempt("part-new-P " + name, P, probe)
    nosig = type(str("NoSig"), (AbstractPart, Entry), {"cutter": Bio.Restriction.BsaI})
    attempt("part-nosig", nosig.structure)
    attempt("abstract-module", AbstractModule, probe)
    attempt("abstract-vector", AbstractVector, probe)
    attempt("abstract-part", AbstractPart, probe)
    attempt("entry", Entry, probe)


# --- 3. generated assemblies ------------------------------------------------


def pick_overhangs(rng, n, k, fixed=None):
    """k overhangs of length n: distinct, non palindromic, no reverse-complement pairs."""
    res = list(fixed or [])
    while len(res) < k:
        o = rand_dna(rng, n)
        if o == rc(o) or o in res or rc(o) in res:
            continue
        res.append(o)
    return res


def make_element(rng, cls, groups, filler, backbone, rotation=0, case=None, record_cls=CircularRecord, id_="x", topology="circular", annotate=True):
    for _ in range(50):
        core = instantiate(rng, cls.structure(), filler, groups)
        seq = core + backbone
        if count_sites(seq, cls.cutter) == 2 + count_sites(filler + "NNNNNNNN" + backbone, cls.cutter):
            break
    rotation %= len(seq)
    seq = seq[-rotation:] + seq[:-rotation] if rotation else seq
    if case == "lower":
        seq = seq.lower()
    elif case == "mixed":
        seq = "".join(c.lower() if rng.random() < 0.5 else c for c in seq)
    kwargs = {}
    if annotate:
        kwargs["annotations"] = {"topology": topology, "molecule_type": "DNA"}
    rec = record_cls(Seq(seq), id=id_, name=id_, **kwargs)
    if annotate:
        pos = (rotation + 3) % len(seq)
        end = min(len(seq), pos + 9)
        rec.features.append(SeqFeature(FeatureLocation(pos, end, 1), type="misc_feature", qualifiers={"label": [id_ + "-feat"]}))
    return rec


def add_citation(rec, title, idx="[1]"):
    ref = Reference()
    ref.title = title
    ref.authors = "A. Uthor"
    rec.annotations["references"] = [ref]
    rec.features.append(SeqFeature(FeatureLocation(0, 5, 1), type="misc_feature", qualifiers={"citation": [idx], "label": ["cited"]}))


def input_state(elems):
    return h([describe_record(e.record) for e in elems])


def run_assembly(label, vector, mods, **kw):
    res = attempt(label, vector.assemble, *mods, **kw)
    out(label + " inputs-after", input_state([vector] + list(mods)))
    for i, m in enumerate(mods):
        try:
            out(label + " mod%d" % i, m.overhang_start(), m.overhang_end(), h(str(m.target_sequence().seq)), m.is_valid())
        except Exception as e:  # noqa
            out(label + " mod%d" % i, type(e).__name__, h(str(e)))
    return res


def section_assemblies(rng):
    classes = user_classes()
    kit_sets = [
        ("ytk-entry", ytk.YTKEntry, ytk.YTKCassetteVector),
        ("ytk-cassette", ytk.YTKCassette, ytk.YTKDeviceVector),
        ("cidar-entry", cidar.CIDAREntry, cidar.CIDARCassetteVector),
        ("cidar-cassette", cidar.CIDARCassette, cidar.CIDARDeviceVector),
        ("cidar-product", cidar.CIDARProduct, cidar.CIDAREntryVector),
        ("cidar-device", cidar.CIDARDevice, cidar.CIDARCassetteVector),
        ("moclo-entry", kmoclo.MoCloEntry, kmoclo.MoCloCassetteVector),
        ("moclo-entry-single", kmoclo.MoCloEntry, kmoclo.MoCloSingleCassetteVector),
        ("moclo-cassette", kmoclo.MoCloCassette, kmoclo.MoCloDeviceVector),
        ("moclo-product", kmoclo.MoCloProduct, kmoclo.MoCloEntryVector),
        ("ecoflex-entry", ecoflex.EcoFlexEntry, ecoflex.EcoFlexCassetteVector),
        ("ecoflex-cassette", ecoflex.EcoFlexCassette, ecoflex.EcoFlexDeviceVector),
        ("ecoflex-device", ecoflex.EcoFlexDevice, ecoflex.EcoFlexCassetteVector),
    ]
    for name in ENZ5:
        kit_sets.append(("user-" + name, classes[name][0], classes[name][1]))

    for setname, M, V in kit_sets:
        cutters = {M.cutter, V.cutter, Bio.Restriction.BsaI, Bio.Restriction.BsmBI, Bio.Restriction.BbsI}
        n = len(M.cutter.ovhgseq)
        for trial in range(6):
            k = rng.randint(1, 4)
            ov = pick_overhangs(rng, n, k + 1)
            case = [None, None, "lower", "mixed", None, None][trial]
            vec = V(make_element(
                rng, V, {1: ov[0], 3: ov[k]}, clean_dna(rng, rng.randint(6, 30), cutters),
                clean_dna(rng, rng.randint(20, 60), cutters), rotation=rng.randint(0, 80), id_="vec", case=case if trial == 3 else None))
            mods = []
            for i in range(k):
                mods.append(M(make_element(
                    rng, M, {1: ov[i], 3: ov[i + 1]}, clean_dna(rng, rng.randint(0, 40), cutters),
                    clean_dna(rng, rng.randint(10, 50), cutters), rotation=rng.randint(0, 120), id_="m%d" % i, case=case)))
                mods[-1]._spec = (ov[i], ov[i + 1])
            rng.shuffle(mods)
            label = "asm {} t{}".format(setname, trial)
            prod = run_assembly(label, vec, mods, id="prod", name="prodname")
            out(label + " vec", attempt(label + " vs", vec.overhang_start), attempt(label + " ve", vec.overhang_end))
            attempt(label + " placeholder", vec.placeholder_sequence)
            attempt(label + " vtarget", vec.target_sequence)
            # sibling swaps: every position, fresh targets of other lengths, rotated so that
            # the match wraps the origin at every interesting offset
            for i, m in enumerate(list(mods)):
                if trial > 2:
                    break
                o1, o2 = m._spec
                core_len = len(instantiate(rng, M.structure(), "", {1: o1, 3: o2}))
                for j, rot in enumerate([0, 1, core_len // 2, core_len - n, core_len - n - 1, core_len + 3]):
                    tgt = clean_dna(rng, [0, 1, 7, 33, 2, 64][j], cutters)
                    sib = M(make_element(rng, M, {1: o1, 3: o2}, tgt, clean_dna(rng, 25, cutters), rotation=-rot, id_="sib"))
                    new = mods[:i] + [sib] + mods[i + 1:]
                    run_assembly(label + " swap{}-{}".format(i, j), vec, new)
            if prod is not None and trial == 0:
                # re-run: idempotent
                run_assembly(label + " again", vec, mods)

    # failing / warning assemblies on BsaI user classes and on kit classes
    M, V = classes["BsaI"]
    cutters = {Bio.Restriction.BsaI}
    for trial in range(12):
        ov = pick_overhangs(rng, 4, 5)
        def mk(cls, a, b, id_, **kw):
            return cls(make_element(rng, cls, {1: a, 3: b}, clean_dna(rng, rng.randint(2, 20), cutters), clean_dna(rng, 30, cutters), rotation=rng.randint(0, 70), id_=id_, **kw))
        vec = mk(V, ov[0], ov[3], "vec")
        a, b, c = mk(M, ov[0], ov[1], "a"), mk(M, ov[1], ov[2], "b"), mk(M, ov[2], ov[3], "c")
        label = "fail t%d" % trial
        run_assembly(label + " ok", vec, [c, a, b])
        run_assembly(label + " missing", vec, [a, c])
        run_assembly(label + " missing-first", vec, [b, c])
        run_assembly(label + " dup", vec, [a, b, c, mk(M, ov[1], ov[4], "b2")])
        run_assembly(label + " same-twice", vec, [a, b, c, b])
        run_assembly(label + " unused", vec, [a, b, c, mk(M, ov[4], ov[0], "u")])
        run_assembly(label + " unused2", vec, [a, b, c, mk(M, ov[4], ov[0], "u"), mk(M, ov[3], ov[4], "u2")])
        run_assembly(label + " revcomp", vec, [a, b, c, mk(M, rc(ov[1]), ov[4], "r")])
        run_assembly(label + " palin", vec, [a, b, c, mk(M, "AATT", ov[4], "p")])
        run_assembly(label + " vecsame", mk(V, ov[0], ov[0], "vs"), [a])
        run_assembly(label + " vecsame-case", V(CircularRecord(Seq(str(mk(V, ov[0], ov[0], "vs").record.seq).lower()), id="vsl")), [a])
        run_assembly(label + " lower-b", vec, [a, M(CircularRecord(Seq(str(b.record.seq).lower()), id="bl")), c])
        run_assembly(label + " plain-seqrecord", vec, [a, b, mk(M, ov[2], ov[3], "cs", record_cls=SeqRecord)])
        run_assembly(label + " plain-vector", mk(V, ov[0], ov[3], "vecs", record_cls=SeqRecord), [a, b, c])
        run_assembly(label + " bare", vec, [a, b, mk(M, ov[2], ov[3], "cb", annotate=False)])
        # linear topology (match must not wrap)
        lin = M(make_element(rng, M, {1: ov[2], 3: ov[3]}, "ACGTACGT", clean_dna(rng, 30, cutters), rotation=0, id_="lin", topology="linear", record_cls=SeqRecord))
        run_assembly(label + " linear-ok", vec, [a, b, lin])
        linw = M(make_element(rng, M, {1: ov[2], 3: ov[3]}, "ACGTACGT", clean_dna(rng, 30, cutters), rotation=-5, id_="linw", topology="linear", record_cls=SeqRecord))
        run_assembly(label + " linear-wrap", vec, [a, b, linw])
        # illegal sites
        bad = M(make_element(rng, M, {1: ov[2], 3: ov[3]}, "ACGGTCTCAAAA", clean_dna(rng, 30, cutters), id_="bad"))
        run_assembly(label + " illegal", vec, [a, b, bad])
        extra = M(make_element(rng, M, {1: ov[2], 3: ov[3]}, "ACGTAC", clean_dna(rng, 12, cutters) + "GGTCTC" + clean_dna(rng, 12, cutters), id_="extra"))
        run_assembly(label + " backbone-site", vec, [a, b, extra])
        extra2 = M(make_element(rng, M, {1: ov[2], 3: ov[3]}, "ACGTAC", clean_dna(rng, 12, cutters) + "GAGACC" + clean_dna(rng, 12, cutters), id_="extra2"))
        run_assembly(label + " backbone-site-rev", vec, [a, b, extra2])
        notmod = M(CircularRecord(Seq(clean_dna(rng, 60, cutters)), id="notmod"))
        run_assembly(label + " invalid", vec, [a, b, notmod])
        # citations
        ca = mk(M, ov[0], ov[1], "ca")
        add_citation(ca.record, "paper A")
        cb = mk(M, ov[1], ov[2], "cb")
        add_citation(cb.record, "paper B")
        cv = mk(V, ov[0], ov[3], "cv")
        add_citation(cv.record, "paper A")
        run_assembly(label + " cite", cv, [ca, cb, c])
        run_assembly(label + " cite-missing", cv, [ca, c])
        bad_cite = mk(M, ov[2], ov[3], "bc")
        add_citation(bad_cite.record, "paper C", idx="see 1")
        zero = mk(M, ov[2], ov[3], "bz")
        add_citation(zero.record, "paper Z", idx="[0]")
        run_assembly(label + " cite-zero", cv, [ca, cb, zero])
        oob = mk(M, ov[2], ov[3], "bo")
        add_citation(oob.record, "paper O", idx="[3]")
        run_assembly(label + " cite-oob", cv, [ca, cb, oob])
        empty = mk(M, ov[2], ov[3], "be")
        add_citation(empty.record, "paper E", idx="[]")
        run_assembly(label + " cite-empty", cv, [ca, cb, empty])
        run_assembly(label + " cite-invalid", cv, [ca, cb, bad_cite])
        run_assembly(label + " cite-after-invalid", cv, [ca, cb, c])

    # parts on 3' and 5' enzymes
    for name in ENZ5[:5] + ENZ3:
        enz = getattr(Bio.Restriction, name)
        n = len(enz.ovhgseq)
        for trial in range(3):
            ov = pick_overhangs(rng, n, 3)
            _, PM1, PV = part_classes(name, ov[0], ov[1])
            _, PM2, _ = part_classes(name, ov[1], ov[2])
            PV.signature = (ov[2], ov[0])
            cutters = {enz}
            label = "parts {} t{}".format(name, trial)
            try:
                m1 = PM1(make_element(rng, PM1, {}, clean_dna(rng, rng.randint(0, 20), cutters), clean_dna(rng, 30, cutters), rotation=rng.randint(0, 60), id_="p1"))
                m2 = PM2(make_element(rng, PM2, {}, clean_dna(rng, rng.randint(0, 20), cutters), clean_dna(rng, 30, cutters), rotation=rng.randint(0, 60), id_="p2"))
                v = PV(make_element(rng, PV, {}, clean_dna(rng, 10, cutters), clean_dna(rng, 40, cutters), rotation=rng.randint(0, 60), id_="pv"))
            except Exception as e:  # noqa
                out(label, "setup", type(e).__name__, str(e))
                continue
            run_assembly(label, v, [m2, m1])
            attempt(label + " placeholder", v.placeholder_sequence)
            attempt(label + " characterize", PM1.characterize, m1.record)
            attempt(label + " characterize-wrong", PM1.characterize, m2.record)

    # AssemblyManager used directly
    ov = pick_overhangs(rng, 4, 3)
    cutters = {Bio.Restriction.BsaI}
    vec = V(make_element(rng, V, {1: ov[0], 3: ov[2]}, "ACGT", clean_dna(rng, 30, cutters), id_="vec"))
    a = M(make_element(rng, M, {1: ov[0], 3: ov[1]}, "ACGT", clean_dna(rng, 30, cutters), id_="a"))
    b = M(make_element(rng, M, {1: ov[1], 3: ov[2]}, "ACGT", clean_dna(rng, 30, cutters), id_="b"))
    mlist = [a, b]
    mgr = AssemblyManager(vec, mlist)
    out("mgr attrs", mgr.name, mgr.id, mgr.vector is vec, [m.record.id for m in mgr.modules], [m.record.id for m in mgr.elements], len(mlist))
    mm = attempt("mgr map", mgr._generate_modules_map)
    out("mgr map keys", sorted(str(k) for k in mm), sorted(type(k).__name__ for k in mm))
    attempt("mgr gen", mgr._generate_assembly, mm)
    out("mgr map after", sorted(str(k) for k in mm))
    attempt("mgr assemble", mgr.assemble)
    attempt("mgr assemble again", mgr.assemble)
    out("mgr rx", AssemblyManager._CITATION_RX.pattern)


# --- 4. regex / match objects --------------------------------------------------


def section_regex(rng):
    pats = ["AA(NN)", "GGTCTCN(NNNN)(NN*N)(NNNN)NGAGACC", "(RY)(N*?)(SW)", "A(K*)?(M)", "(B)(D)(H)(V)", "NNNN"]
    for pat in pats:
        attempt("rx new " + pat, DNARegex, pat)
    out("lettermap", sorted(DNARegex._lettermap.items()))
    attempt("transcribe", DNARegex._transcribe, "ACGTNRYKMSWBDHVX(.*)")
    for trial in range(60):
        pat = rng.choice(pats)
        rx = DNARegex(pat)
        s = rand_dna(rng, rng.randint(4, 40), "ACGT" if trial % 3 else "ACGTacgtN")
        kinds = [Seq(s), SeqRecord(Seq(s), id="r"), CircularRecord(Seq(s), id="c")]
        for obj in kinds:
            for linear in (True, False):
                for pos, endpos in ((0, None), (3, None), (0, 5), (2, 2), (50, None)):
                    kw = {"pos": pos, "linear": linear}
                    if endpos is not None:
                        kw["endpos"] = endpos
                    try:
                        m = rx.search(obj, **kw)
                    except Exception as e:  # noqa
                        out("rx search", pat, s, type(obj).__name__, kw, type(e).__name__, str(e))
                        continue
                    if m is None:
                        out("rx search", pat, s, type(obj).__name__, sorted(kw.items()), None)
                        continue
                    groups = []
                    for gi in range(m.match.re.groups + 2):
                        try:
                            g = m.group(gi)
                            groups.append((m.span(gi), str(g.seq if isinstance(g, SeqRecord) else g), type(g).__name__))
                        except Exception as e:  # noqa
                            groups.append((type(e).__name__, str(e)))
                    out("rx search", pat, s, type(obj).__name__, sorted(kw.items()), m.start(), m.end(), m.shift, groups)
    for bad in ("ATGC", None, 12, b"ACGT"):
        attempt("rx bad %r" % (bad,), DNARegex("NN").search, bad)


# --- 5. registries -----------------------------------------------------------


def section_registries(rng):
    from moclo.registry.cidar import CIDARRegistry
    from moclo.registry.ecoflex import EcoFlexRegistry
    from moclo.registry.plant import PlantRegistry
    from moclo.registry.ytk import YTKRegistry, PTKRegistry

    regs = {}
    for name, factory in (("cidar", CIDARRegistry), ("ecoflex", EcoFlexRegistry), ("plant", PlantRegistry), ("ytk", YTKRegistry), ("ptk", PTKRegistry)):
        reg = factory()
        regs[name] = reg
        for key in sorted(reg):
            item = reg[key]
            ent = item.entity
            line = [name, key, type(ent).__name__, item.resistance]
            try:
                line += [ent.is_valid(), str(ent.overhang_start()), str(ent.overhang_end()), h(str(ent.target_sequence().seq)), len(ent.target_sequence().features)]
            except Exception as e:  # noqa
                line += [type(e).__name__, h(str(e))]
            out("reg", *line)

    # canonical CIDAR assemblies and swaps of same-type parts
    reg = regs["cidar"]
    for vec, names in (
        ("DVK_EF", ("J23102_EB", "BCD2_BC", "E1010m_CD", "B0015_DF")),
        ("DVK_AE", ("J23102_AB", "BCD2_BC", "E1010m_CD", "B0015_DE")),
        ("DVA_EF", ("J23102_EB", "BCD2_BC", "E1010m_CD", "B0015_DF")),
        ("DVA_AE", ("J23102_AB", "BCD2_BC", "E1010m_CD", "B0015_DE")),
    ):
        mods = [reg[x].entity for x in names]
        run_assembly("cidar " + vec, reg[vec].entity, mods)
        for i, m in enumerate(mods):
            sig = (str(m.overhang_start()), str(m.overhang_end()))
            sibs = [k for k in sorted(reg) if isinstance(reg[k].entity, AbstractModule) and type(reg[k].entity) is type(m) and k != names[i]]
            n = 0
            for k in sibs:
                e = reg[k].entity
                try:
                    if (str(e.overhang_start()), str(e.overhang_end())) != sig:
                        continue
                except Exception:  # noqa
                    continue
                run_assembly("cidar {} swap {}->{}".format(vec, names[i], k), reg[vec].entity, mods[:i] + [e] + mods[i + 1:])
                n += 1
                if n >= 4:
                    break

    # YTK: cassette from typed parts, every same-type sibling at a few positions
    reg = regs["ytk"]
    by_type = {}
    for key in sorted(reg):
        by_type.setdefault(type(reg[key].entity).__name__, []).append(key)
    out("ytk types", sorted((k, len(v)) for k, v in by_type.items()))
    chain = ["YTKPart1", "YTKPart2", "YTKPart3", "YTKPart4", "YTKPart5", "YTKPart6", "YTKPart7"]
    if all(t in by_type for t in chain) and "YTKPart8" in by_type:
        vec = reg[by_type["YTKPart8"][0]].entity
        base = [reg[by_type[t][0]].entity for t in chain]
        run_assembly("ytk cassette", vec, base)
        for i, t in enumerate(chain):
            for k in by_type[t][1:4]:
                run_assembly("ytk swap {} {}".format(t, k), vec, base[:i] + [reg[k].entity] + base[i + 1:])
    # EcoFlex: promoter / rbs / cds / terminator
    reg = regs["ecoflex"]
    by_type = {}
    for key in sorted(reg):
        by_type.setdefault(type(reg[key].entity).__name__, []).append(key)
    out("ecoflex types", sorted((k, len(v)) for k, v in by_type.items()))
    chain = ["EcoFlexPromoter", "EcoFlexRBS", "EcoFlexCodingSequence", "EcoFlexTerminator"]
    if all(t in by_type for t in chain) and "EcoFlexCassetteVector" in by_type:
        for vk in by_type["EcoFlexCassetteVector"][:2]:
            vec = reg[vk].entity
            base = [reg[by_type[t][0]].entity for t in chain]
            run_assembly("ecoflex " + vk, vec, base)
            for i, t in enumerate(chain):
                for k in by_type[t][1:3]:
                    run_assembly("ecoflex {} swap {} {}".format(vk, t, k), vec, base[:i] + [reg[k].entity] + base[i + 1:])
    # Plant
    reg = regs["plant"]
    by_type = {}
    for key in sorted(reg):
        by_type.setdefault(type(reg[key].entity).__name__, []).append(key)
    out("plant types", sorted((k, len(v)) for k, v in by_type.items()))
    # YTK integration vector from the test data
    try:
        from tests._utils import AssemblyTestCase
        res, vector, mods = AssemblyTestCase("load_data").load_data("ytk_integration_vector")
        typed = {
            "pYTK008.gb": ytk.YTKPart1, "pYTK047.gb": ytk.YTKPart234r, "pYTK073.gb": ytk.YTKPart5,
            "pYTK074.gb": ytk.YTKPart6, "pYTK086.gb": ytk.YTKPart7, "pYTK092.gb": ytk.YTKPart8b,
        }
        ms = [typed[k](mods[k]) for k in sorted(mods)]
        run_assembly("ytk integration", ytk.YTKPart8a(vector), ms)
    except Exception as e:  # noqa
        out("ytk integration", type(e).__name__, str(e))


def main():
    rng = random.Random(19)
    section_classes()
    section_user_classes(rng)
    section_assemblies(rng)
    section_regex(rng)
    section_registries(rng)
    digest = hashlib.sha256("\n".join(LINES).encode("utf-8")).hexdigest()
    if len(sys.argv) > 1:
        with open(sys.argv[1], "w") as f:
            f.write("\n".join(LINES) + "\n")
    print("lines:", len(LINES))
    print("digest:", digest)


if __name__ == "__main__":
    main()
