# coding: utf-8
"""Differential test: prints a digest of everything observable on a few
hundred generated inputs. The digest must be identical on the pristine tree
and with clean.diff applied.
"""
import sys

sys.path.insert(0, "/tmp/agents6/C04")
import tests  # noqa: F401,E402

import copy  # noqa: E402
import hashlib  # noqa: E402
import inspect  # noqa: E402
import random  # noqa: E402
import re  # noqa: E402
import warnings  # noqa: E402

from Bio.Seq import Seq  # noqa: E402
from Bio.SeqFeature import SeqFeature, FeatureLocation  # noqa: E402
from Bio.SeqRecord import SeqRecord  # noqa: E402
from Bio import Restriction  # noqa: E402
from Bio.Restriction import (  # noqa: E402
    BsaI,
    BsmBI,
    BbsI,
    BpiI,
    Esp3I,
    SapI,
    BseRI,
    BtsI,
    BsrDI,
    FokI,
    BtsCI,
    EcoRI,
    KpnI,
    SmaI,
    EcoRV,
)

from moclo import errors  # noqa: E402
from moclo._utils import isabstract  # noqa: E402
from moclo.regex import DNARegex, SeqMatch  # noqa: E402
from moclo.record import CircularRecord  # noqa: E402
from moclo.core import (  # noqa: E402
    AbstractModule,
    AbstractVector,
    AbstractPart,
    Product,
    Entry,
    Cassette,
    Device,
    EntryVector,
    CassetteVector,
    DeviceVector,
)
from moclo.core._structured import StructuredRecord  # noqa: E402
from moclo.kits import ytk, cidar, ecoflex, moclo as mk, plant  # noqa: E402

RNG = random.Random(20260927)
LOG = []


def scrub(text):
    return re.sub(r"0x[0-9a-fA-F]+", "0x", text)


def show(obj):
    if isinstance(obj, SeqRecord):
        return (
            type(obj).__name__,
            str(obj.seq),
            obj.id,
            obj.name,
            obj.description,
            list(obj.dbxrefs),
            sorted((k, scrub(repr(v))) for k, v in obj.annotations.items()),
            [
                (
                    f.type,
                    str(f.location),
                    f.id,
                    sorted((k, scrub(repr(v))) for k, v in f.qualifiers.items()),
                )
                for f in obj.features
            ],
            sorted((k, repr(v)) for k, v in obj.letter_annotations.items()),
        )
    if isinstance(obj, Seq):
        return ("Seq", str(obj))
    if isinstance(obj, SeqMatch):
        return (
            "SeqMatch",
            obj.start(),
            obj.end(),
            [obj.span(i) for i in range(obj.match.re.groups + 1)],
            [show(obj.group(i)) for i in range(obj.match.re.groups + 1)],
        )
    if isinstance(obj, (list, tuple)):
        return [show(x) for x in obj]
    if isinstance(obj, DNARegex):
        return ("DNARegex", obj.pattern, obj.regex.pattern, obj.regex.flags)
    if isinstance(obj, (str, int, bool, type(None))):
        return obj
    return scrub(repr(obj))


def attempt(label, func, *args, **kwargs):
    with warnings.catch_warnings(record=True) as caught:
        warnings.simplefilter("always")
        try:
            out = ("ok", show(func(*args, **kwargs)))
        except Exception as exc:  # noqa
            out = ("raise", type(exc).__name__, scrub(str(exc)))
    warns = [(w.category.__name__, scrub(str(w.message))) for w in caught]
    LOG.append(repr((label, out, warns)))
    return out


def revcomp(s):
    return str(Seq(s).reverse_complement())


def randseq(n, alphabet="ACGT"):
    return "".join(RNG.choice(alphabet) for _ in range(n))


def mixcase(s, p=0.4):
    return "".join(c.lower() if RNG.random() < p else c for c in s)


# --- 1. the DNA regex -------------------------------------------------------


def regex_cases():
    patterns = [
        "AA(NN)",
        "GGTCTCN(NNNN)(NN*N)(NNNN)NGAGACC",
        "(AACG)(NGAGACCN*?GGTCTCN)(GCTG)",
        "N(NNNN)(NGAGACGN*CGTCTCN)(NNNN)N",
        "RY(KM)SW(BD)HV",
        "",
        "(A)(C)?(G)",
    ]
    for pat in patterns:
        attempt(("transcribe", pat), DNARegex._transcribe, pat)
        rx = DNARegex(pat)
        attempt(("regex", pat), lambda: rx)
        for k in range(6):
            body = randseq(RNG.randint(4, 40))
            if k % 2:
                body = "GGTCTCA" + body + "TGAGACC"
            if k % 3 == 0:
                body = mixcase(body)
            rot = RNG.randint(0, len(body))
            body = body[rot:] + body[:rot]
            for make in (
                Seq,
                lambda s: SeqRecord(Seq(s), id="r"),
                lambda s: CircularRecord(Seq(s), id="c"),
            ):
                for linear in (True, False):
                    attempt(
                        ("search", pat, body, linear),
                        rx.search,
                        make(body),
                        linear=linear,
                    )
            attempt(("search-pos", pat, body), rx.search, Seq(body), 2, 9, False)
            attempt(("search-str", pat), rx.search, body)
    attempt(("search-empty",), DNARegex("N").search, Seq(""))
    attempt(("search-empty-circ",), DNARegex("N").search, Seq(""), linear=False)
    rec = SeqRecord(
        Seq("TTGAGACCAAAAGGTCTCATT"),
        id="f",
        features=[SeqFeature(FeatureLocation(1, 5), type="misc", qualifiers={"a": ["b"]})],
    )
    attempt(("search-feat",), DNARegex("GGTCTCN(NN)(NN*)(GAGA)CC").search, rec, linear=False)


# --- 2. structures ----------------------------------------------------------

KIT_CLASSES = []
for _mod in (ytk, cidar, ecoflex, mk, plant):
    for _name, _cls in sorted(vars(_mod).items()):
        if (
            inspect.isclass(_cls)
            and issubclass(_cls, StructuredRecord)
            and _cls.__module__ == _mod.__name__
        ):
            KIT_CLASSES.append(_cls)

ENZYMES = [BsaI, BsmBI, BbsI, BpiI, Esp3I, SapI, BseRI, BtsI, BsrDI, FokI, BtsCI,
           EcoRI, KpnI, SmaI, EcoRV, NotImplemented]
BASES = [Product, Entry, Cassette, Device, EntryVector, CassetteVector, DeviceVector,
         AbstractModule, AbstractVector]


def generic_classes():
    out = []
    for enz in ENZYMES:
        for base in BASES:
            name = "G{}{}".format(base.__name__, getattr(enz, "__name__", "None"))
            out.append(type(str(name), (base,), {"cutter": enz}))
            if enz is not NotImplemented:
                k = len(enz.ovhgseq) or 2
                sig = ("ACGTAC"[:k], "GGCATT"[:k])
                pname = "P" + name
                out.append(
                    type(str(pname), (AbstractPart, base), {"cutter": enz, "signature": sig})
                )
    out.append(type(str("BarePart"), (AbstractPart,), {"cutter": BsaI, "signature": ("AAAA", "CCCC")}))
    out.append(type(str("NoSigPart"), (AbstractPart, Entry), {"cutter": BsaI}))
    out.append(type(str("SubCutter"), (ytk.YTKEntry,), {"cutter": BsmBI}))
    out.append(type(str("PartOverEntry"), (AbstractPart, ytk.YTKEntry), {"signature": ("AAAA", "CCCC")}))
    out.append(type(str("PartOverVector"), (AbstractPart, cidar.CIDAREntryVector), {"signature": ("AAAA", "CCCC")}))
    out.append(type(str("OwnRegex"), (ytk.YTKEntry,), {"_regex": DNARegex("GGTCTCN(ACGT)(NN*N)(NNNN)NGAGACC")}))
    out.append(type(str("OwnRegexChild"), (out[-1],), {}))
    out.append(
        type(
            str("HandWritten3"),
            (Entry,),
            {"cutter": BtsI, "structure": staticmethod(lambda: "GCAGTG(NN)(NN*N)(NN)CACTGC")},
        )
    )
    out.append(
        type(
            str("HandWrittenVector3"),
            (EntryVector,),
            {"cutter": BtsI, "structure": staticmethod(lambda: "N(NN)(CACTGCN*GCAGTG)(NN)N")},
        )
    )
    out.append(
        type(
            str("BareHandWritten"),
            (AbstractPart,),
            {"cutter": BsaI, "signature": ("A", "C"), "structure": staticmethod(lambda: "GGTCTCN(NNNN)(NN*N)(NNNN)NGAGACC")},
        )
    )
    out.append(type(str("SubPart"), (ytk.YTKPart1,), {"signature": ("GGGG", "TTTT")}))
    return out


GENERIC = generic_classes()


def structure_cases():
    for cls in KIT_CLASSES + GENERIC:
        attempt(("structure", cls.__name__), cls.structure)
        attempt(("structure2", cls.__name__), cls.structure)
        attempt(("regex", cls.__name__), cls._get_regex)
        attempt(("new", cls.__name__), lambda c=cls: type(c(SeqRecord(Seq("ACGT"), id="x"))).__name__)
        attempt(("abstract", cls.__name__), lambda c=cls: (isabstract(c), inspect.isabstract(c)))
        attempt(
            ("kinds", cls.__name__),
            lambda c=cls: [issubclass(c, k) for k in (AbstractModule, AbstractVector, AbstractPart, StructuredRecord)],
        )


# --- 3. records -------------------------------------------------------------


def geometry(cutter):
    el = cutter.elucidate()
    return cutter.site, el.replace("_", "").index("^"), el.replace("^", "").index("_")


def concrete(sig, fill):
    return "".join(RNG.choice(fill) if c == "N" else c for c in sig)


def module_plasmid(cls, flavour):
    cutter = cls.cutter
    site, top, bot = geometry(cutter)
    lo, hi = min(top, bot), max(top, bot)
    gap = randseq(lo - len(site), "AT")
    k = hi - lo
    sig = getattr(cls, "signature", None)
    if sig in (None, NotImplemented):
        sig = ("ACGTAC"[:k], "GGCATT"[:k])
    up, down = concrete(sig[0], "AC"), concrete(sig[1], "GT")
    body = randseq(RNG.randint(6, 30), "AT")
    if flavour == "extra":
        body += site + randseq(12, "AT")
    elif flavour == "extra-rc":
        body += randseq(12, "AT") + revcomp(site) + randseq(4, "AT")
    elif flavour == "inner":  # 234r-like: sites inside the target
        body = revcomp(gap) + revcomp(site) + body + site + gap
        return randseq(9, "AT") + up + body + down + randseq(9, "AT")
    tail = randseq(hi - lo and (lo - len(site)), "AT")
    return (
        randseq(RNG.randint(5, 25), "AT")
        + site
        + gap
        + up
        + body
        + down
        + tail
        + revcomp(site)
        + randseq(RNG.randint(5, 25), "AT")
    )


def vector_plasmid(cls, flavour):
    structure = cls.structure()
    # fill the structure literally: N -> random letter, N* -> random stretch
    text = structure.replace("N*?", "<>").replace("N*", "<>")
    text = text.replace("(", "").replace(")", "")
    stretch = randseq(RNG.randint(4, 20), "AT")
    if flavour == "extra":
        stretch += cls.cutter.site + randseq(8, "AT")
    text = text.replace("<>", stretch)
    text = concrete(text, "AT")
    return randseq(RNG.randint(6, 20), "AT") + text + randseq(RNG.randint(6, 20), "AT")


def features_for(n):
    feats = []
    for i in range(RNG.randint(0, 4)):
        a = RNG.randint(0, n - 2)
        b = RNG.randint(a + 1, n)
        quals = {"label": ["f{}".format(i)]}
        if i == 1:
            quals["citation"] = ["[1]"]
        feats.append(
            SeqFeature(FeatureLocation(a, b, strand=RNG.choice([1, -1])), type="misc_feature", qualifiers=quals)
        )
    if RNG.random() < 0.3:
        feats.append(SeqFeature(FeatureLocation(0, n), type="source", qualifiers={"organism": ["x"]}))
    return feats


def make_record(seq, kind, ident):
    feats = features_for(len(seq))
    ann = {"references": ["REF-A", "REF-B"]}
    if kind == "circular":
        return CircularRecord(Seq(seq), id=ident, name=ident, features=feats, annotations=ann)
    if kind == "circular-topo":
        ann["topology"] = "circular"
        return CircularRecord(Seq(seq), id=ident, name=ident, features=feats, annotations=ann)
    if kind == "plain":
        return SeqRecord(Seq(seq), id=ident, name=ident, features=feats, annotations=ann)
    if kind == "plain-linear":
        ann["topology"] = "linear"
        return SeqRecord(Seq(seq), id=ident, name=ident, features=feats, annotations=ann)
    if kind == "plain-circular":
        ann["topology"] = "Circular"
        return SeqRecord(Seq(seq), id=ident, name=ident, features=feats, annotations=ann)
    raise ValueError(kind)


def observe(label, cls, record):
    before = show(record)
    entity_out = attempt(label + ("new",), lambda: cls(record) and None)
    if entity_out[0] != "ok":
        return None
    entity = cls(record)
    attempt(label + ("is_valid",), lambda: entity.is_valid())
    attempt(label + ("overhang_start",), lambda: entity.overhang_start())
    attempt(label + ("overhang_end",), lambda: entity.overhang_end())
    attempt(label + ("target",), lambda: entity.target_sequence())
    attempt(label + ("placeholder",), lambda: entity.placeholder_sequence())
    attempt(label + ("is_valid-again",), lambda: entity.is_valid())
    attempt(label + ("target-again",), lambda: entity.target_sequence())
    attempt(label + ("match",), lambda: entity._match)
    LOG.append(repr((label, "unchanged", before == show(record))))
    return entity


KINDS = ["circular", "circular-topo", "plain", "plain-linear", "plain-circular"]


def record_cases():
    count = 0
    usable = [c for c in KIT_CLASSES + GENERIC if attempt(("probe", c.__name__), c.structure)[0] == "ok"]
    for cls in usable:
        if cls.cutter is NotImplemented or cls.cutter.is_blunt():
            continue
        is_vector = issubclass(cls, AbstractVector)
        flavours = ["plain", "extra"] if is_vector else ["plain", "extra", "extra-rc", "inner"]
        for flavour in flavours:
            try:
                seq = (vector_plasmid if is_vector else module_plasmid)(cls, flavour)
            except Exception as exc:  # noqa
                LOG.append(repr(("build", cls.__name__, flavour, type(exc).__name__)))
                continue
            variants = [seq, mixcase(seq), seq.lower()]
            n = len(seq)
            for v, variant in enumerate(variants):
                for rot in sorted({0, RNG.randint(1, n - 1), RNG.randint(1, n - 1), n // 2, n - 3}):
                    if v and rot not in (0, n // 2):
                        continue
                    rotated = variant[rot:] + variant[:rot]
                    kind = KINDS[count % len(KINDS)] if rot else "circular"
                    ident = "{}-{}-{}-{}".format(cls.__name__, flavour, v, rot)
                    record = make_record(rotated, kind, ident)
                    observe((cls.__name__, flavour, v, rot, kind), cls, record)
                    count += 1
    # neighbouring-kit structures and junk
    for cls in (ytk.YTKPart3, ytk.YTKPart8, cidar.CIDAREntryVector, ecoflex.EcoFlexCassetteVector, mk.MoCloLevelMVector):
        for other in (ytk.YTKEntry, cidar.CIDARCassette, ytk.YTKCassetteVector, mk.MoCloEntryVector):
            maker = vector_plasmid if issubclass(other, AbstractVector) else module_plasmid
            seq = maker(other, "plain")
            observe((cls.__name__, "foreign", other.__name__), cls, make_record(seq, "circular", "foreign"))
        observe((cls.__name__, "junk"), cls, make_record(randseq(60), "circular", "junk"))
        observe((cls.__name__, "tiny"), cls, make_record("ACG", "circular", "tiny"))
    LOG.append(repr(("records", count)))


# --- 4. assemblies ----------------------------------------------------------


def bsai_module(up, down, ident, extra="", kind="circular"):
    seq = randseq(11, "AT") + "GGTCTCA" + up + randseq(RNG.randint(5, 20), "AT") + extra + down + "TGAGACC" + randseq(7, "AT")
    rot = RNG.randint(0, len(seq) - 1)
    return make_record(seq[rot:] + seq[:rot], kind, ident)


def bsai_vector(up, down, ident, kind="circular"):
    # the chain of modules starts with ``up`` and closes with ``down``
    seq = randseq(15, "AT") + "T" + up + "AGAGACC" + randseq(9, "AT") + "GGTCTCA" + down + "A" + randseq(15, "AT")
    rot = RNG.randint(0, len(seq) - 1)
    return make_record(seq[rot:] + seq[:rot], kind, ident)


def assembly_cases():
    def run(label, vec_cls, vec, mods, **kw):
        records = [vec.record] + [m.record for m in mods]
        attempt(label, vec.assemble, *mods, **kw)
        LOG.append(repr((label, "after", [show(r) for r in records])))

    for rnd in range(12):
        v = ytk.YTKCassetteVector(bsai_vector("CCCT", "GCTG", "vec%d" % rnd))
        m1 = ytk.YTKPart1(bsai_module("CCCT", "AACG", "m1-%d" % rnd))
        m2 = ytk.YTKPart234(bsai_module("AACG", "GCTG", "m2-%d" % rnd))
        m2b = ytk.YTKEntry(bsai_module("aacg", "gctg", "m2b-%d" % rnd))
        m3 = ytk.YTKEntry(bsai_module("TTTT", "CACA", "m3-%d" % rnd))
        bad = ytk.YTKEntry(bsai_module("AACG", "GCTG", "bad-%d" % rnd, extra="GGTCTCATTTTT"))
        run(("asm", rnd, "ok"), ytk.YTKCassetteVector, v, [m1, m2], id="A%d" % rnd, name="N%d" % rnd)
        run(("asm", rnd, "order"), ytk.YTKCassetteVector, v, [m2, m1])
        run(("asm", rnd, "dup"), ytk.YTKCassetteVector, v, [m1, m2, m2b])
        run(("asm", rnd, "missing"), ytk.YTKCassetteVector, v, [m1])
        run(("asm", rnd, "unused"), ytk.YTKCassetteVector, v, [m1, m2, m3])
        run(("asm", rnd, "illegal"), ytk.YTKCassetteVector, v, [m1, bad])
        same = ytk.YTKCassetteVector(bsai_vector("CCCT", "CCCT", "same%d" % rnd))
        run(("asm", rnd, "samevec"), ytk.YTKCassetteVector, same, [m1])
        plainv = ytk.YTKCassetteVector(bsai_vector("CCCT", "GCTG", "pv%d" % rnd, kind="plain"))
        run(("asm", rnd, "plainvec"), ytk.YTKCassetteVector, plainv, [m1, m2])
        plainm = ytk.YTKPart1(bsai_module("CCCT", "AACG", "pm-%d" % rnd, kind="plain"))
        run(("asm", rnd, "plainmod"), ytk.YTKCassetteVector, v, [plainm, m2])


# --- 5. characterize --------------------------------------------------------


def characterize_cases():
    for cls in (ytk.YTKPart, cidar.CIDARPart, mk.MoCloPart, ecoflex.EcoFlexPart):
        for sub in cls.__subclasses__()[:6]:
            maker = vector_plasmid if issubclass(sub, AbstractVector) else module_plasmid
            rec = make_record(maker(sub, "plain"), "circular", "chr-" + sub.__name__)
            attempt(("characterize", cls.__name__, sub.__name__), lambda c=cls, r=rec: type(c.characterize(r)).__name__)
        attempt(("characterize-junk", cls.__name__), lambda c=cls: type(c.characterize(make_record(randseq(50), "circular", "j"))).__name__)


def main():
    regex_cases()
    structure_cases()
    record_cases()
    assembly_cases()
    characterize_cases()
    # structures again, after everything was used (caches warm)
    structure_cases()
    digest = hashlib.sha256("\n".join(LOG).encode("utf-8")).hexdigest()
    kinds = {}
    for line in LOG:
        key = "raise" if "('raise'" in line else "ok"
        kinds[key] = kinds.get(key, 0) + 1
    print("observations: {} ({})".format(len(LOG), sorted(kinds.items())))
    print("digest: {}".format(digest))
    if "--dump" in sys.argv:
        with open(sys.argv[sys.argv.index("--dump") + 1], "w") as out:
            out.write("\n".join(LOG))


if __name__ == "__main__":
    main()
