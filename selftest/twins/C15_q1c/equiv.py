# coding: utf-8
"""Differential test for the C15 refactorings (record / regex / assembly).

Exercises ``CircularRecord`` (construction, membership, +, slicing, rotation,
reverse complement), ``DNARegex`` / ``SeqMatch`` and ``AssemblyManager`` on
generated inputs and prints a digest of every result, exception type and
message, warning and of the state of the inputs afterwards.  The digest must
be the same on the pristine tree and with clean.diff applied.

Run as:  cd /tmp/agents6/C15 && /venv/bin/python pairs_out/C15_q1/equiv.py
"""
import copy
import hashlib
import inspect
import pickle
import random
import re
import sys
import warnings

sys.path.insert(0, "/tmp/agents6/C15")
import tests  # noqa: E402,F401

from Bio.Restriction import BpiI, BsaI, BsmBI  # noqa: E402
from Bio.Seq import Seq, MutableSeq  # noqa: E402
from Bio.SeqFeature import (  # noqa: E402
    SeqFeature,
    FeatureLocation,
    CompoundLocation,
    BeforePosition,
    ExactPosition,
)
from Bio.SeqRecord import SeqRecord  # noqa: E402

from moclo import errors  # noqa: E402
from moclo.core.modules import AbstractModule  # noqa: E402
from moclo.core.vectors import AbstractVector  # noqa: E402
from moclo.record import CircularRecord  # noqa: E402
from moclo.regex import DNARegex, SeqMatch  # noqa: E402

RNG = random.Random(15)
ADDRESS = re.compile(r"at 0x[0-9a-fA-F]+")
LINES = []
VERBOSE = "-v" in sys.argv


def log(*parts):
    line = " | ".join(str(p) for p in parts)
    line = ADDRESS.sub("at 0x?", line)  # object addresses differ between runs
    LINES.append(line)
    if VERBOSE:
        print(line)


def dump_feature(f):
    return (
        f.type,
        f.id,
        repr(f.location),
        repr(sorted((k, repr(v)) for k, v in f.qualifiers.items())),
    )


def dump(obj):
    if isinstance(obj, SeqRecord):
        return (
            type(obj).__name__,
            None if obj.seq is None else str(obj.seq),
            obj.id,
            obj.name,
            obj.description,
            repr(obj.dbxrefs),
            repr(sorted((k, repr(v)) for k, v in obj.annotations.items())),
            repr(sorted((k, repr(v)) for k, v in obj.letter_annotations.items())),
            [dump_feature(f) for f in obj.features],
        )
    if isinstance(obj, (Seq, MutableSeq)):
        return (type(obj).__name__, str(obj))
    if isinstance(obj, DNARegex):
        return (type(obj).__name__, obj.pattern, obj.regex.pattern)
    if isinstance(obj, SeqMatch):
        return ("SeqMatch", obj.span(), obj.start(), obj.end(), obj.shift, type(obj.rec).__name__)
    return (type(obj).__name__, repr(obj))


def attempt(label, func, *args, **kwargs):
    """Run func, log result or exception and any warning."""
    with warnings.catch_warnings(record=True) as caught:
        warnings.simplefilter("always")
        try:
            result = func(*args, **kwargs)
        except Exception as err:  # noqa
            log(label, "RAISED", type(err).__name__, str(err))
            result = None
        else:
            log(label, "OK", dump(result))
    for w in caught:
        log(label, "WARNING", w.category.__name__, str(w.message))
    return result


def rand_seq(n, alphabet="ACGTacgtN"):
    return "".join(RNG.choice(alphabet) for _ in range(n))


def rand_location(n):
    kind = RNG.randrange(6)
    strand = RNG.choice([1, -1, None, 0])
    if kind == 0 or n < 3:
        a = RNG.randint(0, n)
        b = RNG.randint(a, n)
        return FeatureLocation(a, b, strand)
    if kind == 1:
        return FeatureLocation(0, n, strand)
    if kind == 2:  # wraps the origin
        a = RNG.randint(1, n - 1)
        b = RNG.randint(1, a)
        return CompoundLocation(
            [FeatureLocation(a, n, strand), FeatureLocation(0, b, strand)]
        )
    if kind == 3:  # beyond the end, as produced by rotations
        a = RNG.randint(0, n - 1)
        b = RNG.randint(a, a + n)
        return FeatureLocation(a, b, strand)
    if kind == 4:
        a = RNG.randint(0, n - 1)
        return FeatureLocation(BeforePosition(a), ExactPosition(RNG.randint(a, n)), strand)
    a = RNG.randint(0, n)
    b = RNG.randint(a, n)
    return FeatureLocation(a, b, strand, ref=RNG.choice([None, "other"]))


def rand_features(n, count, allow_none=True):
    feats = []
    for i in range(count):
        ftype = RNG.choice(["source", "CDS", "misc_feature", "promoter"])
        loc = rand_location(n)
        if ftype == "source" and RNG.random() < 0.5:
            loc = FeatureLocation(0, n, RNG.choice([1, None]))
        quals = {"label": ["f%d" % i]}
        if RNG.random() < 0.3:
            quals["note"] = ["n%d" % i, "m"]
        feats.append(SeqFeature(loc, type=ftype, id="id%d" % i, qualifiers=quals))
    if allow_none and count and RNG.random() < 0.2:
        feats.append(SeqFeature(None, type="misc_feature", id="noloc"))
    return feats


def rand_record(cls, n=None, topology="circular", with_letters=True, allow_none=True):
    n = RNG.randint(1, 24) if n is None else n
    annotations = {"molecule_type": "DNA", "references": ["r1", "r2"]}
    if topology is not None:
        annotations["topology"] = topology
    kwargs = dict(
        id="rec%d" % RNG.randrange(1000),
        name="name",
        description="desc",
        dbxrefs=["db:%d" % RNG.randrange(10)],
        features=rand_features(n, RNG.randint(0, 4), allow_none),
        annotations=annotations,
    )
    if with_letters:
        kwargs["letter_annotations"] = {"q": [RNG.randrange(40) for _ in range(n)]}
    return cls(Seq(rand_seq(n)), **kwargs)


# -----------------------------------------------------------------------------


def section_api():
    log("== api")
    for name in ("__init__", "__add__", "__radd__", "__contains__", "__getitem__",
                 "reverse_complement", "__lshift__", "__rshift__"):
        func = getattr(CircularRecord, name)
        log("api", name, getattr(func, "__name__", None), str(inspect.signature(func)),
            hashlib.md5((func.__doc__ or "").encode()).hexdigest())
    log("api", "bases", [c.__name__ for c in CircularRecord.__mro__ if c.__module__.startswith("Bio") or c is object or c is CircularRecord])
    log("api", "subclass", issubclass(CircularRecord, SeqRecord))
    for name in ("search", "_transcribe", "__init__"):
        log("api", "DNARegex", name, str(inspect.signature(getattr(DNARegex, name))))
    for name in ("group", "span", "start", "end"):
        log("api", "SeqMatch", name, str(inspect.signature(getattr(SeqMatch, name))))


def section_membership():
    log("== membership")
    for _ in range(150):
        n = RNG.randint(0, 14)
        s = rand_seq(n, RNG.choice(["ACGT", "AC", "ACGTacgt", "A"]))
        rec = CircularRecord(Seq(s), id="m")
        queries = ["", s, s + s, s[::-1]]
        for _ in range(12):
            i = RNG.randint(0, max(n, 1))
            k = RNG.randint(0, n + 2)
            queries.append((s * 3)[i : i + k])
            queries.append(rand_seq(RNG.randint(0, 4), "ACGTacgt"))
        if n:
            queries += [s[-1] + s[0], s[1:] + s[:1], s[-1:] + s[:-1], s[-2:] + s[: n - 2]]
        for q in queries:
            attempt("in %r %r" % (q, s), lambda q=q: q in rec)
            attempt("in>> %r %r" % (q, s), lambda q=q: q in (rec >> 1) if n else None)
    rec = CircularRecord(Seq("ATGCATGC"), id="m")
    lin = SeqRecord(Seq("ATGCATGC"), id="m")
    for q in (Seq("GCAT"), Seq("CATGCATGCATG"), MutableSeq("AT"), 3, None, b"AT", ["A"], ("A", "T"),
              rec, lin, 2.5, "ü", "atgc"):
        attempt("in-odd %r" % (q,), lambda q=q: q in rec)
    attempt("in seq=None", lambda: "A" in CircularRecord(None))
    attempt("in undefined", lambda: "A" in CircularRecord(Seq(None, length=4)))
    m = CircularRecord(MutableSeq("ATGC"), id="mut")
    attempt("in mutable 1", lambda: "CA" in m)
    m.seq[0] = "T"
    attempt("in mutable 2", lambda: ("CA" in m, "CT" in m))
    m.seq = Seq("GGGA")
    attempt("in reassigned", lambda: ("AG" in m, "CT" in m))
    # subclass
    class Sub(CircularRecord):
        pass
    attempt("in sub", lambda: ("CA" in Sub(Seq("ATGC")), "CAT" in Sub(SeqRecord(Seq("ATGC")))))


def section_constructor():
    log("== constructor")
    topologies = [None, "circular", "Circular", "CIRCULAR", "linear", "Linear", "LINEAR",
                  "", "circular ", 5, None]
    for topology in topologies:
        for cls in (SeqRecord, CircularRecord):
            try:
                src = rand_record(cls, topology=topology)
            except Exception as err:  # noqa
                log("ctor src", cls.__name__, topology, type(err).__name__, str(err))
                continue
            before = dump(src)
            out = attempt("ctor from %s %r" % (cls.__name__, topology), CircularRecord, src)
            log("ctor src unchanged", dump(src) == before)
            if out is not None:
                log(
                    "ctor sharing",
                    out.seq is src.seq,
                    out.dbxrefs is src.dbxrefs,
                    out.features is src.features,
                    out.annotations is src.annotations,
                    out.annotations["references"] is src.annotations["references"],
                    out.letter_annotations is src.letter_annotations,
                    [a is b for a, b in zip(out.features, src.features)],
                    [a.qualifiers is b.qualifiers for a, b in zip(out.features, src.features)],
                    [a.location is b.location for a, b in zip(out.features, src.features)],
                )
                out.annotations["references"].append("edit")
                out.dbxrefs.append("edit")
                for f in out.features:
                    f.qualifiers.setdefault("label", []).append("edit")
                out.letter_annotations["q"][0] = -1
                log("ctor src unchanged after edit", dump(src) == before)
        for extra in ({}, {"id": "x", "name": "y", "description": "z"}):
            ann = None if topology is None else {"topology": topology}
            feats = rand_features(6, 2)
            dbx = ["a"]
            out = attempt(
                "ctor args %r %r" % (topology, sorted(extra)),
                lambda: CircularRecord(Seq("ATGCAT"), dbxrefs=dbx, features=feats,
                                       annotations=ann, letter_annotations={"q": "abcdef"},
                                       **extra),
            )
            if out is not None:
                log("ctor args sharing", out.dbxrefs is dbx, out.features is feats,
                    out.annotations is ann)
    # other arguments are ignored when a record is given
    src = rand_record(SeqRecord)
    attempt("ctor ignore", lambda: CircularRecord(src, "other", "other", "other", ["x"], [],
                                                  {"topology": "linear"}, {}))
    attempt("ctor ignore2", lambda: CircularRecord(src, annotations={"topology": "linear"}))
    # invalid arguments
    attempt("ctor str", lambda: CircularRecord("ATGC"))
    attempt("ctor none", lambda: CircularRecord(None))
    attempt("ctor none ann", lambda: CircularRecord(None, annotations={"topology": "linear"}))
    attempt("ctor bad id", lambda: CircularRecord(Seq("A"), id=5))
    attempt("ctor bad ann", lambda: CircularRecord(Seq("A"), annotations=[("topology", "linear")]))
    attempt("ctor bad ann2", lambda: CircularRecord(Seq("A"), annotations="topology"))
    attempt("ctor bad feats", lambda: CircularRecord(Seq("A"), features=()))
    attempt("ctor bad letters", lambda: CircularRecord(Seq("AT"), letter_annotations={"q": [1]}))
    attempt("ctor kw", lambda: CircularRecord(seq=Seq("AT"), id="kw"))
    attempt("ctor kw rec", lambda: CircularRecord(seq=SeqRecord(Seq("AT"), id="kwrec")))
    attempt("ctor mutable", lambda: CircularRecord(SeqRecord(MutableSeq("AT"), id="mut")))
    attempt("ctor noseq", lambda: CircularRecord())

    class Sub(CircularRecord):
        pass

    class SubRec(SeqRecord):
        pass

    attempt("ctor sub", lambda: Sub(rand_record(SeqRecord)))
    attempt("ctor sub from circ", lambda: Sub(rand_record(CircularRecord)))
    attempt("ctor from subrec", lambda: CircularRecord(rand_record(SubRec)))
    attempt("ctor from subrec linear", lambda: CircularRecord(rand_record(SubRec, topology="linear")))
    attempt("ctor sub from sub", lambda: Sub(Sub(Seq("ATGC"), id="s")))
    # copy / pickle round trip
    rec = rand_record(CircularRecord)
    attempt("copy", copy.copy, rec)
    attempt("deepcopy", copy.deepcopy, rec)
    attempt("pickle", lambda: pickle.loads(pickle.dumps(rec)))
    log("vars", sorted(vars(rec)))
    log("repr", repr(rec) == repr(copy.deepcopy(rec)))


def section_add():
    log("== add")

    class Sub(CircularRecord):
        pass

    def operands():
        return [
            ("str", "GATC"),
            ("empty", ""),
            ("Seq", Seq("GATC")),
            ("MutableSeq", MutableSeq("GATC")),
            ("SeqRecord", rand_record(SeqRecord, topology=None)),
            ("SeqRecord linear", rand_record(SeqRecord, topology="linear")),
            ("empty SeqRecord", SeqRecord(Seq(""))),
            ("CircularRecord", rand_record(CircularRecord)),
            ("Sub", Sub(Seq("GATC"))),
            ("slice", rand_record(CircularRecord, n=8, allow_none=False)[2:6]),
            ("int", 3),
            ("None", None),
            ("list", ["A"]),
        ]

    for cls in (CircularRecord, Sub):
        for i in range(len(operands())):
            rec = rand_record(cls)
            label, x = operands()[i]
            before = dump(rec)
            attempt("%s + %s" % (cls.__name__, label), lambda: rec + x)
            attempt("%s + %s" % (label, cls.__name__), lambda: x + rec)

            def iadd():
                r = rec
                r += x
                return r

            def riadd():
                y = x
                y += rec
                return y

            attempt("%s += %s" % (cls.__name__, label), iadd)
            attempt("%s += %s" % (label, cls.__name__), riadd)
            attempt("%s.__add__(%s)" % (cls.__name__, label), lambda: rec.__add__(x))
            attempt("%s.__radd__(%s)" % (cls.__name__, label), lambda: rec.__radd__(x))
            log("add input unchanged", dump(rec) == before)
        rec = rand_record(cls)
        attempt("self + self", lambda: rec + rec)
        attempt("sum", lambda: sum([rec, rec], SeqRecord(Seq(""))))
        attempt("unbound add", lambda: CircularRecord.__add__(rec, "A"))
        attempt("unbound radd", lambda: CircularRecord.__radd__(rec, "A"))
    # slices are linear: they can be added
    rec = rand_record(CircularRecord, n=10, allow_none=False)
    attempt("slice + slice", lambda: rec[:4] + rec[4:])
    attempt("slice + str", lambda: rec[:4] + "AC")
    attempt("str + slice", lambda: "AC" + rec[:4])
    attempt("Seq + slice", lambda: Seq("AC") + rec[2:4])


def section_getitem():
    log("== getitem")
    for _ in range(40):
        rec = rand_record(CircularRecord, topology=RNG.choice(["circular", None, "Circular"]))
        n = len(rec)
        before = dump(rec)
        indices = [0, -1, n - 1, n, -n - 1, RNG.randrange(n)]
        for _ in range(10):
            a = RNG.choice([None] + list(range(-n - 2, n + 3)))
            b = RNG.choice([None] + list(range(-n - 2, n + 3)))
            step = RNG.choice([None, None, None, 1, 2, -1, 0])
            indices.append(slice(a, b, step))
        indices += ["a", 1.5, None, (1, 2)]
        for index in indices:
            out = attempt("getitem %r of %d" % (index, n), lambda: rec[index])
            if isinstance(out, SeqRecord):
                log(
                    "getitem sharing",
                    type(out) is SeqRecord,
                    [any(f is g for g in rec.features) for f in out.features],
                    [any(f.qualifiers is g.qualifiers for g in rec.features) for f in out.features],
                )
                for f in out.features:
                    f.qualifiers["label"].append("edited")
                out.annotations["new"] = 1
                if out.letter_annotations.get("q"):
                    out.letter_annotations["q"][0] = -5
        log("getitem input unchanged", dump(rec) == before)
    attempt("getitem seq none", lambda: CircularRecord(None)[0:1])
    attempt("iter", lambda: list(CircularRecord(Seq("ATGC"))))
    attempt("len", lambda: len(CircularRecord(Seq("ATGC"))))
    attempt("bool", lambda: bool(CircularRecord(Seq(""))))


def section_rotation():
    log("== rotation")
    for _ in range(60):
        rec = rand_record(CircularRecord, topology=RNG.choice(["circular", None]))
        n = len(rec)
        before = dump(rec)
        for k in [0, 1, -1, n, n - 1, -n, n + 3, 2 * n + 1, RNG.randint(-40, 40)]:
            out = attempt("rshift %d of %d" % (k, n), lambda: rec >> k)
            if out is not None:
                log("rshift sharing", out is rec, out.annotations is rec.annotations,
                    out.dbxrefs is rec.dbxrefs,
                    [a.qualifiers is b.qualifiers for a, b in zip(out.features, rec.features)],
                    [a.location is b.location for a, b in zip(out.features, rec.features)])
            attempt("lshift %d of %d" % (k, n), lambda: rec << k)
            attempt("double %d of %d" % (k, n), lambda: (rec >> k) >> k)
            attempt("there and back %d of %d" % (k, n), lambda: (rec >> k) << k)
        log("rotation input unchanged", dump(rec) == before)
    attempt("rshift empty", lambda: CircularRecord(Seq("")) >> 1)
    attempt("lshift empty", lambda: CircularRecord(Seq("")) << 1)
    attempt("rshift str", lambda: CircularRecord(Seq("AT")) >> "1")
    attempt("rshift float", lambda: CircularRecord(Seq("ATG")) >> 1.0)
    lin = rand_record(CircularRecord, n=6)
    lin.annotations["topology"] = "linear"
    attempt("rshift now-linear", lambda: lin >> 2)
    attempt("rshift now-linear 0", lambda: lin >> 0)

    class Sub(CircularRecord):
        pass

    attempt("rshift sub", lambda: Sub(Seq("ATGC"), id="s") >> 1)
    for _ in range(15):
        rec = rand_record(CircularRecord)
        for kwargs in ({}, {"id": True, "name": True, "description": True, "annotations": True,
                            "dbxrefs": True}, {"features": False, "letter_annotations": False},
                       {"id": "new"}):
            attempt("revcomp %r" % sorted(kwargs), lambda: rec.reverse_complement(**kwargs))
    attempt("revcomp linear", lambda: lin.reverse_complement(annotations=True))


class BpiVector(AbstractVector):
    cutter = BpiI


class BpiModule(AbstractModule):
    cutter = BpiI


class BsaVector(AbstractVector):
    cutter = BsaI


class BsaModule(AbstractModule):
    cutter = BsaI


class BsmVector(AbstractVector):
    cutter = BsmBI


class BsmModule(AbstractModule):
    cutter = BsmBI


def section_regex():
    log("== regex")
    patterns = ["ATG", "GGTCTCN(NNNN)", "(NN)N*(GC)", "A(N*)T", "GAAGAC(NN)(NNNN)(NN*N)(NNNN)(NN)GTCTTC",
                "RYK", "N", "(A)(T)?G", "CATG", "", "GCAT", BsaModule.structure(), BpiVector.structure()]
    for pattern in patterns:
        attempt("transcribe %s" % pattern, DNARegex._transcribe, pattern)
        rx = attempt("compile %s" % pattern, DNARegex, pattern)
        if rx is None:
            continue
        log("regex attrs", rx.pattern, rx.regex.pattern, rx.regex.flags)
        for _ in range(10):
            n = RNG.randint(0, 40)
            s = rand_seq(n, RNG.choice(["ACGT", "ACGTacgt", "ATGC" * 3 + "N"]))
            if RNG.random() < 0.4 and n > 12:
                site = RNG.choice(["GGTCTCAATGC", "gaagacttATGCcacaCGTAttgtcttc", "GAGACC", "atg"])
                i = RNG.randrange(n)
                s = (s[:i] + site + s[i:])
                k = RNG.randrange(len(s))
                s = s[k:] + s[:k]
            targets = [
                ("Seq", Seq(s)),
                ("SeqRecord", SeqRecord(Seq(s), id="lin", features=rand_features(len(s), 2) if s else [])),
                ("Circular", CircularRecord(Seq(s), id="circ", features=rand_features(len(s), 2) if s else [])),
            ]
            for label, target in targets:
                for kwargs in ({}, {"linear": False}, {"pos": 2}, {"endpos": max(len(s) - 3, 0)},
                               {"pos": 1, "endpos": 5, "linear": False}, {"pos": -2}, {"pos": len(s) + 2}):
                    before = dump(target)
                    m = attempt("search %s %s %r %r" % (pattern, label, s, sorted(kwargs.items())),
                                lambda: rx.search(target, **kwargs))
                    if m is not None:
                        log("match rec identity", m.rec is target, m.match.re is rx.regex)
                        for g in range(0, m.match.re.groups + 2):
                            attempt("group %d" % g, m.group, g)
                            attempt("span %d" % g, m.span, g)
                    log("search input unchanged", dump(target) == before)
    rx = DNARegex("ATG")
    for bad in ("ATG", b"ATG", None, 3, MutableSeq("ATG"), ["A"]):
        attempt("search bad %r" % (bad,), rx.search, bad)
    attempt("search seq none", rx.search, SeqRecord(None))
    attempt("transcribe none", DNARegex._transcribe, None)
    attempt("transcribe list", DNARegex._transcribe, ["A", "N", "x"])

    class MyRegex(DNARegex):
        _lettermap = {"X": "[AT]"}

    attempt("transcribe sub", MyRegex._transcribe, "XNA")
    # hand-made matches, incl. spans beyond the record
    for s, span_pattern, start in [("ATGCAT", "TGCATA", 1), ("ATGC", "ATGC", 4), ("ATGC", "GCAT", 2),
                                   ("ATGC", "(C)(A)?(T)", 3), ("ATGCATGC", "(GC)(AT)", 6)]:
        for cls in (SeqRecord, CircularRecord):
            rec = cls(Seq(s), id="hm")
            match = re.compile(span_pattern).match(s * 2, start)
            if match is None:
                log("handmade none", s, span_pattern)
                continue
            m = SeqMatch(match, rec, shift=3)
            for g in range(match.re.groups + 2):
                attempt("handmade %s %s %s group %d" % (cls.__name__, s, span_pattern, g), m.group, g)
    m = SeqMatch(re.compile("A").match("A"), SeqRecord(Seq("")))
    attempt("handmade empty", m.group)
    m = SeqMatch(re.compile("A").match("A"), None)
    attempt("handmade none rec", m.group)
    attempt("handmade none rec bad group", m.group, 7)


def cite(record, references, citations):
    record.annotations["references"] = list(references)
    n = len(record)
    for i, c in enumerate(citations):
        record.features.append(
            SeqFeature(FeatureLocation(0, min(3, n)), type="misc_feature",
                       qualifiers={"citation": list(c), "label": ["c%d" % i]})
        )
    return record


def build_parts(kind, overhangs, wrap=True, case=False, features=True):
    """Build a vector and a chain of modules over the given overhangs."""
    if kind == "bpi":
        vcls, mcls = BpiVector, BpiModule
        site, rsite, pad = "GAAGAC", "GTCTTC", "TT"
    elif kind == "bsa":
        vcls, mcls = BsaVector, BsaModule
        site, rsite, pad = "GGTCTC", "GAGACC", "A"
    else:
        vcls, mcls = BsmVector, BsmModule
        site, rsite, pad = "CGTCTC", "GAGACG", "A"

    def body(n):
        # no restriction site by construction: only A / C / T runs
        return "".join(RNG.choice(["ACTA", "TTCA", "CCAT", "TACT"]) for _ in range(n))

    def finish(s, name, cls):
        if case:
            s = "".join(c.lower() if RNG.random() < 0.5 else c for c in s)
        if wrap:
            k = RNG.randrange(len(s))
            s = s[k:] + s[:k]
        feats = rand_features(len(s), RNG.randint(0, 3)) if features else []
        feats = [f for f in feats if f.location is not None and not f.location.ref]
        rec = CircularRecord(Seq(s), id=name, name=name, features=feats,
                             annotations={"topology": "circular", "molecule_type": "DNA"})
        return cls(rec)

    first, last = overhangs[0], overhangs[-1]
    # vector: backbone, <first> pad rsite ... dropout ... site pad <last>, backbone
    vseq = body(3) + first + pad + rsite + body(2) + site + pad + last + body(3)
    vector = finish(vseq, "vector", vcls)
    modules = []
    for i, (up, down) in enumerate(zip(overhangs, overhangs[1:])):
        mseq = body(1) + site + pad + up + body(RNG.randint(1, 3)) + down + pad + rsite + body(2)
        modules.append(finish(mseq, "mod%d" % i, mcls))
    return vector, modules


def section_assembly():
    log("== assembly")
    pool = ["ATGC", "CGTA", "GGAA", "TTAC", "AGGT", "CATT", "TCCA"]
    for round_ in range(36):
        kind = RNG.choice(["bpi", "bsa", "bsm"])
        count = RNG.randint(1, 4)
        overhangs = RNG.sample(pool, count + 1)
        scenario = RNG.choice(["ok", "ok", "ok", "missing", "duplicate", "unused", "samevector",
                               "revcomp", "citations", "badcitation"])
        try:
            vector, modules = build_parts(kind, overhangs, wrap=RNG.random() < 0.7,
                                          case=RNG.random() < 0.4)
            if scenario == "missing" and modules:
                modules.pop(RNG.randrange(len(modules)))
                if not modules:
                    _, extra = build_parts(kind, ["AAAA", "CCCC"])
                    modules = extra
            elif scenario == "duplicate":
                _, extra = build_parts(kind, [overhangs[0], "ACAC"])
                modules += extra
            elif scenario == "unused":
                _, extra = build_parts(kind, ["AAAA", "CCCC"])
                modules += extra
            elif scenario == "samevector":
                vector, _ = build_parts(kind, [overhangs[0], overhangs[0]])
            elif scenario == "revcomp":
                _, extra = build_parts(kind, [str(Seq(overhangs[0]).reverse_complement()), "ACAC"])
                modules += extra
            elif scenario in ("citations", "badcitation"):
                cite(vector.record, ["refA", "refB"], [["[1]"], ["[2]", "[1]"]])
                for mod in modules:
                    cite(mod.record, ["refB", "refC"], [["[2]"], ["[1]"]])
                if scenario == "badcitation":
                    cite(modules[-1].record, ["refB"], [["oops"]])
        except Exception as err:  # noqa
            log("assembly build", round_, scenario, type(err).__name__, str(err))
            continue
        RNG.shuffle(modules)
        elements = [vector] + modules
        before = [dump(e.record) for e in elements]
        for e in elements:
            attempt("valid %s" % e.record.id, e.is_valid)
            attempt("ovh start %s" % e.record.id, e.overhang_start)
            attempt("ovh end %s" % e.record.id, e.overhang_end)
            attempt("target %s" % e.record.id, e.target_sequence)
        attempt("placeholder", vector.placeholder_sequence)
        out = attempt("assemble %d %s %s" % (round_, kind, scenario),
                      lambda: vector.assemble(*modules, id="asm%d" % round_, name="asm"))
        if out is not None:
            log("assembly type", type(out).__name__, "GAAGAC" in out, overhangs[0] in out,
                [o in out for o in overhangs])
            attempt("assembly rotate", lambda: out >> 5)
            attempt("assembly slice", lambda: out[3:9])
        after = [dump(e.record) for e in elements]
        log("assembly inputs unchanged", [a == b for a, b in zip(before, after)])
        log("assembly inputs after", after)
    # structure errors
    attempt("invalid module", BsaModule(CircularRecord(Seq("ATGCATGC"), id="bad")).target_sequence)
    attempt("invalid is_valid", BsaModule(CircularRecord(Seq("ATGCATGC"), id="bad")).is_valid)
    attempt("linear module", BsaModule(SeqRecord(Seq("AATGCTTTGAGACCAAAAGGTCTCAATGC"), id="lin",
                                                 annotations={"topology": "linear"})).is_valid)
    attempt("circular plain module", BsaModule(SeqRecord(Seq("AATGCTTTGAGACCAAAAGGTCTCAATGC"),
                                                         id="circ")).target_sequence)
    attempt("illegal site", BsaModule(CircularRecord(
        Seq("GGTCTCAATGCTTGGTCTCATTCGATTGAGACCAA"), id="ill")).target_sequence)


def main():
    section_api()
    section_membership()
    section_constructor()
    section_add()
    section_getitem()
    section_rotation()
    section_regex()
    section_assembly()
    digest = hashlib.sha256("\n".join(LINES).encode("utf-8")).hexdigest()
    raised = sum(1 for line in LINES if " | RAISED | " in line)
    warned = sum(1 for line in LINES if " | WARNING | " in line)
    print("%d observations (%d exceptions, %d warnings)" % (len(LINES), raised, warned))
    print("digest", digest)


if __name__ == "__main__":
    main()
