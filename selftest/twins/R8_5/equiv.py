# Differential test for R8_5: CIDARRegistry._load_entity and EcoFlexRegistry._load_entity
import sys
sys.path.insert(0, "/tmp/agentsR/R8")
import tests  # noqa: F401  (splices the kit packages into the moclo namespace)

import copy
import hashlib
import os
import random
import warnings

warnings.simplefilter("ignore")

from Bio.Seq import Seq
from Bio.SeqRecord import SeqRecord

from moclo.record import CircularRecord
from moclo.registry.cidar import CIDARRegistry
from moclo.registry.ecoflex import EcoFlexRegistry


def ensure(kit, *archives):
    from tests._utils import build_registries
    root = "/tmp/agentsR/R8/moclo-{0}/moclo/registry".format(kit)
    if not all(os.path.exists(os.path.join(root, a)) for a in archives):
        build_registries(kit)


def outcome(func, *args):
    try:
        return ("ok", func(*args))
    except BaseException as err:  # noqa
        return (
            "err",
            type(err).__name__,
            str(err),
            type(err.__cause__).__name__,
            type(err.__context__).__name__,
            err.__suppress_context__,
        )


def load(registry, record):
    result = outcome(registry._load_entity, record)
    if result[0] == "ok":
        entity = result[1]
        result = ("ok", type(entity).__name__, entity.record is record)
    return (getattr(record, "id", None), getattr(record, "description", None), result)


CLASSES = list(CIDARRegistry._CLASSES) + ["Destination Vector", "destination vector", "Basic part", "BASIC PART",
                                          "Composite Part", "", "Basic Part ", " Basic Part", "Device: Basic Part"]
TYPES = list(CIDARRegistry._TYPES) + ["Promoter", "rbs", "cds", "Double Terminator", "", "CDS ", " RBS",
                                      "Constitutive promoter  ", "Terminator", "CDS2"]
TAILS = ["", " - J23100", "- strong", "-", " [AddGene]", "[x]", " (CIDAR)", "(", " -[(", "\t", "  ", ": more", ", etc"]
PREFIXES = ["MoClo ", "MoClo ", "MoClo ", "MoClo", "moclo ", " MoClo ", "CIDAR MoClo ", "MoClo  ", "MoClo\t", ""]
IDS = ["DVA_AE", "DVA_GB", "DVK_EF", "DVK_AF", "DVL_AB", "dva_ae", "DV", "", "C0062_CD", "B0015_DE", "XDVA_AE",
       "DVADVK", "pTU1-A-RFP", "pTU2-a", "pTU3-B", "ptu1-x", "pTU", "pTU10", "pTU21", "xpTU1", "pBP-T7", "pTU1"]


def make_record(rng, index):
    roll = rng.random()
    if roll < 0.8:
        description = "{}{}:{}{}{}".format(
            rng.choice(PREFIXES), rng.choice(CLASSES), rng.choice(["", " ", " ", " ", "  "]), rng.choice(TYPES),
            rng.choice(TAILS))
    elif roll < 0.9:
        description = rng.choice(["<unknown description>", "", "MoClo", "MoClo :", "MoClo ::", "MoClo a:b:c: d",
                                  "MoClo Basic Part CDS", "MoClo Device", "MoClo Device:", "MoClo Device:-",
                                  "MoClo Basic Part:\nCDS", "MoClo Basic\nPart: CDS"])
    else:
        description = "MoClo {}: {}".format(rng.choice(list(CIDARRegistry._CLASSES) + ["Destination Vector"]),
                                            rng.choice(list(CIDARRegistry._TYPES)))
    length = rng.randint(10, 60)
    rec = SeqRecord(Seq("".join(rng.choice("ATGC") for _ in range(length))), id=rng.choice(IDS),
                    name="n{}".format(index), description=description)
    rec.annotations["molecule_type"] = "DNA"
    if rng.random() < 0.5:
        rec = CircularRecord(rec)
    return rec


class NoDescription(object):
    id = "DVA_AE"


class NoId(object):
    description = "MoClo Destination Vector: x"


class NoIdBasic(object):
    description = "nothing to see"


def main():
    ensure("cidar", "cidar.tar.gz")
    ensure("ecoflex", "ecoflex.tar.gz")
    rng = random.Random(8005)
    results = []
    cidar_reg, eco_reg = CIDARRegistry(), EcoFlexRegistry()

    # --- CIDAR: synthetic descriptions ---------------------------------------
    for index in range(2500):
        results.append(load(cidar_reg, make_record(rng, index)))
    for bad in (NoDescription(), NoId(), NoIdBasic(), None, 7):
        results.append(load(cidar_reg, bad))
    rec = make_record(rng, 0)
    for description in (None, 12, b"MoClo Device: x", ["MoClo Device: x"]):
        rec.description = description
        results.append(load(cidar_reg, rec))

    # --- CIDAR: the real records, with permuted identifiers/descriptions -------
    items = [cidar_reg[k] for k in sorted(cidar_reg)]
    for item in items:
        results.append((item.id, item.name, item.resistance, type(item.entity).__name__))
        results.append(load(cidar_reg, item.record))
    for _ in range(300):
        a, b = rng.choice(items), rng.choice(items)
        rec = copy.copy(a.record)
        rec.description = b.record.description
        if rng.random() < 0.3:
            rec.id = rng.choice(IDS)
        results.append(load(cidar_reg, rec))

    # --- EcoFlex: real records under all sorts of identifiers ---------------------
    eco_items = [eco_reg[k] for k in sorted(eco_reg)]
    for item in eco_items:
        results.append((item.id, item.name, item.resistance, type(item.entity).__name__))
        results.append(load(eco_reg, item.record))
    for _ in range(500):
        rec = copy.copy(rng.choice(eco_items).record)
        rec.id = rng.choice(IDS + [i.id for i in eco_items])
        results.append(load(eco_reg, rec))
    for index in range(400):  # synthetic sequences: characterize() fails unless the id names a vector
        results.append(load(eco_reg, make_record(rng, index)))
    for bad in (NoDescription(), NoId(), None, 7):
        results.append(load(eco_reg, bad))
    rec = make_record(rng, 1)
    for ident in (None, 5, b"pTU1", ("pTU1",)):
        rec.id = ident
        results.append(load(eco_reg, rec))

    # subclasses with other tables
    class EmptyEco(EcoFlexRegistry):
        _VECTORS = {}

    class OrderedEco(EcoFlexRegistry):
        _VECTORS = {"p": lambda r: ("p", r.id), "pT": lambda r: ("pT", r.id), "": lambda r: ("any", r.id)}

    for reg in (EmptyEco(), OrderedEco()):
        for _ in range(150):
            rec = copy.copy(rng.choice(eco_items).record)
            rec.id = rng.choice(IDS)
            out = outcome(reg._load_entity, rec)
            results.append((rec.id, out if out[0] == "err" or isinstance(out[1], tuple) else type(out[1]).__name__))

    print(len(results), hashlib.sha256(repr(results).encode("utf-8")).hexdigest())


main()
