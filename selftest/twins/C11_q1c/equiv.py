"""C11 differential test: digest of structures, searches, matches, assemblies (results, errors, warnings, input state)."""
import sys

sys.path.insert(0, "/tmp/agents6/C11")
import tests  # noqa: F401,E402  (splices the kit packages into the moclo namespace)

# Shared construction kit (copied verbatim into demo.py / equiv.py of both pairs).
import random
import warnings

from Bio.Seq import Seq
from Bio.SeqRecord import SeqRecord
from Bio.SeqFeature import SeqFeature, FeatureLocation, Reference

from moclo.record import CircularRecord
from moclo.kits import cidar, ecoflex, ytk
from moclo.kits import moclo as mkit

SITES = {"BsaI": ("GGTCTC", 1), "BbsI": ("GAAGAC", 2), "BpiI": ("GAAGAC", 2), "BsmBI": ("CGTCTC", 1)}
ALL_SITES = ["GGTCTC", "GAGACC", "GAAGAC", "GTCTTC", "CGTCTC", "GAGACG"]
OVERHANGS = ["GGAG", "TACT", "AATG", "AGGT", "GCTT", "CGCT", "TGCC", "ACTA"]


class OutOfDomain(Exception):
    pass


def rc(text):
    return str(Seq(text).reverse_complement())


def clean_dna(rng, length):
    """Random DNA without any Type IIS site of the kits (either strand)."""
    while True:
        text = "".join(rng.choice("ACGT") for _ in range(length))
        if not any(site in text for site in ALL_SITES):
            return text


def count_sites(text, enzyme):
    return census(text)[SITES[enzyme][0]]


def pad(rng, count):
    return "".join(rng.choice("ACGT") for _ in range(count))


def census(text):
    """Number of sites (both strands, circular) per recognition sequence."""
    doubled = (text + text[:5]).upper()
    return {site: doubled.count(site) + doubled.count(rc(site)) for site in ("GGTCTC", "GAAGAC", "CGTCTC")}


def designed(make, **expected):
    """Call make() until the text has exactly the designed sites (random spacers can create one by accident)."""
    want = {"GGTCTC": 0, "GAAGAC": 0, "CGTCTC": 0}
    for enzyme, count in expected.items():
        want[SITES[enzyme][0]] += count
    for _ in range(40):
        text = make()
        if census(text) == want:
            return text
    raise OutOfDomain()  # the fixed pieces themselves make up a site: the caller draws other inserts


def module_text(rng, enzyme, start, insert, end, backbone=40):
    site, gap = SITES[enzyme]
    return designed(lambda: "".join([site, pad(rng, gap), start, insert, end, pad(rng, gap), rc(site),
                                     clean_dna(rng, backbone)]), **{enzyme: 2})


def vector_text(rng, inner, down, up, outer=None, outer_down="", outer_up="", placeholder=12, backbone=40):
    """A vector: [outer site][outer overhang](down)(inner rev site, placeholder, inner site)(up)[outer overhang][outer rev site]."""
    isite, igap = SITES[inner]

    def make():
        core = "".join([down, pad(rng, igap), rc(isite), clean_dna(rng, placeholder), isite, pad(rng, igap), up])
        if outer is None:
            return "".join([pad(rng, 1), core, pad(rng, 1), clean_dna(rng, backbone)])
        osite, ogap = SITES[outer]
        return "".join([osite, pad(rng, ogap), outer_down, core, outer_up, pad(rng, ogap), rc(osite),
                        clean_dna(rng, backbone)])

    if outer is None:
        return designed(make, **{inner: 2})
    return designed(make, **{inner: 2, outer: 2})


def record(text, id_, rng=None, rotate=True, annotate=False):
    rec = CircularRecord(Seq(text), id=id_, name=id_)
    if annotate:
        ref = Reference()
        ref.title = "about " + id_
        rec.annotations["references"] = [ref]
        rec.annotations["topology"] = "circular"
        rec.features.append(SeqFeature(FeatureLocation(3, 9, 1), type="misc_feature", qualifiers={"citation": ["[1]"], "label": [id_]}))
    if rotate and rng is not None:
        rec = rec >> rng.randrange(len(text))
    return rec
DESIGNS = {
    "cidar-entry": dict(vector=cidar.CIDAREntryVector, module=cidar.CIDARProduct, product=cidar.CIDAREntry,
                        inner="BbsI", outer="BsaI", spacer=False, above="cidar-cassette"),
    "cidar-cassette": dict(vector=cidar.CIDARCassetteVector, module=cidar.CIDAREntry, product=cidar.CIDARCassette,
                           inner="BsaI", outer="BbsI", spacer=False, above="cidar-device"),
    "cidar-device": dict(vector=cidar.CIDARDeviceVector, module=cidar.CIDARCassette, product=cidar.CIDARDevice,
                         inner="BbsI", outer="BsaI", spacer=False, above=None),
    "ecoflex-cassette": dict(vector=ecoflex.EcoFlexCassetteVector, module=ecoflex.EcoFlexEntry, product=ecoflex.EcoFlexCassette,
                             inner="BsaI", outer="BsmBI", spacer=True, above="ecoflex-device"),
    "ecoflex-device": dict(vector=ecoflex.EcoFlexDeviceVector, module=ecoflex.EcoFlexCassette, product=ecoflex.EcoFlexDevice,
                           inner="BsmBI", outer="BsaI", spacer=True, above=None),
    "moclo-entry": dict(vector=mkit.MoCloEntryVector, module=mkit.MoCloProduct, product=mkit.MoCloEntry,
                        inner="BpiI", outer="BsaI", spacer=False, above="moclo-cassette"),
    "moclo-cassette": dict(vector=mkit.MoCloCassetteVector, module=mkit.MoCloEntry, product=mkit.MoCloCassette,
                           inner="BsaI", outer="BpiI", spacer=True, above=None),
}


class Failure(Exception):
    pass


def build_level(rng, name, ends, inserts, chain=None, modules=None, bare=False, rotate=True):
    """Build a vector of design `name` and the modules filling it.

    ends: the overhangs the product must show at the next level; inserts: one text per module
    (ignored when ready-made `modules` -- products of the level below -- are given, with their `chain`
    of overhangs). bare=True leaves out the next-level sites around the vector overhangs.
    """
    design = DESIGNS[name]
    if chain is None:
        inner = [o for o in OVERHANGS if o not in ends]
        rng.shuffle(inner)
        if design["spacer"]:
            chain = inner[: len(inserts) + 1]
        else:
            chain = [ends[0]] + inner[: len(inserts) - 1] + [ends[1]]
    if modules is None:
        modules = [
            design["module"](record(module_text(rng, design["inner"], chain[i], ins, chain[i + 1]), "m%d" % i, rng, rotate))
            for i, ins in enumerate(inserts)
        ]
    outer = None if bare else design["outer"]
    spacer = design["spacer"] and not bare
    text = vector_text(rng, design["inner"], chain[0], chain[-1], outer,
                       ends[0] if spacer else "", ends[1] if spacer else "")
    vector = design["vector"](record(text, "v-" + name, rng, rotate))
    return vector, modules, chain


def check_product(name, product, ends, blocks, rng=None):
    """The C11 statement for one product: accepted by the next-level class, right overhangs, whole insert in target."""
    design = DESIGNS[name]
    text = str(product.seq).upper()
    if count_sites(text, design["outer"]) > 2:
        return None  # outside the domain (a junction created a third site): caller retries
    rec = product if rng is None else product >> rng.randrange(len(product))
    module = design["product"](rec)
    if not module.is_valid():
        raise Failure("%s: product of %s is not a valid %s" % (name, design["vector"].__name__, design["product"].__name__))
    got = (str(module.overhang_start()).upper(), str(module.overhang_end()).upper())
    if got != tuple(ends):
        raise Failure("%s: product overhangs %r, expected %r" % (name, got, tuple(ends)))
    target = str(module.target_sequence().seq).upper()
    at = 0
    for block in blocks:  # every module target, in chain order
        at = target.find(block.upper(), at)
        if at < 0:
            raise Failure("%s: target of the product does not contain the whole insert" % name)
        at += len(block)
    return module


def chain_block(chain, inserts):
    return "".join(o + i for o, i in zip(chain, inserts))


def one_level(rng, name, ends, count, bare=False, lengths=(2, 3, 5, 17, 40), rotate=True):
    """Assemble `count` fresh inserts in a vector of design `name`; returns (checked next-level module, block)."""
    for _ in range(50):
        inserts = [clean_dna(rng, rng.choice(lengths)) for _ in range(count)]
        try:
            vector, modules, chain = build_level(rng, name, ends, inserts, bare=bare, rotate=rotate)
        except OutOfDomain:
            continue
        if bare and not vector.is_valid():
            return None, None  # the vector class rejects it: nothing is claimed
        rng.shuffle(modules)
        product = vector.assemble(*modules)
        block = chain_block(chain, inserts)
        try:
            module = check_product(name, product, ends, [block], rng if rotate else None)
        except Failure as failure:
            if bare:
                raise Failure("%s (the vector class accepted a vector without the next-level sites)" % failure)
            raise
        if module is not None:
            return module, block
    raise RuntimeError("could not build an input inside the domain")


def two_levels(rng, name, counts=(2, 1)):
    """entries -> two products -> assembled together one level up."""
    design = DESIGNS[name]
    up = design["above"]
    a, block_a = one_level(rng, name, ("GGAG", "AATG"), counts[0])
    b, block_b = one_level(rng, name, ("AATG", "GCTT"), counts[1])
    ends = ("TGCC", "ACTA") if DESIGNS[up]["spacer"] else ("GGAG", "GCTT")
    vector, modules, _ = build_level(rng, up, ends, None, chain=["GGAG", "AATG", "GCTT"], modules=[b, a])
    try:
        product = vector.assemble(*modules)
    except Exception as err:
        raise Failure("%s -> %s: products of %s cannot be assembled one level up: %s: %s"
                      % (name, up, design["vector"].__name__, type(err).__name__, err))
    if check_product(up, product, ends, [block_a, block_b], rng) is None:
        raise RuntimeError("junction site; pick another seed")


def ytk_entry(rng, start, end, prefix="AT", rotate=True):
    """YTKProduct in YTKEntryVector -> must be a YTKEntry with the type overhangs (start, end)."""
    for _ in range(50):
        template = clean_dna(rng, rng.choice([2, 3, 8, 30]))
        if census(start + template + end) != census(""):
            continue
        try:
            text = designed(lambda: "".join(["CGTCTC", pad(rng, 1), prefix, "GG", "TCTC", pad(rng, 1), start, template,
                                             end, pad(rng, 1), "GA", "GACC", pad(rng, 1), "GAGACG", clean_dna(rng, 40)]),
                            BsmBI=2, BsaI=2)
        except OutOfDomain:
            continue
        product = ytk.YTKProduct(record(text, "pcr", rng, rotate))
        vtext = vector_text(rng, "BsmBI", prefix + "GG", "GACC")
        vector = ytk.YTKEntryVector(record(vtext, "v-ytk", rng, rotate))
        result = vector.assemble(product)
        if count_sites(str(result.seq), "BsaI") != 2:
            continue
        rec = result >> rng.randrange(len(result)) if rotate else result
        entry = ytk.YTKEntry(rec)
        if not entry.is_valid():
            raise Failure("ytk-entry: product of YTKEntryVector is not a valid YTKEntry")
        got = (str(entry.overhang_start()).upper(), str(entry.overhang_end()).upper())
        if got != (start, end):
            raise Failure("ytk-entry: product overhangs %r, expected %r" % (got, (start, end)))
        if template.upper() not in str(entry.target_sequence().seq).upper():
            raise Failure("ytk-entry: target of the product does not contain the whole insert")
        return entry, template
    raise RuntimeError("could not build an input inside the domain")


def ytk_two_levels(rng):
    a, ta = ytk_entry(rng, "AACG", "TATG")
    b, tb = ytk_entry(rng, "TATG", "ATCC")
    vector = ytk.YTKCassetteVector(record(vector_text(rng, "BsaI", "AACG", "ATCC"), "v-ytk1", rng))
    try:
        cassette = vector.assemble(b, a)
    except Exception as err:
        raise Failure("ytk-entry -> cassette: products of YTKEntryVector cannot be assembled one level up: %s: %s"
                      % (type(err).__name__, err))
    text = str(cassette.seq).upper() * 2
    at = text.find(ta.upper())
    if at < 0 or text.find(tb.upper(), at) < 0:
        raise Failure("ytk-entry -> cassette: inserts missing from the cassette")


import hashlib
import inspect
import re

from Bio.Restriction import BsaI, BpiI  # noqa: E402
from moclo import errors  # noqa: E402
from moclo.regex import DNARegex  # noqa: E402
from moclo.core import vectors as core_vectors, modules as core_modules  # noqa: E402
from moclo.kits import plant  # noqa: E402

LINES = []


def emit(*parts):
    line = " | ".join(str(p) for p in parts)
    LINES.append(re.sub(r"0x[0-9a-f]+", "0x?", line))  # object addresses differ from run to run


def show_ref(ref):
    return getattr(ref, "title", None) if isinstance(ref, Reference) else repr(ref)


def show_record(rec):
    if rec is None:
        return "None"
    annotations = []
    for key in sorted(rec.annotations):
        value = rec.annotations[key]
        if key == "references":
            value = [show_ref(r) for r in value]
        annotations.append((key, value))
    features = []
    for f in rec.features:
        quals = sorted((k, [show_ref(x) for x in v] if isinstance(v, list) else v) for k, v in f.qualifiers.items())
        features.append((f.type, repr(f.location), f.id, quals))
    return repr((type(rec).__name__, str(rec.seq), rec.id, rec.name, rec.description, annotations, features,
                 list(rec.dbxrefs), sorted(rec.letter_annotations.items())))


def outcome(func, *args, **kwargs):
    """repr of result / exception type and message / warnings of a call."""
    with warnings.catch_warnings(record=True) as caught:
        warnings.simplefilter("always")
        try:
            value = func(*args, **kwargs)
            if isinstance(value, SeqRecord):
                shown = show_record(value)
            else:
                shown = repr(value)
            result = ("ok", shown)
        except Exception as err:
            result = ("raise", type(err).__name__, str(err))
    caught = [w for w in caught if "pkg_resources" not in str(w.message)]
    return result + tuple((type(w.message).__name__, str(w.message)) for w in caught)


def mixed_case(rng, text):
    return "".join(c.lower() if rng.random() < 0.4 else c for c in text)


def regex_cases(rng):
    patterns = ["AA(NN)", "GGTCTCN(NNNN)(NN*N)(NNNN)NGAGACC", "(RY)(N*?)(SW)", "GAAGACNN(NNNN)(NN*N)(NNNN)NNGTCTTC",
                "N(NNNN)(NGAGACCN*GGTCTCN)(NNNN)N", "(A)(C)?(G)", "B(D)H(K)M", "(N*)", "TT(V*)TT",
                "A*C(G)", "AC|GT", "GG?T(N)", "ac(N)", "G{2}(N)", "T", "CGTCTCN(NNGG)(TCTCNNNNNN*?NNNNNGA)(GACC)NGAGACG"]
    for round_ in range(200):
        pattern = rng.choice(patterns)
        regex = DNARegex(pattern)
        emit("regex", pattern, regex.pattern, regex.regex.pattern, regex.regex.flags, DNARegex(pattern).regex is regex.regex)
        length = rng.choice([1, 3, 7, 12, 30, 60])
        text = "".join(rng.choice("ACGTN" if rng.random() < 0.1 else "ACGT") for _ in range(length))
        if rng.random() < 0.5 and length > 30:
            site = "GGTCTCA" + pad(rng, 4) + pad(rng, rng.choice([2, 5, 9])) + pad(rng, 4) + "AGAGACC"
            cut = rng.randrange(len(site))
            text = site[cut:] + text + site[:cut]
        if rng.random() < 0.4:
            text = mixed_case(rng, text)
        subjects = [Seq(text), SeqRecord(Seq(text), id="lin"), CircularRecord(Seq(text), id="circ")]
        feat = CircularRecord(Seq(text), id="feat")
        if len(text) > 6:
            feat.features.append(SeqFeature(FeatureLocation(1, 4, 1), type="misc_feature", qualifiers={"label": ["x"]}))
            feat.features.append(SeqFeature(FeatureLocation(0, len(text)), type="source"))
        subjects.append(feat)
        subjects.append(text)  # not a sequence: TypeError
        for subject in subjects:
            for kwargs in ({}, {"linear": False}, {"pos": 2}, {"pos": 1, "endpos": 5, "linear": False}, {"endpos": 0},
                           {"pos": -2}, {"pos": 4, "endpos": -1}, {"pos": 100}):
                with warnings.catch_warnings():
                    warnings.simplefilter("ignore")
                    try:
                        match = regex.search(subject, **kwargs)
                    except Exception as err:
                        emit("search", type(subject).__name__, sorted(kwargs.items()), type(err).__name__, err)
                        continue
                    if match is None:
                        emit("search", type(subject).__name__, sorted(kwargs.items()), None)
                        continue
                    groups = []
                    for index in range(regex.regex.groups + 2):
                        try:
                            group = match.group(index)
                            shown = show_record(group) if isinstance(group, SeqRecord) else (type(group).__name__, str(group))
                            groups.append((match.span(index), shown))
                        except Exception as err:
                            groups.append((type(err).__name__, str(err)))
                    emit("search", type(subject).__name__, sorted(kwargs.items()), match.start(), match.end(), match.span(),
                         match.shift, match.rec is subject, match.match.re.pattern, groups)


def structure_cases():
    seen = []
    for module in (core_vectors, core_modules, cidar, ecoflex, mkit, ytk, plant):
        for cname, cls in sorted(vars(module).items()):
            if not (inspect.isclass(cls) and hasattr(cls, "structure")) or cname.startswith("_") or cls in seen:
                continue
            seen.append(cls)
            emit("structure", module.__name__, cname, outcome(cls.structure), getattr(cls, "_level", None),
                 getattr(cls, "cutter", None), getattr(cls, "signature", None))
            try:
                emit("regex-of", cname, cls._get_regex().pattern, cls._get_regex() is cls._get_regex())
            except Exception as err:
                emit("regex-of", cname, type(err).__name__, err)


def variants(rng, name, ends):
    """Designed vector texts and near misses (shifted / missing / wrong outer sites, missing spacer)."""
    design = DESIGNS[name]
    chain = ["GGAG", "TACT", "AATG"]
    spacer = design["spacer"]
    for kind in ("designed", "bare", "no-spacer", "other-outer", "shifted", "one-site", "lower"):
        outer, down, up = design["outer"], (ends[0] if spacer else ""), (ends[1] if spacer else "")
        try:
            if kind == "bare":
                text = vector_text(rng, design["inner"], chain[0], chain[-1])
            elif kind == "no-spacer":
                text = vector_text(rng, design["inner"], chain[0], chain[-1], outer)
            elif kind == "other-outer":
                other = [e for e in ("BsaI", "BbsI", "BsmBI") if SITES[e][0] not in (SITES[outer][0], SITES[design["inner"]][0])][0]
                text = vector_text(rng, design["inner"], chain[0], chain[-1], other, down, up)
            elif kind == "shifted":
                text = vector_text(rng, design["inner"], chain[0], chain[-1], outer, down + "A", up)
            elif kind == "one-site":
                text = vector_text(rng, design["inner"], chain[0], chain[-1], outer, down, up)
                site = rc(SITES[outer][0])
                at = text.rfind(site)
                text = text[:at] + "ACGTAC" + text[at + 6:]
            else:
                text = vector_text(rng, design["inner"], chain[0], chain[-1], outer, down, up)
                if kind == "lower":
                    text = mixed_case(rng, text)
        except OutOfDomain:
            continue
        yield kind, text, chain


def vector_cases(rng):
    ends = ("TGCC", "ACTA")
    for round_ in range(6):
        for name, design in DESIGNS.items():
            for kind, text, chain in variants(rng, name, ends):
                for wrap in (CircularRecord, SeqRecord):
                    rec = wrap(Seq(text), id="vec", name="vec")
                    if wrap is CircularRecord:
                        rec = rec >> rng.randrange(len(rec))
                    vector = design["vector"](rec)
                    emit("vector", name, kind, wrap.__name__, outcome(vector.is_valid), outcome(vector.overhang_start),
                         outcome(vector.overhang_end), outcome(vector.placeholder_sequence), outcome(vector.target_sequence))
                    if wrap is SeqRecord:
                        continue
                    try:
                        mods = [design["module"](record(module_text(rng, design["inner"], chain[i], clean_dna(rng, 9),
                                                                    chain[i + 1]), "m%d" % i, rng, annotate=True))
                                for i in range(2)]
                    except OutOfDomain:
                        continue
                    before = [show_record(m.record) for m in mods] + [show_record(vector.record)]
                    result = outcome(vector.assemble, *mods)
                    after = [show_record(m.record) for m in mods] + [show_record(vector.record)]
                    emit("assemble", name, kind, result, before == after, after)
                    if result[0] == "ok":
                        product = vector.assemble(*mods)
                        nxt = design["product"](product)
                        emit("next", name, kind, outcome(nxt.is_valid), outcome(nxt.overhang_start),
                             outcome(nxt.overhang_end), outcome(nxt.target_sequence))


class MockVector(core_vectors.AbstractVector):
    cutter = BpiI


class MockModule(core_modules.AbstractModule):
    cutter = BpiI


def assembly_cases(rng):
    """AssemblyManager on good and bad inputs: duplicates, reverse complements, gaps, leftovers, same ids, citations."""
    for round_ in range(150):
        kind = rng.choice(["ok", "same-id", "duplicate", "revcomp", "missing", "unused", "loop", "bad-vector",
                           "bad-module", "lower", "twice", "dangling-citation"])
        chain = ["GGAG", "TACT", "AATG", "AGGT"]
        try:
            texts = [module_text(rng, "BpiI", chain[i], clean_dna(rng, rng.choice([2, 6, 20])), chain[i + 1]) for i in range(3)]
            ids = ["m0", "m1", "m2"]
            vtext = vector_text(rng, "BpiI", chain[0], chain[-1])
            if kind == "same-id":
                ids = ["assembly", "assembly", "assembly"]
            elif kind == "duplicate":
                texts[2] = module_text(rng, "BpiI", chain[1], clean_dna(rng, 5), chain[3])
            elif kind == "revcomp":
                texts.append(module_text(rng, "BpiI", rc(chain[1]), clean_dna(rng, 5), "GCTT"))
                ids.append("m3")
            elif kind == "missing":
                del texts[1], ids[1]
            elif kind == "unused":
                texts.append(module_text(rng, "BpiI", "GCTT", clean_dna(rng, 5), "CGCT"))
                ids.append("m3")
            elif kind == "loop":
                texts[2] = module_text(rng, "BpiI", chain[2], clean_dna(rng, 5), chain[1])
            elif kind == "bad-vector":
                vtext = vector_text(rng, "BpiI", chain[0], chain[0].lower())
            elif kind == "bad-module":
                texts[1] = clean_dna(rng, 50)
            elif kind == "lower":
                texts = [mixed_case(rng, t) for t in texts]
                vtext = mixed_case(rng, vtext)
        except OutOfDomain:
            continue
        mods = [MockModule(record(t, i, rng, annotate=True)) for t, i in zip(texts, ids)]
        if kind == "twice":
            mods.append(mods[0])
        if kind == "dangling-citation":
            mods[1].record.features[0].qualifiers["citation"] = ["[7]"]
        vrec = record(vtext, "vec", rng, annotate=True)
        if rng.random() < 0.3:
            vrec.annotations["references"].append(mods[0].record.annotations["references"][0])
        vector = MockVector(vrec)
        rng.shuffle(mods)
        kwargs = rng.choice([{}, {"id": "x1", "name": "n1"}])
        result = outcome(vector.assemble, *mods, **kwargs)
        emit("manager", kind, sorted(kwargs.items()), result, [show_record(m.record) for m in mods], show_record(vector.record))


def multilevel_cases(rng):
    for round_ in range(4):
        for name, design in DESIGNS.items():
            for count in (1, 2, 3):
                emit("level", name, count, outcome(lambda: show_record(one_level(rng, name, ("GGAG", "GCTT"), count)[0].record)))
            emit("bare", name, outcome(lambda: one_level(rng, name, ("GGAG", "GCTT"), 2, bare=True)[1]))
            if design["above"]:
                emit("two", name, outcome(two_levels, rng, name))
        emit("ytk", outcome(lambda: show_record(ytk_entry(rng, "AACG", "TATG")[0].record)))
        emit("ytk2", outcome(ytk_two_levels, rng))


def main():
    rng = random.Random(11)
    structure_cases()
    regex_cases(rng)
    vector_cases(rng)
    assembly_cases(rng)
    multilevel_cases(rng)
    structure_cases()  # once more, after use
    digest = hashlib.sha256("\n".join(LINES).encode("utf-8")).hexdigest()
    if "--dump" in sys.argv:
        print("\n".join(LINES))
    print("%d results, digest %s" % (len(LINES), digest))


if __name__ == "__main__":
    main()
